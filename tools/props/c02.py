"""C02  Rendering is total and its memory is bounded by the canvas, not the document."""
import json
import os
import re

import vlib
from props import rendercommon as rc

CANVASES = [(1, 1), (1, 200), (3, 3), (64, 64), (512, 512)]
FILTER_ASSERTS = ['filter/composite.rs:25', 'filter/composite.rs:26', 'filter/lighting.rs:140', 'filter/lighting.rs:185',
                  'filter/displacement_map.rs:25', 'filter/displacement_map.rs:26']
K2 = 25          # MAXBB_MUL_W * MAXBB_MUL_H, re-read from Gen/STATUS.json in run()
LIMIT_MS = 6000  # per render (release); measured: 99.5% of the sweep renders take < 300 ms, the slowest
                 # unclassified one (512x512, scale 50, blur) 5.9 s single-threaded


def transforms(W, H):
    return {
        'identity': (1, 0, 0, 1, 0, 0),
        'frac-shift': (1, 0, 0, 1, 0.37, -13.61),
        'scale0.01': (0.01, 0, 0, 0.01, 0, 0),
        'scale50': (50, 0, 0, 50, -20.0 * W / 50.0, -20.0 * H / 50.0),
        'rotate': rc.rot(33, W / 2.0, H / 2.0),
        'skew': (1, 0.4, -0.3, 1.2, 10, -20),
        'near-singular': (1, 1, 1, 1.0001, 0, 0),
    }


def alloc_bound(W, H):
    # one layer is at most K2 canvases of 4 bytes; tiny-skia's draw_pixmap / mask / clip code holds a few of
    # them at once but each is a separate allocation.  Measured over the sweep (renders outside the known
    # classes): largest single allocation <= 1.0 x K2*W*H*4 + 2.3 MB (decoded raster images, path storage of
    # text-heavy files, the 512x512 nested-svg image canvases) - document-sized, independent of W, H, scale.
    return 2 * K2 * W * H * 4 + (6 << 20)


def classify(ctx, binp, item):
    doc, W, H, t = item
    o = ctx.rvh_batch(binp, 'c02-classify', ["-\t%s\t%d\t%d\t%s" % (doc.replace('\n', ' ').replace('\t', ' '), W, H, rc.ts_str(t))])[0]
    try:
        return json.loads(o)
    except (TypeError, ValueError):
        return {}


def judge(ctx, binp, item, r, st, label, profile):
    """r: parsed result of c02-render for item=(doc, W, H, ts).  Returns True if fine or known."""
    doc, W, H, t = item
    replay = dict(op='c02-render', profile=profile, doc=doc, canvas=[W, H], root_transform=list(t), result=r,
                  replay="rvh c02-render (harness/target/%s), payload '-\\t<doc>\\t<W>\\t<H>\\t<ts>\\tlimit=%d'" % (profile, LIMIT_MS))
    if 'skip' in r:
        st['skipped'] += 1
        if r['skip'] == 'parse-panic':
            st['parse_panics'] = st.get('parse_panics', 0) + 1    # C01's subject; witness kept in the evidence
            ctx.cov.setdefault('parse_panics_seen', [])
            if len(ctx.cov['parse_panics_seen']) < 3:
                ctx.cov['parse_panics_seen'].append(dict(at=r.get('at'), doc=doc[:400]))
        return True
    at = str(r.get('at', ''))
    if 'panic' in r:
        st['panics'] += 1
        text = "%s: render panicked: %s at %s [canvas %dx%d, ts %s]" % (label, r['panic'][:120], at, W, H, rc.ts_str(t))
        if any(at.endswith(x) for x in FILTER_ASSERTS):
            return ctx.known_or_violation('filter-size-assert', text, replay)
        ctx.violation(text, replay)
        return False
    slow = False
    big = False
    if 'crash' in r:
        err = r.get('stderr', '')
        if 'c02-watchdog' in err or r['crash'] == 'timeout':
            slow = True
        elif 'memory allocation of' in err:
            big = True
        else:
            ctx.violation("%s: render aborted (%s: %s) [canvas %dx%d, ts %s]" % (label, r['crash'], err[-200:], W, H, rc.ts_str(t)), replay)
            return False
    elif 'ok' in r:
        st['ok'] += 1
        st['max_ms'] = max(st['max_ms'], r['ms'])
        if r['largest'] > alloc_bound(W, H):
            big = True
        if r['ms'] > LIMIT_MS * (4 if profile == 'debug' else 1):
            slow = True
        if not big and not slow:
            st['ratio'] = max(st['ratio'], r['largest'] / float(alloc_bound(W, H)))
            return True
    else:
        ctx.violation("%s: unexpected harness result %s" % (label, str(r)[:200]), replay)
        return False
    if slow and not big and not r.get('_retried'):
        # wall-clock limit: under a heavily loaded machine (load average 50+, parallel builds of other checks) renders that take
        # 1.4 s alone were seen to exceed 6 s inside a batch.  Re-run the item alone once with the same limit and judge that
        # result; a hang or a genuinely expensive render exceeds the limit again.
        lim = LIMIT_MS * (4 if profile == 'debug' else 1)
        o = ctx.rvh_batch(binp, 'c02-render', ["-\t%s\t%d\t%d\t%s\tlimit=%d" % (doc.replace('\n', ' ').replace('\t', ' '), W, H, rc.ts_str(t), lim)],
                          per_item_timeout=40, chunk=1)[0]
        try:
            r2 = json.loads(o)
        except (TypeError, ValueError):
            r2 = {'error': 'unparsable: %s' % str(o)[:100]}
        r2['_retried'] = True
        r2['first_attempt'] = {k: v for k, v in r.items() if k in ('crash', 'stderr', 'ms')}
        st['slow_retried'] = st.get('slow_retried', 0) + 1
        if 'ok' in r:
            st['ok'] -= 1
        return judge(ctx, binp, item, r2, st, label, profile)
    cls = classify(ctx, binp, item)
    replay['class_predicates'] = cls
    what = ("largest single allocation %s bytes > bound %d" % (r.get('largest', 'aborted: ' + r.get('stderr', '')[-80:]), alloc_bound(W, H))) if big \
        else ("render exceeds %d ms" % LIMIT_MS)
    text = "%s: %s [canvas %dx%d, ts %s]" % (label, what, W, H, rc.ts_str(t))
    area = K2 * W * H
    if cls.get('tile_px', 0) > area:
        st['cls_pattern'] += 1
        return ctx.known_or_violation('pattern-tile-unbounded', text, replay)
    if slow and cls.get('morph_cost', 0) > 5e7:
        st['cls_morph'] += 1
        return ctx.known_or_violation('morphology-cost', text, replay)
    if slow and cls.get('octaves', 0) > 1000:
        return ctx.known_or_violation('turbulence-octaves', text, replay)
    if big and cls.get('image_px', 0) * 4 > alloc_bound(W, H):
        # a raster image is decoded at the size its header declares, before / regardless of the data that follows
        st['cls_image'] = st.get('cls_image', 0) + 1
        return ctx.known_or_violation('image-decode-unbounded', text, replay)
    if cls.get('filter_alloc_px', 0) > area:
        # only primitives that allocate their result with the (unclamped) region size count: blend, composite, flood,
        # image, tile, turbulence, lighting, displacement map, merge
        st['cls_filter'] += 1
        return ctx.known_or_violation('filter-image-unbounded', text, replay)
    ctx.violation(text, replay)
    return False


def run_renders(ctx, binp, items, label, profile='release', extra=''):
    payloads = ["-\t%s\t%d\t%d\t%s\tlimit=%d%s" % (d.replace('\n', ' ').replace('\t', ' '), W, H, rc.ts_str(t),
                                                   LIMIT_MS * (4 if profile == 'debug' else 1), extra) for d, W, H, t in items]
    outs = ctx.rvh_batch(binp, 'c02-render', payloads, per_item_timeout=40, chunk=12)
    st = dict(renders=len(items), ok=0, panics=0, skipped=0, max_ms=0, ratio=0.0, cls_pattern=0, cls_morph=0, cls_filter=0)
    nbad = 0
    for it, o in zip(items, outs):
        try:
            r = json.loads(o)
        except (TypeError, ValueError):
            r = {'error': 'unparsable: %s' % str(o)[:100]}
        ctx.note_case("%s/%s/%d/%d/%s" % (profile, it[0][:200], it[1], it[2], rc.ts_str(it[3])), nontrivial=r.get('nonblank', 0) > 0 or 'ok' not in r)
        if nbad < 6:
            if not judge(ctx, binp, it, r, st, label, profile):
                nbad += 1
    st['ratio'] = round(st['ratio'], 3)
    return st


# ------------------------------------------------------------------------------------------------
# mutants: numeric magnitude substitution in filter / pattern attributes of corpus files
# ------------------------------------------------------------------------------------------------
MUT_ATTRS = ['radius', 'stdDeviation', 'dx', 'dy', 'k1', 'k2', 'k3', 'k4', 'numOctaves', 'baseFrequency', 'scale', 'surfaceScale',
             'specularExponent', 'kernelUnitLength', 'order', 'divisor', 'bias', 'x', 'y', 'width', 'height', 'seed', 'z', 'limitingConeAngle']
MUT_VALUES = ['0', '-1', '1e-40', '1e9', '3e9', '1e30', '3e38', '-3e38', '65536', '0.00001', '1e5']


def morph_doc(W, H, R, radius, variant=0):
    """feMorphology with radius `radius` in a userSpaceOnUse filter region of extent R around the canvas; variants feed
    it from a flood with a huge sub-region, use bbox units, or two radii"""
    reg = 'filterUnits="userSpaceOnUse" x="%s" y="%s" width="%s" height="%s"' % (fnum_(-R), fnum_(-R), fnum_(2 * R + W), fnum_(2 * R + H))
    if variant == 1:
        prim = ('<feOffset dx="1" dy="1" x="%s" y="%s" width="%s" height="%s" result="a"/><feMorphology in="a" operator="dilate" radius="%s"/>'
                % (fnum_(-R), fnum_(-R), fnum_(2 * R), fnum_(2 * R), fnum_(radius)))
    elif variant == 2:
        reg = 'x="%s" y="%s" width="%s" height="%s"' % (fnum_(-R / 10.0), fnum_(-R / 10.0), fnum_(R / 5.0), fnum_(R / 5.0))
        prim = '<feMorphology operator="erode" radius="%s %s"/>' % (fnum_(radius), fnum_(radius / 3.0))
    else:
        prim = '<feMorphology operator="%s" radius="%s"/>' % ('dilate' if variant == 0 else 'erode', fnum_(radius))
    return ('<svg %s width="%d" height="%d"><filter id="f" %s>%s</filter><rect x="1" y="1" width="%d" height="%d" fill="#2a2" filter="url(#f)"/></svg>'
            % (rc.NS, W, H, reg, prim, max(1, W - 3), max(1, H - 3)))


def fnum_(x):
    return repr(float(x))


KSIZES = [(w, h) for w in (1, 2, 3, 4, 5, 7, 16) for h in (1, 2, 3, 4, 5, 7, 16)] + [(60, 20), (20, 60), (120, 1), (1, 120)]
LIGHTS = ['<feDistantLight azimuth="%s" elevation="%s"/>', '<fePointLight x="%s" y="%s" z="10"/>',
          '<feSpotLight x="%s" y="%s" z="15" pointsAtX="3" pointsAtY="-2" pointsAtZ="0" specularExponent="4" limitingConeAngle="40"/>']


def kernel_prims(rng, full=False):
    """filter primitives with adversarial but in-domain parameters (every one is accepted by usvg)"""
    P = []
    for sd in ['0.06', '0.5', '1.9', '2', '5', '40', '1000', '3 0', '0 7', '0.3 25']:
        P.append('<feGaussianBlur stdDeviation="%s"/>' % sd)
    P += ['<feColorMatrix type="matrix" values="%s"/>' % ' '.join(fnum_(rng.uniform(-2, 2)) for _ in range(20)),
          '<feColorMatrix type="saturate" values="0.3"/>', '<feColorMatrix type="hueRotate" values="77"/>', '<feColorMatrix type="luminanceToAlpha"/>']
    P += ['<feComponentTransfer><feFuncR type="table" tableValues="1 0 0.5 2 -1"/><feFuncA type="discrete" tableValues="0 1 0.3"/></feComponentTransfer>',
          '<feComponentTransfer><feFuncG type="linear" slope="-3" intercept="2"/><feFuncB type="gamma" amplitude="2" exponent="0.1" offset="-0.5"/></feComponentTransfer>',
          '<feComponentTransfer><feFuncR type="table" tableValues="0.7"/><feFuncG type="discrete" tableValues=""/></feComponentTransfer>']
    for ks in ['0 1 1 0', '1 0 0 0', '2 -1 0.5 0.3', '-1 -1 -1 2', '0 0 0 1', '100 100 100 -100']:
        k = ks.split()
        P.append('<feComposite operator="arithmetic" in2="SourceGraphic" k1="%s" k2="%s" k3="%s" k4="%s"/>' % tuple(k))
    conv = []
    for ox in range(1, 10):
        for oy in ([ox] if not full else [1, ox, 9]):
            for tx in sorted(set([0, ox // 2, ox - 1])):
                for ty in sorted(set([0, oy // 2, oy - 1])):
                    for em in ('duplicate', 'wrap', 'none'):
                        conv.append('<feConvolveMatrix order="%d %d" targetX="%d" targetY="%d" edgeMode="%s" preserveAlpha="%s" divisor="%s" bias="%s" kernelMatrix="%s"/>'
                                    % (ox, oy, tx, ty, em, rng.choice(['true', 'false']), rng.choice(['1', '0.5', '9']), rng.choice(['0', '0.5', '-0.2']),
                                       ' '.join(rng.choice(['1', '0', '-1', '0.25', '2']) for _ in range(ox * oy))))
    P += conv if full else rng.sample(conv, 40)
    for sc in ['0', '1', '8', '-8', '50', '1000', '-1000']:
        for xc, yc in (('R', 'G'), ('A', 'B'), ('B', 'A')):
            P.append('<feDisplacementMap in2="SourceGraphic" scale="%s" xChannelSelector="%s" yChannelSelector="%s"/>' % (sc, xc, yc))
    for li in LIGHTS:
        ls = li % (fnum_(rng.uniform(-50, 150)), fnum_(rng.uniform(-50, 150)))
        for ss in ['1', '-5', '100']:
            P.append('<feDiffuseLighting surfaceScale="%s" diffuseConstant="1.5" lighting-color="#fc8">%s</feDiffuseLighting>' % (ss, ls))
            P.append('<feSpecularLighting surfaceScale="%s" specularConstant="2" specularExponent="%s" lighting-color="#8cf">%s</feSpecularLighting>'
                     % (ss, rng.choice(['1', '20', '128']), ls))
    for r in ['0.5', '1', '3', '100', '1 0.2', '0.2 40']:
        P.append('<feMorphology operator="%s" radius="%s"/>' % (rng.choice(['erode', 'dilate']), r))
    for bf in ['0.01', '0.5', '0.1 2', '10']:
        for no in ['0', '1', '3', '8']:
            P.append('<feTurbulence type="%s" baseFrequency="%s" numOctaves="%s" seed="%d" stitchTiles="%s"/>'
                     % (rng.choice(['turbulence', 'fractalNoise']), bf, no, rng.below(100), rng.choice(['stitch', 'noStitch'])))
    # integer edge cases: seed over the i32 range, numOctaves 0..64 with and without stitching, large frequencies with stitching
    for sd in ['-2147483648', '-2147483647', '-2147483646', '-1073741824', '-1', '0', '1', '2147483646', '2147483647', '-3e9', '3e9', '0.9', '-0.9']:
        P.append('<feTurbulence baseFrequency="0.05" numOctaves="1" seed="%s" stitchTiles="%s"/>' % (sd, rng.choice(['stitch', 'noStitch'])))
    for no in ['0', '1', '2', '8', '20', '31', '32', '40', '64']:
        for stt in ('stitch', 'noStitch'):
            P.append('<feTurbulence type="%s" baseFrequency="%s" numOctaves="%s" stitchTiles="%s"/>'
                     % (rng.choice(['turbulence', 'fractalNoise']), rng.choice(['0.05', '0.5 0.01', '3']), no, stt))
    for bf in ['1e3', '1e6', '1e9', '3e9', '1e15', '3e38', '1e9 0.01']:
        P.append('<feTurbulence baseFrequency="%s" numOctaves="%s" stitchTiles="stitch"/>' % (bf, rng.choice(['1', '2', '5'])))
    for o in ['1', '2', '9', '9 1', '1 9']:
        n = [int(x) for x in (o + ' ' + o).split()[:2]]
        for tx in sorted(set([0, n[0] - 1])):
            P.append('<feConvolveMatrix order="%s" targetX="%d" targetY="%d" edgeMode="wrap" kernelMatrix="%s"/>' % (o, tx, n[1] - 1, ' '.join(['1'] * (n[0] * n[1]))))
    for cnt in (1, 2, 3, 255, 256, 257, 1000):
        P.append('<feComponentTransfer><feFuncR type="table" tableValues="%s"/><feFuncA type="discrete" tableValues="%s"/></feComponentTransfer>'
                 % (' '.join(['0.5'] * cnt), ' '.join(['1', '0'] * (cnt // 2 + 1))))
    # extreme finite values for every scalar parameter (each call runs under the 3 s watchdog)
    for v in ['1e6', '1e8', '1e10', '3e12', '3e38', '-1e7', '-1e10', '-3e38']:
        P.append('<feColorMatrix type="hueRotate" values="%s"/>' % v)
        P.append('<feColorMatrix type="saturate" values="%s"/>' % v.lstrip('-'))
        P.append('<feComponentTransfer><feFuncR type="linear" slope="%s" intercept="%s"/><feFuncG type="gamma" amplitude="%s" exponent="%s" offset="%s"/>'
                 '<feFuncB type="table" tableValues="%s 0 %s"/></feComponentTransfer>' % (v, v, v, rng.choice(['0.5', '3', v]), v, v, v))
        P.append('<feDisplacementMap in2="SourceGraphic" scale="%s" xChannelSelector="R" yChannelSelector="A"/>' % v)
        P.append('<feDiffuseLighting surfaceScale="%s" diffuseConstant="%s"><fePointLight x="%s" y="5" z="%s"/></feDiffuseLighting>' % (v, v.lstrip('-'), v, v))
        P.append('<feSpecularLighting surfaceScale="%s" specularConstant="%s" specularExponent="128"><feSpotLight x="%s" y="%s" z="%s" pointsAtX="%s" '
                 'pointsAtY="0" pointsAtZ="0" specularExponent="%s" limitingConeAngle="%s"/></feSpecularLighting>' % (v, v.lstrip('-'), v, v, v, v, v.lstrip('-'), v))
        P.append('<feDiffuseLighting surfaceScale="1"><feDistantLight azimuth="%s" elevation="%s"/></feDiffuseLighting>' % (v, v))
        P.append('<feComposite operator="arithmetic" in2="SourceGraphic" k1="%s" k2="%s" k3="%s" k4="%s"/>' % (v, v, v, v))
        P.append('<feConvolveMatrix order="3" divisor="%s" bias="%s" kernelMatrix="%s 1 0 0 1 0 0 0 %s"/>' % (v, v, v, v))
        P.append('<feMorphology operator="dilate" radius="%s"/>' % v.lstrip('-'))
        P.append('<feGaussianBlur stdDeviation="%s"/>' % v.lstrip('-'))
        P.append('<feTurbulence baseFrequency="%s" numOctaves="2" seed="%s"/>' % (v.lstrip('-'), v))
    return P


def kernel_doc(prim, w, h):
    """a document that runs `prim` on a w x h filter image (userSpaceOnUse region w x h at the origin, canvas w x h)"""
    return ('<svg %s width="%d" height="%d"><filter id="f" filterUnits="userSpaceOnUse" x="0" y="0" width="%d" height="%d">%s</filter>'
            '<rect width="%d" height="%d" fill="#c84" fill-opacity="0.8" filter="url(#f)"/></svg>' % (rc.NS, w, h, w, h, prim, w, h))


PRIM_DOCS = [
    '<feGaussianBlur stdDeviation="%(v)s"/>', '<feOffset dx="%(v)s" dy="-%(v)s"/>', '<feFlood flood-color="#2a2"/>',
    '<feColorMatrix type="hueRotate" values="40"/>', '<feComponentTransfer><feFuncR type="table" tableValues="1 0"/></feComponentTransfer>',
    '<feComposite operator="arithmetic" in2="SourceGraphic" k1="0.5" k2="0.5" k3="0.5"/>', '<feComposite operator="xor" in2="SourceGraphic"/>',
    '<feBlend mode="multiply" in2="SourceGraphic"/>',
    '<feConvolveMatrix order="9" edgeMode="wrap" kernelMatrix="%(k81)s"/>', '<feConvolveMatrix order="3" edgeMode="duplicate" kernelMatrix="1 0 -1 2 0 -2 1 0 -1"/>',
    '<feConvolveMatrix order="5 2" targetX="4" targetY="0" edgeMode="wrap" kernelMatrix="1 1 1 1 1 1 1 1 1 1"/>',
    '<feDisplacementMap in2="SourceGraphic" scale="%(v)s" xChannelSelector="A" yChannelSelector="A"/>',
    '<feFlood flood-color="white" result="m"/><feDisplacementMap in="SourceGraphic" in2="m" scale="%(v)s" xChannelSelector="R" yChannelSelector="G"/>',
    '<feDiffuseLighting surfaceScale="5"><feDistantLight azimuth="45" elevation="30"/></feDiffuseLighting>',
    '<feDiffuseLighting surfaceScale="2"><fePointLight x="10" y="10" z="20"/></feDiffuseLighting>',
    '<feSpecularLighting surfaceScale="3" specularExponent="10"><feSpotLight x="50" y="50" z="30" pointsAtX="0" pointsAtY="0" pointsAtZ="0"/></feSpecularLighting>',
    '<feMorphology operator="dilate" radius="%(v)s"/>', '<feTurbulence baseFrequency="0.05" numOctaves="2"/>', '<feTile/>',
    '<feTurbulence baseFrequency="0.05" seed="-2147483648"/>', '<feTurbulence baseFrequency="0.1" numOctaves="40" stitchTiles="stitch"/>',
    '<feTurbulence baseFrequency="1e9" numOctaves="1" stitchTiles="stitch" seed="2147483647"/>',
    '<feMerge><feMergeNode in="SourceGraphic"/><feMergeNode in="SourceAlpha"/></feMerge>', '<feDropShadow dx="2" dy="2" stdDeviation="%(v)s"/>',
]


def thin_filter_case(rng):
    """(doc, W, H, ts): one primitive on tiny / thin / non-square filter images - through thin canvases, tiny root scales,
    non-uniform root scales, or 1-3 px filter regions"""
    prim = rng.choice(PRIM_DOCS) % dict(v=rng.choice(['1', '3', '8', '20']), k81=' '.join(['1'] * 81))
    N = rng.choice([3, 5, 20, 50, 120])
    W, H = rng.choice([(1, 1), (1, N), (N, 1), (2, 2), (3, 3), (2, N), (N, 2), (N, N // 3 + 1), (8, 8)])
    mode = rng.below(4)
    if mode == 0:      # a 200x200 document rendered as a thumbnail
        s = rng.choice([0.01, 0.015, 0.02, 0.03])
        t = (s, 0, 0, s, 0, 0)
        reg = ''
        size = 200
    elif mode == 1:    # non-uniform root scale
        sx, sy = rng.choice([(3, 0.5), (0.5, 3), (0.025, 0.1), (0.1, 0.025), (1, 0.02)])
        t = (sx, 0, 0, sy, 0, 0)
        reg = ''
        size = rng.choice([40, 100])
    elif mode == 2:    # a filter region 1-3 px wide / high
        rw, rh = rng.choice([(1, 50), (2, 30), (3, 3), (30, 1), (60, 2), (2, 2), (1, 3), (3, 1), (60, 20), (20, 60)])
        reg = 'filterUnits="userSpaceOnUse" x="%d" y="%d" width="%d" height="%d"' % (rng.below(4), rng.below(4), rw, rh)
        t = (1, 0, 0, 1, 0, 0)
        size = 64
        W, H = max(W, 8), max(H, 8)
    else:              # the canvas itself is thin
        t = (1, 0, 0, 1, rng.choice([0, 0.37]), 0)
        reg = 'x="0" y="0" width="1" height="1"'
        size = max(W, H)
    doc = ('<svg %s width="%d" height="%d"><filter id="f" %s>%s</filter><rect width="%d" height="%d" fill="#c84" fill-opacity="0.9" filter="url(#f)"/></svg>'
           % (rc.NS, size, size, reg, prim, size, size))
    return doc, W, H, t


def nested_image_doc(depth, rng):
    """SVG-in-SVG `data:` images `depth` levels deep, each inside an isolated group whose box is far larger than the canvas"""
    import base64
    def level(img):
        big = rng.choice([1000, 100000])
        grp = rng.choice(['opacity="0.5"', 'style="isolation:isolate"', 'opacity="0.9" transform="scale(%s)"' % rng.choice([1, 3, 40])])
        return ('<svg xmlns="http://www.w3.org/2000/svg" xmlns:xlink="http://www.w3.org/1999/xlink" width="8" height="8"><g %s>'
                '<rect x="%d" y="%d" width="%d" height="%d" fill="#2a2"/>%s</g></svg>' % (grp, -big, -big, 2 * big, 2 * big, img))
    inner = level('')
    for _ in range(depth):
        href = 'data:image/svg+xml;base64,' + base64.b64encode(inner.encode()).decode()
        inner = level('<image x="0" y="0" width="8" height="8" xlink:href="%s"/>' % href)
    return inner


def make_gif(screen, frame, offset=(0, 0), colors=4):
    """a one-frame GIF89a: logical screen `screen`, image descriptor `frame` at `offset` (they may disagree), LZW data that
    never grows past 3-bit codes (a clear code every two pixels)"""
    import struct
    sw, sh = screen
    fw, fh = frame
    out = bytearray(b'GIF89a' + struct.pack('<HHBBB', sw, sh, 0x80 | 0x01, 0, 0))       # global table of 4 entries
    out += bytes([255, 0, 0, 0, 255, 0, 0, 0, 255, 255, 255, 0])
    out += b'\x2c' + struct.pack('<HHHHB', offset[0], offset[1], fw, fh, 0)
    codes = []
    n = fw * fh
    for i in range(n):
        if i % 2 == 0:
            codes.append(4)          # clear
        codes.append((i * 7 + i // 3) % 4)
    codes.append(5)                  # end of information
    bits = 0
    nb = 0
    data = bytearray()
    for c in codes:
        bits |= c << nb
        nb += 3
        while nb >= 8:
            data.append(bits & 255)
            bits >>= 8
            nb -= 8
    if nb:
        data.append(bits & 255)
    out.append(2)                    # LZW minimum code size
    for i in range(0, len(data), 255):
        chunk = data[i:i + 255]
        out.append(len(chunk))
        out += chunk
    out += b'\x00\x3b'
    return bytes(out)


def make_png(declared, actual, color_type=6):
    """a PNG whose IHDR declares `declared` while the IDAT stream holds `actual` rows x columns of RGBA"""
    import struct
    import zlib

    def chunk(t, d):
        return struct.pack('>I', len(d)) + t + d + struct.pack('>I', zlib.crc32(t + d) & 0xffffffff)
    aw, ah = actual
    raw = b''.join(b'\x00' + bytes([(x * 40) % 256, (y * 60) % 256, 128, 255] * 1)[:4] * aw for y in range(ah) for x in [0])
    return (b'\x89PNG\r\n\x1a\n' + chunk(b'IHDR', struct.pack('>IIBBBBB', declared[0], declared[1], 8, color_type, 0, 0, 0))
            + chunk(b'IDAT', zlib.compress(raw)) + chunk(b'IEND', b''))


def raster_header_cases(rng):
    """documents with crafted raster images whose declared and actual sizes disagree, drawn directly, inside an isolated
    group and inside a pattern; -> (doc, W, H, ts, node_mode)"""
    import base64
    imgs = []
    for screen, frame, off in [((2, 2), (4, 4), (0, 0)), ((4, 4), (2, 2), (0, 0)), ((2, 2), (2, 2), (3, 3)), ((1, 1), (16, 16), (0, 0)), ((8, 8), (8, 8), (0, 0)),
                               ((3, 5), (5, 3), (0, 0)), ((65535, 65535), (2, 2), (0, 0)), ((2, 2), (300, 300), (0, 0)), ((0, 0), (2, 2), (0, 0)), ((4, 4), (4, 4), (65535, 65535)),
                               ((16, 1), (1, 16), (0, 0)), ((2, 2), (1000, 1), (0, 0))]:
        imgs.append(('gif screen %dx%d frame %dx%d at %s' % (screen + frame + (off,)), 'image/gif', make_gif(screen, frame, off)))
    for dec, act in [((4, 4), (2, 2)), ((2, 2), (4, 4)), ((65535, 65535), (1, 1)), ((4, 4), (4, 4)), ((1, 30000), (1, 2)), ((0, 4), (4, 4)), ((20000, 20000), (2, 2))]:
        imgs.append(('png declared %dx%d data %dx%d' % (dec + act), 'image/png', make_png(dec, act)))
    out = []
    for name, mime, data in imgs:
        href = 'data:%s;base64,%s' % (mime, base64.b64encode(data).decode())
        im = '<image id="im" x="1" y="1" width="12" height="12" xlink:href="%s"/>' % href
        for k, body in enumerate([im, '<g opacity="0.7" id="g">%s</g>' % im,
                                  '<pattern id="p" width="8" height="8" patternUnits="userSpaceOnUse">%s</pattern><rect id="r" width="16" height="16" fill="url(#p)"/>' % im]):
            doc = '<svg %s width="16" height="16">%s</svg>' % (rc.NS, body)
            out.append((name, doc, 16, 16, (1, 0, 0, 1, 0, 0), k == 0))
    return out


def mask_layer_doc(rng):
    """content that needs its own layer (opacity / clip-path / mask / filter / blend) inside mask, clip-path, pattern or
    feImage content whose own region is huge: the nested layer must still be limited by the canvas"""
    W, H = rng.choice([(20, 20), (1, 7), (16, 16), (8, 8), (40, 12)])
    big = rng.choice([2000, 20000, 200000])
    need = rng.choice(['opacity="0.5"', 'style="isolation:isolate"', 'style="mix-blend-mode:multiply"', 'filter="url(#blur)"', 'clip-path="url(#cp)"', 'mask="url(#m2)"'])
    content = '<g %s><rect x="%d" y="%d" width="%d" height="%d" fill="white"/><circle cx="5" cy="5" r="%d" fill="#ccc"/></g>' % (need, -big, -big, 2 * big, 2 * big, big // 3)
    defs = ('<filter id="blur" filterUnits="userSpaceOnUse" x="-10" y="-10" width="60" height="60"><feGaussianBlur stdDeviation="1"/></filter>'
            '<clipPath id="cp"><rect x="%d" y="%d" width="%d" height="%d"/></clipPath>'
            '<mask id="m2" maskUnits="userSpaceOnUse" x="%d" y="%d" width="%d" height="%d"><rect x="%d" y="%d" width="%d" height="%d" fill="white"/></mask>'
            % (-big, -big, 2 * big, 2 * big, -big, -big, 2 * big, 2 * big, -big, -big, 2 * big, 2 * big))
    host = rng.below(3)
    scale = rng.choice([1, 1, 30])
    if host == 0:
        defs += '<mask id="m" maskUnits="userSpaceOnUse" x="%d" y="%d" width="%d" height="%d">%s</mask>' % (-big, -big, 2 * big, 2 * big, content)
        use = '<rect width="%d" height="%d" fill="#2a2" mask="url(#m)"/>' % (W, H)
    elif host == 1:
        defs += '<mask id="m" maskUnits="objectBoundingBox" x="-50" y="-50" width="100" height="100">%s</mask>' % content
        use = '<g mask="url(#m)"><rect width="%d" height="%d" fill="#22d"/></g>' % (W, H)
    else:
        defs += '<pattern id="pt" patternUnits="userSpaceOnUse" width="%d" height="%d">%s</pattern>' % (W, H, content)
        use = '<rect width="%d" height="%d" fill="url(#pt)"/>' % (W, H)
    doc = '<svg %s width="%d" height="%d">%s%s</svg>' % (rc.NS, W, H, defs, use)
    return doc, W, H, (scale, 0, 0, scale, 0, 0)


def gen_mutant(rng, path):
    try:
        src = open(path, encoding='utf-8').read()
    except (OSError, UnicodeDecodeError):
        return None
    sites = []
    for m in re.finditer(r"<(fe\w+|filter|pattern)\b[^>]*>", src):
        tag = m.group(0)
        for a in re.finditer(r"\s(%s)=\"([^\"]*)\"" % '|'.join(MUT_ATTRS), tag):
            sites.append((m.start() + a.start(2), m.start() + a.end(2)))
    if not sites:
        return None
    a, b = rng.choice(sites)
    v = rng.choice(MUT_VALUES)
    if rng.below(4) == 0:
        v = v + ' ' + rng.choice(MUT_VALUES)
    return src[:a] + v + src[b:]


EXT4_THEOREMS = ['C02_clip_mask_buffers', 'C02_pattern_tile_follows_document', 'C02_filter_results_sized_by_region',
                 'C02_alloc_sites_classified', 'C02_sites_discharged', 'C02_subregion_clip_total',
                 'C02_box_blur_line_covered', 'C02_convolve_wrap_terminates', 'C02_iir_loops', 'C02_turbulence_octaves_follow_document',
                 # second pass
                 'C02_lighting_indices_in_range', 'C02_image_index_in_range', 'C02_displacement_indices_in_range', 'C02_transfer_indices_in_range',
                 'C02_box_gauss_sizes_bounded', 'C02_f32_bound_limits', 'C02_nested_layers_bounded', 'C02_live_layers_linear',
                 'C02_nested_image_layers_bounded', 'C02_image_nesting_depth']


def ledger_counts():
    """how the entries of Proofs/C02Ledger.v are discharged (proved / computed / reviewed = argued, NOT proved / known class)"""
    try:
        src = open(os.path.join(vlib.COQ, 'Proofs', 'C02Ledger.v'), encoding='utf-8').read()
    except OSError:
        return {}
    out = {}
    for key, pat in (('panic_proved', r'^\s*\(mk_psite .*, PProved '), ('panic_computed', r'^\s*\(mk_psite .*, PConst '),
                     ('panic_reviewed', r'^\s*\(mk_psite .*, PReviewed '), ('panic_known_class', r'^\s*\(mk_psite .*, PKnown '),
                     ('index_fns_proved', r'%nat\), IProved '), ('index_fns_reviewed', r'%nat\), IReviewed '),
                     ('alloc_known_class', r'^\s*\(mk_asite .*, AKnown '), ('alloc_bounded', r'^\s*\(mk_asite .*, A(?!Known)')):
        out[key] = len(re.findall(pat, src, re.M))
    out['index_sites_proved'] = sum(int(n) for n in re.findall(r'(\d+)%nat\), IProved ', src))
    out['index_sites_reviewed'] = sum(int(n) for n in re.findall(r'(\d+)%nat\), IReviewed ', src))
    return out


def live_docs():
    """documents whose number of simultaneously live layer-sized buffers is n: nested isolated groups / chained filter primitives"""
    out = []
    for d in (1, 4, 16, 40):
        body = '<rect x="-1000" y="-1000" width="3000" height="3000" fill="green"/>'
        for _ in range(d):
            body = '<g opacity="0.9">%s<rect width="3" height="3"/></g>' % body
        out.append(('nested-groups', d, '<svg %s width="64" height="64">%s</svg>' % (rc.NS, body)))
    for n in (1, 8, 32):
        prims = ''.join('<feOffset dx="1" result="r%d"/>' % i for i in range(n))
        out.append(('filter-primitives', n, '<svg %s width="64" height="64"><filter id="f" filterUnits="userSpaceOnUse" x="0" y="0" width="64" height="64">%s</filter>'
                    '<rect width="64" height="64" fill="green" filter="url(#f)"/></svg>' % (rc.NS, prims)))
    return out
def failing_lemmas(res):
    """names of the lemmas / theorems the Coq errors of a failed build fall into (file, line -> enclosing statement)"""
    out = []
    for m in re.finditer(r'File "\./((?:Proofs|Props|Model|Gen)/[\w.]+\.v)", line (\d+)', res.get('log', '')):
        try:
            lines = open(os.path.join(vlib.COQ, m.group(1)), encoding='utf-8').read().split('\n')
        except OSError:
            continue
        name = None
        for ln in lines[:int(m.group(2))]:
            mm = re.match(r"\s*(?:Theorem|Lemma|Example|Definition|Fixpoint)\s+([\w']+)", ln)
            if mm:
                name = mm.group(1)
        tag = "%s:%s" % (m.group(1), name)
        if name and tag not in out:
            out.append(tag)
    return out


def run(ctx):
    global K2
    os.environ['RUST_BACKTRACE'] = '0'     # keep the abort reason in the last stderr lines the batch driver reports
    rng = ctx.rng
    quick = ctx.tier == 'quick'
    ctx.cov['trusted_base'] = vlib.BASE_TRUSTED + [
        "tiny-skia (rasteriser, stroker, pipeline, Pixmap::new), image decoders, text layout: unmodelled; exercised by the sweep only",
        "clip / mask / nested-image buffers, pattern tile size, filter result sizes, the box / IIR blur, convolve-wrap, octave loop bounds: "
        "source-derived (tools/gen_c02.py) and proved / refuted in Coq; the arithmetic inside the kernels, lighting, displacement map, "
        "component transfer: not modelled, observed by the kernel grid and the counting allocator sweep",
        "Proofs/C02Ledger.v: PReviewed / index_ledger entries are read and argued, not proved",
        "the harness' counting global allocator (harness/src/c02.rs) and its 3 GiB single-allocation cap",
    ]
    ctx.assumptions = [
        "canvas sizes up to 2^28 (C02_canvas_in_max_bbox); sweep canvases 1x1 .. 512x512",
        "C02_filter_images_same_size: single filter whose device region lies inside max_bbox (otherwise C02_filter_images_same_size_refuted, class filter-size-assert)",
        "allocation bound: largest single allocation <= 2 * k^2 * W*H*4 + 6 MiB; time bound %d ms per render (release)" % LIMIT_MS,
    ]
    broken = ctx.translate()
    try:
        v = eval(ctx.status['consts']['max_bbox']['value'])
        K2 = int(v[2]) * int(v[3])
    except Exception:
        pass
    res = ctx.coq_props()
    proof_ok = res['ok'] and not broken
    cres = res      # `res` is reused by the kernel stages below
    missing = [t for t in EXT4_THEOREMS if t not in res.get('theorems', [])]
    if missing and res['ok']:
        ctx.violation("Props/C02.v no longer states %s" % missing, dict(missing=missing), found_input=False)
    ctx.cov['failing_lemmas'] = failing_lemmas(res) if not res['ok'] else []
    ctx.coq_build(['Model/Corr.v', 'Model/Render.v'])
    binp, blog = ctx.harness('release')
    if binp is None:
        ctx.violation("harness does not build against the current tree", dict(build_log=blog[-2000:]), found_input=False)
        return
    files = vlib.corpus_files()

    # ------------------------------------------------------------------ K: fit-to-rect (exhaustive small grid + i32 extremes)
    cases = []
    for x in (-3, 0, 2):
        for w in (1, 2, 5):
            for y in (-1, 1):
                for h in (1, 3):
                    for X in (-2, 0, 3):
                        for W_ in (1, 4):
                            cases.append((x, y, w, h, X, 0, W_, 2))
    ext = [-2147483648, -2147483647, -1, 0, 1, 2147483646, 2147483647]
    for _ in range(300 if quick else 3000):
        def r():
            x = rng.choice(ext + [rng.below(2000) - 1000])
            w = rng.choice([1, 2, 2147483647, rng.below(3000) + 1])
            return x, w
        (x, w), (y, h), (X, W_), (Y, H_) = r(), r(), r(), r()
        cases.append((x, y, w, h, X, Y, W_, H_))
    outs = ctx.rvh_batch(binp, 'c02-fit', ["%d %d %d %d %d %d %d %d" % c for c in cases])
    items = []
    kept = []
    for c, o in zip(cases, outs):
        if o is None or o == 'invalid' or o.startswith('{'):
            continue
        exp = 'None' if o == 'none' else 'Some (mk_irect (%s) (%s) (%s) (%s))' % tuple(o.split(','))
        items.append("((mk_irect (%d) (%d) (%d) (%d)), (mk_irect (%d) (%d) (%d) (%d)), %s)" % (c + (exp,)))
        kept.append((c, o))
    body = ("Definition cases : list (irect * irect * option irect) := [\n%s\n].\n"
            "Eval vm_compute in (bad_indices (fun c => let '(a, b, r) := c in opt_eqb irect_eqb (fit_to_rect a b) r) cases).\n"
            % ";\n".join(items))
    rcode, out = ctx.coq_eval('k_fit', body, rc.COQ_IMPORTS, timeout=300)
    badl = ctx.parse_N_list(out) if rcode == 0 else None
    if badl is None:
        ctx.violation("fit-to-rect: the source-derived fit_to_rect could not be evaluated", dict(log=out[-1500:]), found_input=False)
    else:
        for b in badl[:3]:
            c, o = kept[b]
            ctx.violation("fit-to-rect: geom::fit_to_rect(%s, %s) = %s differs from the source-derived Coq definition" % (c[:4], c[4:], o),
                          dict(op='c02-fit', rects=list(c), implementation=o))
    ctx.cov['fit_cases'] = len(kept)
    for c, _ in kept:
        ctx.note_case("fit/%s" % (c,))

    # ------------------------------------------------------------------ K: morphology kernel (window capped by the image)
    ctx.coq_build(['Model/Morph.v'])
    mcases = []
    for _ in range(60 if quick else 400):
        w, h = rng.below(7) + 1, rng.below(7) + 1
        rx = rng.choice([0.3, 1, 2.5, float(w), 100, 1e9, 3e9, 1e30])
        ry = rng.choice([0.3, 1, 2.5, float(h), 100, 1e9, 3e9, 1e30])
        vals = [rng.below(256) if rng.below(3) else 0 for _ in range(4 * w * h)]
        mcases.append((rng.choice(['erode', 'dilate']), rx, ry, w, h, vals))
    outs = ctx.rvh_batch(binp, 'c02-morph', ["%s %r %r %d %d %s" % (o, rx, ry, w, h, ' '.join(map(str, v))) for o, rx, ry, w, h, v in mcases],
                         chunk=4)
    items = []
    idx = []
    nk_bad = 0
    for k, (c, o) in enumerate(zip(mcases, outs)):
        op, rx, ry, w, h, vals = c
        if o is None or o.startswith('{') or ';' not in o:
            nk_bad += 1
            if nk_bad > 3:
                continue
            ctx.violation("morphology kernel: resvg::filter::morphology::apply(%s, rx=%r, ry=%r) on a %dx%d image did not return within 3 s "
                          "or failed (%s): the window is not capped by the image" % (op, rx, ry, w, h, str(o)[:160]),
                          dict(op='c02-morph', operator=op, rx=rx, ry=ry, size=[w, h], data=vals, result=str(o)[:300],
                               doc=morph_doc(8, 8, 1e5, rx)))
            continue
        ms, res = o.split(';', 1)
        res = [int(x) for x in res.split()]
        if int(ms) > 1000:
            ctx.violation("morphology kernel took %s ms on a %dx%d image (rx=%r ry=%r)" % (ms, w, h, rx, ry),
                          dict(op='c02-morph', operator=op, rx=rx, ry=ry, size=[w, h], data=vals))
        for ch in range(4):
            items.append("(%s, %s, %s, (%d)%%Z, (%d)%%Z, [%s], [%s])" % ('true' if op == 'erode' else 'false', vlib.qstr(float(rx)) if rx < 1e20 else "(%d # 1)" % int(rx),
                                                                         vlib.qstr(float(ry)) if ry < 1e20 else "(%d # 1)" % int(ry), w, h,
                                                                         '; '.join(str(v) for v in vals[ch::4]), '; '.join(str(v) for v in res[ch::4])))
            idx.append(k)
    if items:
        body = ("Local Open Scope Z_scope.\nDefinition cases : list (bool * Q * Q * Z * Z * list Z * list Z) := [\n%s\n].\n"
                "Eval vm_compute in (bad_indices chk_morph cases).\n" % ";\n".join(items))
        rcode, out = ctx.coq_eval('k_morph', body, ['Model.Base', 'Model.RenderPrims', 'Model.Corr', 'Gen.LeafMorph', 'Model.Morph'], timeout=300)
        badl = ctx.parse_N_list(out) if rcode == 0 else None
        if badl is None:
            ctx.violation("morphology kernel: the model (source-derived window) could not be evaluated", dict(log=out[-1500:]), found_input=False)
        else:
            for b in badl[:2]:
                op, rx, ry, w, h, vals = mcases[idx[b]]
                ctx.violation("morphology kernel: morphology::apply(%s, rx=%r, ry=%r) on a %dx%d image differs from the model" % (op, rx, ry, w, h),
                              dict(op='c02-morph', operator=op, rx=rx, ry=ry, size=[w, h], data=vals, result=outs[idx[b]]))
        ctx.cov['morph_kernel_cases'] = len(items)
        for c in mcases:
            ctx.note_case("morph/%s" % (c[:5],))

    # ------------------------------------------------------------------ K: every filter kernel on every small image size
    prims = kernel_prims(rng, full=not quick)

    def kernel_grid(kbin, profile, per_size):
        kitems = []
        for (w, h) in KSIZES:
            for pr in (rng.sample(prims, per_size) if per_size else prims):
                kitems.append((w, h, rng.below(1 << 30) + 1, rng.choice([0.02, 0.5, 1, 1, 3]), pr))
        kouts = ctx.rvh_batch(kbin, 'c02-kernel', ["%d\t%d\t%d\t%s\t%s" % it for it in kitems], chunk=40)
        kst = dict(calls=len(kitems), ok=0, skipped=0, failed=0, kinds={}, max_ms=0)
        seen_at = set()
        for it, o in zip(kitems, kouts):
            try:
                r = json.loads(o)
            except (TypeError, ValueError):
                r = {'error': str(o)[:100]}
            if 'skip' in r:
                kst['skipped'] += 1
                continue
            if r.get('ok'):
                kst['ok'] += 1
                kst['kinds'][r['kind']] = kst['kinds'].get(r['kind'], 0) + 1
                kst['max_ms'] = max(kst['max_ms'], r['ms'])
                ctx.note_case("kernel/%s/%dx%d/%s/%s" % (profile, it[0], it[1], it[3], it[4][:120]))
                if r['ms'] > (1500 if profile == 'release' else 2500) or r['len'] != it[0] * it[1] or (r['kind'] in ('arithmetic', 'morphology') and r['bad_alpha'] > 0):
                    kst['failed'] += 1
                    if kst['failed'] <= 3:
                        ctx.violation("filter kernel %s on a %dx%d image (%s profile): %s" % (r['kind'], it[0], it[1], profile, json.dumps(r)),
                                      dict(op='c02-kernel', profile=profile, size=[it[0], it[1]], seed=it[2], scale=it[3], primitive=it[4], result=r,
                                           doc=kernel_doc(it[4], it[0], it[1])))
                continue
            kst['failed'] += 1
            key = str(r.get('at')) + str(r.get('panic'))[:40]      # one report per panic site
            if key in seen_at or len(seen_at) >= 4:
                continue
            seen_at.add(key)
            what = ("panicked: %s at %s" % (r.get('panic'), r.get('at'))) if 'panic' in r else ("did not return: %s" % str(r)[:200])
            ctx.violation("filter kernel call on a %dx%d image (%s profile) %s  [%s]" % (it[0], it[1], profile, what, it[4][:200]),
                          dict(op='c02-kernel', profile=profile, size=[it[0], it[1]], seed=it[2], scale=it[3], primitive=it[4], result=r,
                               doc=kernel_doc(it[4], it[0], it[1]),
                               replay="rvh c02-kernel (harness/target/%s), payload '<w>\\t<h>\\t<seed>\\t<scale>\\t<primitive xml>'" % profile))
        return kst
    dbin, dlog = ctx.harness('debug')
    kst = kernel_grid(binp, 'release', 48 if quick else 0)
    ctx.cov['kernel_grid'] = kst
    ctx.log("kernel grid (release): %s" % kst)
    if dbin is not None:
        kst = kernel_grid(dbin, 'debug', 40 if quick else 160)
        ctx.cov['kernel_grid_debug'] = kst
        ctx.log("kernel grid (debug): %s" % kst)

    # ------------------------------------------------------------------ K: feTurbulence integer arithmetic (source-derived steps) on edge inputs
    ctx.coq_build(['Model/Turb.v'])
    seeds = [-2147483648, -2147483647, -2147483646, -1073741824, -2, -1, 0] + [-(rng.below(1 << 31)) for _ in range(20)]
    st_cases = [(n, w, x, 1, 4097) for n in (1, 8, 20, 31, 32, 40, 64) for (w, x) in ((1, 4097), (3, 5000), (1000000, 4096 + 1000000), (0, 4096))]
    body = ("Local Open Scope Z_scope.\nDefinition seeds : list Z := [%s].\nDefinition st : list (Z * Z * Z * Z * Z) := [%s].\n"
            "Eval vm_compute in (bad_indices chk_turb_seed seeds).\n"
            "Eval vm_compute in (bad_indices (fun c => let '(n, w, x, h, y) := c in chk_turb_stitch n w x h y) st).\n"
            % ("; ".join("(%d)" % v for v in seeds), "; ".join("((%d), (%d), (%d), (%d), (%d))" % c for c in st_cases)))
    rcode, out = ctx.coq_eval('k_turb', body, ['Model.Base', 'Model.RenderPrims', 'Model.Corr', 'Gen.LeafTurb', 'Model.Turb'], timeout=300)
    lists = re.findall(r"=\s*\[(.*?)\]\s*:\s*list", out, re.S) if rcode == 0 else []
    if len(lists) != 2:
        ctx.violation("turbulence arithmetic: the source-derived step lists could not be evaluated", dict(log=out[-1500:]), found_input=False)
    else:
        def idx(b):
            b = b.strip()
            return [int(re.sub(r"%\w+", "", x).strip().strip('()')) for x in b.split(';')] if b else []
        for i in idx(lists[0])[:1]:
            doc = ('<svg %s width="20" height="20"><filter id="f"><feTurbulence baseFrequency="0.05" seed="%d"/></filter><rect width="20" height="20" filter="url(#f)"/></svg>'
                   % (rc.NS, seeds[i]))
            o = ctx.rvh_batch(dbin or binp, 'c02-render', ["-\t%s\t20\t20\t1,0,0,1,0,0\tlimit=20000" % doc], chunk=1)[0]
            ctx.violation("feTurbulence seed=%d: the seed normalisation of turbulence::init leaves the i32 range (source-derived steps; %d of %d edge seeds); "
                          "debug render: %s" % (seeds[i], len(idx(lists[0])), len(seeds), str(o)[:160]),
                          dict(op='c02-render', profile='debug', doc=doc, canvas=[20, 20], root_transform=[1, 0, 0, 1, 0, 0], theorem='C02_turbulence_seed_in_range'))
        for i in sorted(idx(lists[1]), key=lambda j: (st_cases[j][1], st_cases[j][0]))[:1]:
            n = st_cases[i][0]
            doc = ('<svg %s width="20" height="20"><filter id="f"><feTurbulence baseFrequency="0.05" numOctaves="%d" stitchTiles="stitch"/></filter>'
                   '<rect width="20" height="20" filter="url(#f)"/></svg>' % (rc.NS, n))
            o = ctx.rvh_batch(dbin or binp, 'c02-render', ["-\t%s\t20\t20\t1,0,0,1,0,0\tlimit=20000" % doc], chunk=1)[0]
            ctx.violation("feTurbulence numOctaves=%d stitchTiles=stitch: the per-octave stitch update leaves the i32 range (source-derived steps, "
                          "start width=%d wrap=%d); debug render: %s" % (n, st_cases[i][1], st_cases[i][2], str(o)[:160]),
                          dict(op='c02-render', profile='debug', doc=doc, canvas=[20, 20], root_transform=[1, 0, 0, 1, 0, 0], theorem='C02_turbulence_stitch_in_range'))
    ctx.cov['turbulence_arith_cases'] = len(seeds) + len(st_cases)

    # ------------------------------------------------------------------ K: layer-trace
    jobs = rc.trace_jobs_corpus(ctx, rng.sample(files, 350 if quick else len(files)), 2 if quick else 4)
    jobs += rc.trace_jobs_generated(ctx, 300 if quick else 3000)
    tr = rc.layer_trace_correspondence(ctx, binp, jobs, label='layer-trace-c02')
    rc.report_trace(ctx, tr, "layer-trace")
    ctx.cov['correspondence_cases'] = tr['distinct'] + len(kept)
    ctx.cov['trace'] = dict(renders=len(jobs), layer_events=tr['events'], distinct=tr['distinct'], clamped=tr['clamped'], with_filters=tr['filtered'])
    ctx.log("layer-trace: %d renders, %d distinct layer events (%d clamped, %d filtered), %d disagreements; %d renders panicked"
            % (len(jobs), tr['distinct'], tr['clamped'], tr['filtered'], len(tr['bad']), len(tr['panics'])))
    for (doc, W, H, t), r in tr['panics'][:40]:
        judge(ctx, binp, (doc, W, H, t), r, dict(panics=0, skipped=0, ok=0, max_ms=0, ratio=0, cls_pattern=0, cls_morph=0, cls_filter=0),
              "layer-trace render", 'release')

    # ------------------------------------------------------------------ S: regression inputs of fixed defects + witnesses of known ones
    wdir = os.path.join(vlib.VERIF, 'corpus', 'witness')
    fixed = ['F06.svg', 'morph-radius.svg', 'offset-huge.svg', 'region-overflow.svg', 'turbulence-frequency.svg',
             'arith-k-overflow.svg', 'arith-k-huge-finite.svg', 'blur-sigma-huge.svg', 'turbulence-frequency-nonfinite.svg',
             'f32bound-convolve-bias.svg', 'f32bound-colormatrix.svg', 'f32bound-transfer-table.svg', 'f32bound-lighting.svg',
             'turbulence-seed-min.svg', 'turbulence-stitch-octaves.svg', 'C02-subregion-translate.svg']
    items = [('@' + os.path.join(wdir, f), 100, 100, (1, 0, 0, 1, 0, 0)) for f in fixed if os.path.exists(os.path.join(wdir, f))]
    dbin, dlog = ctx.harness('debug')
    for prof, b in (('release', binp), ('debug', dbin)):
        if b is None:
            ctx.violation("debug harness does not build", dict(build_log=dlog[-1500:]), found_input=False)
            continue
        payloads = ["-\t%s\t%d\t%d\t%s\tlimit=20000" % (d, W, H, rc.ts_str(t)) for d, W, H, t in items]
        for it, o in zip(items, ctx.rvh_batch(b, 'c02-render', payloads, chunk=1)):
            try:
                r = json.loads(o)
            except (TypeError, ValueError):
                r = {}
            if 'ok' not in r:
                ctx.violation("regression: a fixed C02 defect is back (%s, %s profile): %s" % (os.path.basename(it[0]), prof, str(r)[:200]),
                              dict(op='c02-render', profile=prof, doc=it[0], canvas=[100, 100], root_transform=[1, 0, 0, 1, 0, 0], result=r))
    WIT = {
        'F5 pattern tile': '<svg %s width="100" height="100"><pattern id="p" patternUnits="userSpaceOnUse" width="100000" height="100000"><rect width="5" height="5"/></pattern><rect width="100" height="100" fill="url(#p)"/></svg>',
        'F4 clamped region': '<svg %s width="100" height="100"><filter id="f" filterUnits="userSpaceOnUse" x="-1000" y="-1000" width="3000" height="3000"><feComposite operator="arithmetic" in2="SourceGraphic" k2="0.5" k3="0.5"/></filter><rect width="50" height="50" fill="green" filter="url(#f)"/></svg>',
        'turbulence octaves': '<svg %s width="100" height="100"><filter id="f"><feTurbulence baseFrequency="0.05" numOctaves="100000000"/></filter><rect width="50" height="50" fill="green" filter="url(#f)"/></svg>',
    }
    wit_items = [(d % rc.NS, 100, 100, (1, 0, 0, 1, 0, 0)) for d in WIT.values()]
    st = run_renders(ctx, binp, wit_items, "witness", 'release')
    ctx.cov['witnesses_release'] = st
    if dbin is not None:
        st = run_renders(ctx, dbin, wit_items[1:], "witness", 'debug')
        ctx.cov['witnesses_debug'] = st

    # ------------------------------------------------------------------ S: memory alive at the same time (C02_live_layers_linear)
    # C02 is a per-surface property: the TOTAL of live surfaces follows the nesting depth / primitive count and is outside the property
    # (recorded remark in the as-built note).  This stage validates the proved linear bound n * k^2 * W*H on the real code; a total that
    # respects it is never a violation.
    ctx.cov['ledger'] = ledger_counts()
    live = []
    ld = live_docs()
    for (kind, n, doc), o in zip(ld, ctx.rvh_batch(binp, 'c02-render', ["-\t%s\t64\t64\t1,0,0,1,0,0\tlimit=%d" % (d, LIMIT_MS) for _, _, d in ld], chunk=4)):
        try:
            r = json.loads(o)
        except (TypeError, ValueError):
            r = {}
        ctx.note_case("live/%s/%d" % (kind, n), nontrivial=True)
        bound = (n + 3) * K2 * 64 * 64 * 4 + (6 << 20)
        live.append(dict(kind=kind, n=n, peak=r.get('peak'), largest=r.get('largest'), bound=bound))
        if 'ok' not in r or r['peak'] > bound or r['largest'] > alloc_bound(64, 64):
            ctx.violation("live memory: %d %s on a 64x64 canvas: peak %s bytes, largest %s (linear bound (n + 3) * k^2 * W*H*4 + 6 MiB = %d): %s"
                          % (n, kind, r.get('peak'), r.get('largest'), bound, str(r)[:160]),
                          dict(op='c02-render', profile='release', doc=doc, canvas=[64, 64], root_transform=[1, 0, 0, 1, 0, 0], result=r,
                               theorem='C02_live_layers_linear'))
    ctx.cov['live_memory'] = live
    ctx.log("live memory (peak bytes by number of simultaneously live buffers): %s" % [(e['kind'], e['n'], e['peak']) for e in live])

    # ------------------------------------------------------------------ S: the sweep
    stats = {}

    def sweep_items(fs, per):
        out = []
        for f in fs:
            combos = [(c, n) for c in CANVASES for n in ('identity', 'frac-shift', 'scale0.01', 'scale50', 'rotate', 'skew', 'near-singular')]
            for (W, H), n in rng.sample(combos, per):
                out.append(('@' + f, W, H, transforms(W, H)[n]))
        return out
    items = sweep_items(files if not quick else rng.sample(files, 1200), 2 if quick else 14)
    st = run_renders(ctx, binp, items, "e2e-C02 sweep", 'release')
    stats['sweep_release'] = st
    ctx.log("e2e-C02 sweep (release): %s" % st)
    if dbin is not None and len(ctx.violations) < 6:
        items = sweep_items(rng.sample(files, 170 if quick else 600), 1 if quick else 3)
        st = run_renders(ctx, dbin, items, "e2e-C02 sweep", 'debug')
        stats['sweep_debug'] = st
        ctx.log("e2e-C02 sweep (debug): %s" % st)
    # node export of nodes with an id
    items = [('@' + f, 64, 64, (1, 0, 0, 1, 0, 0)) for f in rng.sample(files, 250 if quick else len(files))]
    st = run_renders(ctx, binp, items, "e2e-C02 render_node", 'release', extra='\tnode')
    stats['render_node'] = st
    ctx.log("e2e-C02 render_node: %s" % st)
    # mutants
    cand = [f for f in files if '/filters/' in f or 'pattern' in f]
    muts = []
    for _ in range(250 if quick else 2500):
        m = gen_mutant(rng, rng.choice(cand))
        if m is not None:
            W, H = rng.choice(CANVASES[2:])
            muts.append((m.replace('\n', ' ').replace('\t', ' '), W, H, transforms(W, H)[rng.choice(['identity', 'frac-shift', 'rotate'])]))
    st = run_renders(ctx, binp, muts, "e2e-C02 mutants", 'release')
    stats['mutants_release'] = st
    ctx.log("e2e-C02 mutants (release): %s" % st)
    if dbin is not None and len(ctx.violations) < 6:
        st = run_renders(ctx, dbin, muts[:60 if quick else 600], "e2e-C02 mutants", 'debug')
        stats['mutants_debug'] = st
        ctx.log("e2e-C02 mutants (debug): %s" % st)
    # feMorphology with huge radii and filter regions / input sub-regions far larger than the clamp box on small
    # canvases: at HEAD the kernel works on the (clamped) layer and caps its window by it, so these are fast
    mitems = []
    for _ in range(160 if quick else 1600):
        W, H = rng.choice([(8, 8), (16, 12), (24, 24), (12, 30), (8, 8)])
        mitems.append((morph_doc(W, H, rng.choice([200, 1e3, 1e4, 1e5, 1e6]), rng.choice([3, 50, 1e3, 1e6, 1e9]), rng.below(4)),
                       W, H, transforms(W, H)[rng.choice(['identity', 'frac-shift', 'rotate'])]))
    pay = ["-\t%s\t%d\t%d\t%s" % (d, W, H, rc.ts_str(t)) for d, W, H, t in mitems]
    routs = ctx.rvh_batch(binp, 'c02-render', [p + "\tlimit=%d" % LIMIT_MS for p in pay], per_item_timeout=40, chunk=8)
    couts = ctx.rvh_batch(binp, 'c02-classify', pay)
    st = dict(renders=len(mitems), ok=0, panics=0, skipped=0, max_ms=0, ratio=0.0, cls_pattern=0, cls_morph=0, cls_filter=0, over_model=0)
    nb = 0
    for it, ro, co in zip(mitems, routs, couts):
        try:
            r = json.loads(ro)
            cls = json.loads(co)
        except (TypeError, ValueError):
            r, cls = {'error': str(ro)[:100]}, {}
        ctx.note_case("morph-doc/%s/%d/%d/%s" % (it[0][:300], it[1], it[2], rc.ts_str(it[3])))
        if 'ok' in r:
            # modelled work of HEAD's kernel: layer area x window capped by the layer (c02-classify morph_cost, the
            # harness-side evaluation of Model.Morph.morph_ops on the clamped layer); measured throughput 3e5 window
            # cells per ms in release, so 1500 ms + cost / 1e4 leaves a factor 30 and room for a loaded machine (767 ms seen for 2.6e6 cells under a parallel build)
            bound = 1500 + cls.get('morph_cost', 0) / 1e4
            if r['ms'] > bound and nb < 4:
                nb += 1
                st['over_model'] += 1
                ctx.violation("e2e-C02 morphology: render took %d ms, the modelled kernel work (%.3g window cells: layer area x window "
                              "capped by the layer) allows %d ms [canvas %dx%d]" % (r['ms'], cls.get('morph_cost', 0), bound, it[1], it[2]),
                              dict(op='c02-render', profile='release', doc=it[0], canvas=[it[1], it[2]], root_transform=list(it[3]),
                                   result=r, class_predicates=cls))
                continue
        if nb < 4 and not judge(ctx, binp, it, r, st, "e2e-C02 morphology", 'release'):
            nb += 1
    st['ratio'] = round(st['ratio'], 3)
    stats['morphology'] = st
    ctx.log("e2e-C02 morphology: %s" % st)
    # every primitive kind on tiny / thin / non-square filter images (thin canvases, thumbnails, non-uniform scales, 1-3 px regions)
    titems = [thin_filter_case(rng) for _ in range(700 if quick else 7000)]
    st = run_renders(ctx, binp, titems, "e2e-C02 thin filters", 'release')
    stats['thin_filters'] = st
    ctx.log("e2e-C02 thin filters (release): %s" % st)
    if dbin is not None and len(ctx.violations) < 6:
        st = run_renders(ctx, dbin, titems[:150 if quick else 1500], "e2e-C02 thin filters", 'debug')
        stats['thin_filters_debug'] = st
        ctx.log("e2e-C02 thin filters (debug): %s" % st)
    # layers needed by content inside mask / pattern content with huge regions (seeded change C02-13)
    mitems2 = [mask_layer_doc(rng) for _ in range(120 if quick else 1200)]
    st = run_renders(ctx, binp, mitems2, "e2e-C02 layers in mask / pattern content", 'release')
    stats['mask_layers'] = st
    ctx.log("e2e-C02 layers in mask / pattern content: %s" % st)
    # crafted raster images whose declared and actual sizes disagree (seeded change C02-14), via render and render_node
    rcases = raster_header_cases(rng)
    for node in (False, True):
        sel = [c for c in rcases if (c[5] or not node)]
        st = run_renders(ctx, binp, [c[1:5] for c in sel], "e2e-C02 crafted raster headers" + (" (render_node)" if node else ""), 'release',
                         extra='\tnode' if node else '')
        stats['raster_headers' + ('_node' if node else '')] = st
        ctx.log("e2e-C02 crafted raster headers%s: %s" % (' (render_node)' if node else '', st))
    # SVG-in-SVG data images 0..4 levels deep inside isolated groups with huge boxes, 8x8 canvas: every level's surfaces
    # are seen by the counting allocator
    nitems = [(nested_image_doc(d, rng), 8, 8, (1, 0, 0, 1, 0, 0)) for d in (0, 1, 1, 2, 2, 2, 3, 3, 3, 4)]
    st = run_renders(ctx, binp, nitems, "e2e-C02 nested images", 'release')
    stats['nested_images'] = st
    ctx.log("e2e-C02 nested images: %s" % st)
    ctx.cov['e2e'] = stats
    ctx.cov['e2e_cases'] = sum(s['renders'] for s in stats.values())
    ctx.add_sample(dict(op='c02-render', doc='@' + files[7], canvas=[64, 64], root_transform=list(transforms(64, 64)['rotate'])))
    if muts:
        ctx.add_sample(dict(op='c02-render', doc=muts[0][0][:600], canvas=[muts[0][1], muts[0][2]]))

    # ------------------------------------------------------------------ proofs broken: search
    if not proof_ok:
        found = bool(ctx.violations)
        if found:
            # the oracles above produced concrete failing inputs: say which obligation they belong to
            first = ctx.violations[0]
            ctx.violation("C02 proof obligations no longer check: %s broken ties %s, failing at %s; concrete failing input: %s"
                          % (cres['failed'] + cres['audit'], [b['name'] for b in broken], ctx.cov.get('failing_lemmas'), first[0][:300]),
                          dict(failed_files=cres['failed'], broken_ties=broken, failing_lemmas=ctx.cov.get('failing_lemmas'),
                               failing_input_replay=first[1], log_tail=cres['log'][-2000:]))
        if not found:
            g = rc.model_search_geometry(ctx, 300 if quick else 3000)
            if g:
                for name, d, cnt in g[:2]:
                    doc = rc.doc_for_bbox(d)
                    W, H = d['canvas']
                    o = ctx.rvh_batch(binp, 'c02-render', ["-\t%s\t%d\t%d\t1,0,0,1,0,0\tlimit=20000" % (doc, W, H)])[0]
                    ctx.violation("model counterexample to %s in the source-derived layer geometry (%d of the sampled boxes fail): %s"
                                  % (name, cnt, json.dumps(d)),
                                  dict(theorem=name, model_input=d, doc=doc, implementation_result=o[:800],
                                       failed_files=cres['failed'], broken_ties=broken))
                found = True
        if not found:
            ctx.violation("C02 proof obligations no longer check: %s %s failing at %s" % (cres['failed'] + cres['audit'], [b['name'] for b in broken],
                                                                                     ctx.cov.get('failing_lemmas')),
                          dict(failed_files=cres['failed'], audit=cres['audit'], broken_ties=broken, failing_lemmas=ctx.cov.get('failing_lemmas'),
                               log_tail=cres['log'][-3000:]),
                          found_input=False)

    ctx.cov['rule'] = ("fit-to-rect: exhaustive small grid + random i32 rectangles incl. extremes; layer-trace: as C14; sweep: corpus files x sampled "
                       "(canvas in 1x1,1x200,3x3,64x64,512x512) x (identity, fractional shift, scale 0.01, scale 50, rotate, skew, near-singular) in "
                       "release, a sample in the debug profile (overflow checks, debug assertions); node export of the first 8 nodes with ids; "
                       "mutants = one numeric filter / pattern attribute of a corpus file replaced by an extreme value.  Oracle: normal return, "
                       "<= %d ms, largest single allocation <= 2*k^2*W*H*4 + 6 MiB (counting allocator).  Non-trivial = something painted or "
                       "a failure; distinct by (profile, document, canvas, transform)." % LIMIT_MS)


def replay(ctx, path):
    os.environ['RUST_BACKTRACE'] = '0'
    r = json.load(open(path))
    rp = r.get('replay', {})
    print(json.dumps({k: v for k, v in r.items() if k != 'replay'}, indent=1))
    if rp.get('op') == 'c02-render':
        prof = rp.get('profile', 'release')
        binp, _ = ctx.harness(prof)
        W, H = rp['canvas']
        doc = rp['doc']
        print("document: " + doc[:3000])
        o = ctx.rvh_batch(binp, 'c02-render', ["-\t%s\t%d\t%d\t%s\tlimit=30000" % (doc.replace('\n', ' '), W, H, rc.ts_str(rp['root_transform']))], chunk=1)[0]
        print("result now (%s profile): %s" % (prof, o))
        print("allocation bound for this canvas: %d bytes" % alloc_bound(W, H))
        print("class predicates: " + json.dumps(classify(ctx, binp, (doc, W, H, rp['root_transform']))))
    elif rp.get('op') == 'c02-fit':
        binp, _ = ctx.harness('release')
        print(ctx.rvh_batch(binp, 'c02-fit', [" ".join(str(v) for v in rp['rects'])])[0])
    else:
        print(json.dumps(rp, indent=1)[:6000])
    return 0
