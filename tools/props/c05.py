"""C05  All references inside a tree are closed, unique and well-founded.

proof:           coq/Props/C05.v over Model/Tree.v, Model/Filters.v, Model/Ids.v + Gen/IdTables.v
correspondence:  collect        real tree dump -> Model/Tree.v term; the model recomputes the six collections and
                                compares them as ptr sequences (inside Coq), plus completeness / no-dup checkers
                 filter-wiring  generated filters with random in/result names vs Model/Filters.v collect_children
                 nbi            Tree::node_by_id vs Model/Tree.v node_by_id on the dumped tree
system oracle:   independent Python walk of every dumped tree (corpus + witnesses + generated reference graphs):
                 collections vs walk, definition ids non-empty, filter inputs name earlier results, kernel shapes,
                 id uniqueness when the source ids are unique, node_by_id returns the first node with the id."""
import json
import os
import re

import vlib
from props import treeref, refgen

COLL = {'lg': 'linear_gradients', 'rg': 'radial_gradients', 'pattern': 'patterns', 'clip': 'clip_paths',
        'mask': 'masks', 'filter': 'filters'}
COLL_NAMES = {1: 'linear_gradients', 2: 'radial_gradients', 3: 'patterns', 4: 'clip_paths', 5: 'masks', 6: 'filters'}
NS = refgen.NS
WITNESS = os.path.join(vlib.VERIF, 'corpus', 'witness')
PRELUDE = "From Coq Require Import NArith ZArith List Bool.\nImport ListNotations.\nLocal Open Scope N_scope.\n"


def jload(o):
    try:
        return json.loads(o)
    except (TypeError, ValueError):
        return {'error': 'unparsable harness output: %r' % (o[:200] if isinstance(o, str) else o)}


# ------------------------------------------------------------------------------------------------
# system oracle on one dumped tree
# ------------------------------------------------------------------------------------------------
def prim_shape_problems(f):
    bad = []
    res = []
    for i, p in enumerate(f['primitives']):
        k = p['kind']
        for inp in treeref.prim_inputs(k):
            if isinstance(inp, dict) and inp['ref'] not in res:
                bad.append("filter '%s' primitive %d input references '%s' which is not the result of an earlier primitive"
                           % (f['id'], i, inp['ref']))
        res.append(p['result'])
        if k['k'] == 'ConvolveMatrix':
            if len(k['data']) != k['cols'] * k['rows'] or not (k['target_x'] < k['cols']) or not (k['target_y'] < k['rows']) \
                    or k['cols'] < 1 or k['rows'] < 1:
                bad.append("filter '%s' primitive %d: kernel %dx%d with %d values, target (%d,%d)"
                           % (f['id'], i, k['cols'], k['rows'], len(k['data']), k['target_x'], k['target_y']))
            if k['divisor'] == 0 or not isinstance(k['divisor'], (int, float)):
                bad.append("filter '%s' primitive %d: divisor %r" % (f['id'], i, k['divisor']))
        if k['k'] == 'ColorMatrix' and k['kind']['k'] == 'Matrix' and len(k['kind']['values']) != 20:
            bad.append("filter '%s' primitive %d: colour matrix with %d values" % (f['id'], i, len(k['kind']['values'])))
        if k['k'] == 'SpecularLighting' and not (isinstance(k['specular_exponent'], (int, float)) and 1 <= k['specular_exponent'] <= 128):
            bad.append("filter '%s' primitive %d: specular exponent %r" % (f['id'], i, k['specular_exponent']))
    return bad


def oracle_tree(t, doc_ids=None):
    """-> list of (class or None, text).  class None = not a known class."""
    out = []
    w = treeref.Walk(t)
    have = {k: [x['ptr'] for x in t[c]] for k, c in COLL.items()}
    reach = {k: [] for k in COLL}
    for k, ptr, i, ctx, via in w.defs:
        if k == 'textpath':
            continue
        if via == 'span':
            if ptr not in have[k]:
                out.append(('text-span-paint', "paint server '%s' of a text span is in no collection" % i))
            continue
        reach[k].append(ptr)
        if ptr not in have[k]:
            out.append((None, "%s '%s' (reached through %s in %s) is missing from Tree::%s" % (k, i, via, '/'.join(ctx), COLL[k])))
        if i == '':
            out.append((None, "%s definition with an empty id" % k))
    for k, c in COLL.items():
        if len(set(have[k])) != len(have[k]):
            out.append((None, "Tree::%s holds the same object twice" % c))
        for x in t[c]:
            if x['ptr'] not in reach[k]:
                out.append((None, "Tree::%s holds '%s' which no node of the tree uses" % (c, x['id'])))
            if x['id'] == '':
                out.append((None, "Tree::%s holds a definition with an empty id" % c))
    seen_f = set()
    for k, ptr, i, ctx, via in w.defs:
        pass
    for f in t['filters']:
        for b in prim_shape_problems(f):
            out.append((None, b))
    # ---- id uniqueness (only when the source document's ids are unique)
    if doc_ids is not None:
        src = [i for _, i in doc_ids if i != '']
        if len(set(src)) == len(src):
            out += id_census(t)
    # nested trees are documents of their own
    for n, ctx in w.nodes:
        if n['t'] == 'image' and n.get('svg'):
            pass
    return out


def id_census(t):
    """duplicate ids among definitions of all collections and renderable nodes of ONE tree (nested image trees excluded)"""
    out = []
    w = treeref.Walk(t, include_nested=False)
    ids = {}
    reach = set()
    for k, ptr, i, ctx, via in w.defs:
        if k != 'textpath' and via != 'span':
            reach.add((k, ptr))
    for k, c in COLL.items():
        for x in t[c]:
            if (k, x['ptr']) in reach:           # definitions of nested image trees belong to those trees
                ids.setdefault(x['id'], []).append(('def', k, None))
    for n, ctx in w.nodes:
        if n['id']:
            ids.setdefault(n['id'], []).append(('node', n['t'], ctx))
    uses = {}
    for k, ptr, i, ctx, via in w.defs:
        uses.setdefault((k, i), []).append(ctx)
    for i, occ in ids.items():
        if len(occ) < 2:
            continue
        kinds = set(o[0] for o in occ)
        cls = None
        if kinds == {'node'}:
            in_root = [o for o in occ if o[2] == ('root',)]
            others = [o for o in occ if o[2] != ('root',)]
            if len(in_root) <= 1 and all(any(s in o[2] for s in ('pattern', 'clip', 'mask', 'feimage')) for o in others):
                cls = 'cloned-content-id'
        elif kinds == {'def'} and set(o[1] for o in occ) == {'clip'} and re.fullmatch(r"cp\d+", i) \
                and all('text' in ctx for ctx in uses.get(('clip', i), [()])):
            cls = 'colr-glyph-clip-id'
        out.append((cls, "id '%s' is carried by %d elements of the tree: %s" % (
            i, len(occ), ', '.join('%s %s%s' % (o[0], o[1], '' if o[2] is None else ' in ' + '/'.join(o[2])) for o in occ[:4]))))
    return out


# ------------------------------------------------------------------------------------------------
# filter wiring cases
# ------------------------------------------------------------------------------------------------
NAMES = ['a', 'b', 'c', 'result1', 'result2', 'result3', 'result4', 'result5', 'result01', 'SourceGraphic', 'SourceAlpha',
         'BackgroundImage', 'BackgroundAlpha', 'FillPaint', 'StrokePaint', 'x y', 'é', 'A', 'result', 'result-2']
KW = {'SourceGraphic': 'InSourceGraphic', 'SourceAlpha': 'InSourceAlpha', 'BackgroundImage': 'InUnsupported',
      'BackgroundAlpha': 'InUnsupported', 'FillPaint': 'InUnsupported', 'StrokePaint': 'InUnsupported'}
PRIMS = [('feOffset', 1), ('feGaussianBlur', 1), ('feBlend', 2), ('feComposite', 2), ('feFlood', 0), ('feTile', 1),
         ('feColorMatrix', 1), ('feTurbulence', 0), ('feMerge', -1), ('feDisplacementMap', 2), ('feMorphology', 1),
         ('feComponentTransfer', 1), ('feDropShadow', 1), ('feConvolveMatrix', 1), ('feDiffuseLighting', 1),
         ('feSpecularLighting', 1)]


def xml_attr(s):
    return s.replace('&', '&amp;').replace('"', '&quot;').replace('<', '&lt;')


def gen_wiring_case(rng):
    n = 1 + rng.below(7)
    kids = []
    for _ in range(n):
        r = rng.below(14)
        if r == 0:
            # a child that collect_children skips; it may carry a `result` (which must NOT become a known name)
            kids.append(dict(tag=rng.choice(['rect', 'g', 'feMergeNode', 'feFuncR', 'feDistantLight', 'fePointLight', 'feSpotLight']), known=False, ok=True, ins=[],
                             result=rng.choice(NAMES[:8] + ['stray']) if rng.below(3) else None))
            continue
        tag, nin = rng.choice(PRIMS)
        ok = rng.below(16) != 0
        if nin == -1:
            ins = [rng.choice(NAMES) if rng.below(4) else None for _ in range(rng.below(4))]
        else:
            ins = [rng.choice(NAMES) if rng.below(3) else None for _ in range(nin)]
        result = rng.choice(NAMES) if rng.below(2) else None
        kids.append(dict(tag=tag, known=True, ok=ok, ins=ins, result=result))
    return kids


def wiring_doc(kids):
    out = []
    for k in kids:
        a = ''
        if not k['ok']:
            a += ' width="0"'
        if k['result'] is not None:
            a += ' result="%s"' % xml_attr(k['result'])
        if not k['known']:
            out.append('<%s%s/>' % (k['tag'], a))
            continue
        inner = ''
        if k['tag'] == 'feMerge':
            inner = ''.join('<feMergeNode%s/>' % ('' if i is None else ' in="%s"' % xml_attr(i)) for i in k['ins'])
        else:
            for nm, v in zip(('in', 'in2'), k['ins']):
                if v is not None:
                    a += ' %s="%s"' % (nm, xml_attr(v))
        if k['tag'] in ('feDiffuseLighting', 'feSpecularLighting'):
            inner = '<feDistantLight azimuth="10" elevation="20"/>'
        if k['tag'] == 'feConvolveMatrix':
            a += ' kernelMatrix="1 0 0 0 1 0 0 0 1"'
        out.append('<%s%s>%s</%s>' % (k['tag'], a, inner, k['tag']))
    return ('<svg %s width="100" height="100"><filter id="f" filterUnits="userSpaceOnUse" x="0" y="0" width="100" height="100">%s</filter>'
            '<rect width="50" height="50" filter="url(#f)"/></svg>' % (NS, ''.join(out)))


def coq_rname(s, it):
    g = treeref.is_gen_result(s)
    if g is not None:
        return '(RGen %d)' % g
    return '(RStr %d)' % it(s)


def coq_wiring_case(kids, it):
    cs = []
    for k in kids:
        ins = []
        for v in k['ins']:
            if v is None:
                ins.append('None')
            elif v in KW:
                ins.append('(Some %s)' % KW[v])
            else:
                ins.append('(Some (InName %s))' % coq_rname(v, it))
        cs.append('{| fc_known := %s; fc_region_ok := %s; fc_ins := [%s]; fc_result := %s |}' % (
            'true' if k['known'] else 'false', 'true' if k['ok'] else 'false', '; '.join(ins),
            'None' if k['result'] is None else '(Some %s)' % coq_rname(k['result'], it)))
    return '[%s]' % '; '.join(cs)


def coq_observed(tree, it):
    if not tree['filters']:
        return '[]'
    ps = []
    for p in tree['filters'][0]['primitives']:
        ins = []
        for i in treeref.prim_inputs(p['kind']):
            if i == 'SourceGraphic':
                ins.append('RSourceGraphic')
            elif i == 'SourceAlpha':
                ins.append('RSourceAlpha')
            else:
                ins.append('(RRef %s)' % coq_rname(i['ref'], it))
        ps.append('{| rp_inputs := [%s]; rp_result := %s |}' % ('; '.join(ins), coq_rname(p['result'], it)))
    return '[%s]' % '; '.join(ps)


WIRING_DEFS = """
Definition rinput_eqb (a b : rinput) : bool :=
  match a, b with
  | RSourceGraphic, RSourceGraphic | RSourceAlpha, RSourceAlpha => true
  | RRef x, RRef y => rname_eqb x y
  | _, _ => false
  end.
Definition rprim_eqb (a b : rprim) : bool :=
  list_eqb rinput_eqb (rp_inputs a) (rp_inputs b) && rname_eqb (rp_result a) (rp_result b).
Definition wiring_ok (c : list fe_child * list rprim) : bool :=
  match collect_children (fst c) with
  | Some out => list_eqb rprim_eqb out (snd c) && wired (snd c)
  | None => false
  end.
"""


# ------------------------------------------------------------------------------------------------
# feConvolveMatrix shape cases
# ------------------------------------------------------------------------------------------------
def gen_kernel_case(rng):
    def num():
        return rng.choice([1, 2, 3, 3, 4, 5, 0, -1, 2.7, 7])
    order = None
    r = rng.below(4)
    if r == 1:
        order = (num(), None)
    elif r >= 2:
        order = (num(), num())
    ox, oy = 3, 3
    if order is not None:
        x = int(order[0])
        y = int(order[1]) if order[1] is not None else x
        if x > 0 and y > 0:
            ox, oy = x, y
    r = rng.below(6)
    mlen = None if r == 0 else (ox * oy if r < 4 else rng.choice([0, 1, ox * oy + 1, 9, 4]))
    div = rng.choice([None, None, 1, 2.5, 0, -3])
    tx = rng.choice([None, None, 0, 1, ox - 1, ox, -1, 100, 1.9])
    ty = rng.choice([None, None, 0, 1, oy - 1, oy, -1])
    return dict(order=order, mlen=mlen, div=div, tx=tx, ty=ty)


def kernel_doc(c):
    a = ''
    if c['order'] is not None:
        a += ' order="%s"' % ' '.join(str(v) for v in c['order'] if v is not None)
    if c['mlen'] is not None:
        # entries sum to a non-zero value so that the implicit divisor is not replaced
        a += ' kernelMatrix="%s"' % ' '.join(['1'] * c['mlen'])
    if c['div'] is not None:
        a += ' divisor="%s"' % c['div']
    if c['tx'] is not None:
        a += ' targetX="%s"' % c['tx']
    if c['ty'] is not None:
        a += ' targetY="%s"' % c['ty']
    return ('<svg %s width="100" height="100"><filter id="f" filterUnits="userSpaceOnUse" x="0" y="0" width="100" height="100">'
            '<feConvolveMatrix%s/></filter><rect width="50" height="50" filter="url(#f)"/></svg>' % (NS, a))


def coq_kernel_case(c, tree):
    def oz(v):
        return 'None' if v is None else '(Some (%d)%%Z)' % int(v)
    order = 'None' if c['order'] is None else '(Some (%s, %s))' % (oz(c['order'][0]), oz(c['order'][1]))
    dz = 'true' if (c['div'] is not None and c['div'] == 0) else 'false'
    k = tree['filters'][0]['primitives'][0]['kind'] if tree['filters'] else {'k': 'none'}
    if k['k'] == 'ConvolveMatrix':
        obs = '(Some {| k_cols := %d; k_rows := %d; k_tx := %d; k_ty := %d; k_len := %d |})' % (
            k['cols'], k['rows'], k['target_x'], k['target_y'], len(k['data']))
    else:
        obs = 'None'
    return '(%s, %s, %s, %s, %s, %s)' % (order, oz(c['mlen']), dz, oz(c['tx']), oz(c['ty']), obs)


KERNEL_DEFS = """
Local Open Scope Z_scope.
Definition kernel_eqb (a b : kernel) : bool :=
  (k_cols a =? k_cols b) && (k_rows a =? k_rows b) && (k_tx a =? k_tx b) && (k_ty a =? k_ty b) && (k_len a =? k_len b).
Definition kernel_case_ok (c : option (option Z * option Z) * option Z * bool * option Z * option Z * option kernel) : bool :=
  match c with
  | (ord, mlen, dz, tx, ty, obs) =>
      match convolve_kernel ord mlen dz tx ty, obs with
      | Some k, Some k' => kernel_eqb k k' && kernel_ok k'
      | None, None => true
      | _, _ => false
      end
  end.
"""


# ------------------------------------------------------------------------------------------------
# documents whose element ids look like generated ids
# ------------------------------------------------------------------------------------------------
def gen_ids_doc(rng):
    return refgen.gen_ref_doc(rng, id_style='genlike', big=True)


# ------------------------------------------------------------------------------------------------
def run(ctx):
    rng = ctx.rng
    quick = ctx.tier == 'quick'
    ctx.cov['trusted_base'] = vlib.BASE_TRUSTED + [
        "harness/src/dump.rs: addresses of definition objects stand for Arc identity; strings interned by tools/props/treeref.py",
        "the converter itself (which ids it keeps, which it generates) is not modelled: Model/Ids.v is a state machine over "
        "keep/generate events, validated by the id census of the system oracle",
        "roxmltree (source document ids), svgtypes, the text layout that produces `flattened`: exercised, not modelled",
    ]
    ctx.assumptions = ["a definition object is identified by its address (no interior mutability: chains are finite by typing)",
                       "id uniqueness is claimed only for source documents whose own ids are unique"]
    broken = ctx.translate()
    res = ctx.coq_props()
    proof_ok = res['ok'] and not broken
    ctx.coq_build(['Model/Corr.v', 'Proofs/Collect.v', 'Model/Filters.v'])      # what the correspondence evaluations import
    if not quick and hasattr(ctx, 'coqchk') and res['ok']:
        if not ctx.coqchk():
            proof_ok = False

    binp, blog = ctx.harness('release')
    if binp is None:
        ctx.violation("harness does not build against the current tree (correspondence cannot run)",
                      dict(build_log=blog[-2000:]), found_input=False)
        return

    # ------------------------------------------------------------------ inputs
    wit = sorted(os.path.join(WITNESS, f) for f in os.listdir(WITNESS) if f.endswith('.svg'))
    corpus = vlib.corpus_files()
    ngen = 300 if quick else 4000
    gen_docs = []
    for i in range(ngen):
        style = ['plain', 'genlike', 'weird'][i % 3]
        gen_docs.append(refgen.gen_ref_doc(rng, id_style=style, big=(i % 5 == 0)))
    crafted = refgen.crafted_docs() + refgen.group_attr_docs()
    gen_docs = crafted + gen_docs
    ngen = len(gen_docs)
    docs = ['@' + f for f in wit] + ['@' + f for f in corpus] + gen_docs
    labels = [os.path.relpath(f, vlib.VERIF) for f in wit] + [os.path.relpath(f, vlib.CORPUS) for f in corpus] + \
             ['crafted#%d' % i for i in range(len(crafted))] + ['generated#%d' % i for i in range(ngen - len(crafted))]
    # witnesses of the defects fixed for this property family must pass outright; other witnesses are ordinary inputs
    is_wit = [os.path.basename(f) in ('F08.svg', 'F09.svg', 'F13.svg') for f in wit] + [False] * (len(corpus) + ngen)
    outs = ctx.rvh_batch(binp, 'dump', ["-\t" + d for d in docs])
    idouts = ctx.rvh_batch(binp, 'c05-docids', docs)
    nbouts = ctx.rvh_batch(binp, 'c05-nbi', ["-\t" + d for d in docs])

    # ------------------------------------------------------------------ S: independent walk
    trees = []
    hist = dict(parsed=0, rejected=0, with_defs=0, chains3=0, nested_image=0, text=0)
    nviol = 0
    for k, (d, lab, o, io) in enumerate(zip(docs, labels, outs, idouts)):
        t = jload(o)
        if ('crash' in t or 'panic' in t) and not (d.startswith('@' + WITNESS) and not is_wit[k]
                                                   and not os.path.basename(d).startswith(('F01', 'F02'))):
            # every corpus file, generated document and witness of a FIXED defect parses today: a crash is a regression
            # (e.g. a reference chain that is no longer finite); witnesses of other properties' open findings are exempt
            ctx.violation("parsing crashed on %s: %s" % (lab, str(t)[:200]), dict(doc=d, op='dump', result=t))
            continue
        if 'root' not in t:
            hist['rejected'] += 1
            trees.append(None)
            ctx.note_case('rej/' + lab, nontrivial=False)
            continue
        hist['parsed'] += 1
        ids = jload(io)
        doc_ids = ids if isinstance(ids, list) else None
        ndefs = sum(len(t[c]) for c in COLL.values())
        hist['with_defs'] += 1 if ndefs else 0
        deep = False
        for c in t['clip_paths']:
            if c['clip'] and c['clip']['clip']:
                deep = True
        for m in t['masks']:
            if m['mask'] and m['mask']['mask']:
                deep = True
        hist['chains3'] += 1 if deep else 0
        ctx.note_case(lab if d.startswith('@') else d, nontrivial=ndefs > 0)
        trees.append(t)
        probs = oracle_tree(t, doc_ids)
        # nested image trees: each is a tree of its own
        stack = [t]
        while stack:
            cur = stack.pop()
            for n, _ in treeref.Walk(cur, include_nested=False).nodes:
                if n['t'] == 'image' and n.get('svg'):
                    hist['nested_image'] += 1
                    stack.append(n['svg'])
                    probs += [(c, 'nested image tree: ' + x) for c, x in oracle_tree(n['svg'], None)]
        for cls, text in probs:
            full = "%s: %s" % (lab, text)
            if is_wit[k] or cls is None:
                # a witness of a fixed defect must pass; anything outside the known classes is a violation
                if nviol < 8:
                    ctx.violation(full, dict(doc=d, op='dump', problem=text, klass=cls))
                nviol += 1
            else:
                ctx.known_or_violation(cls, full, dict(doc=d, op='dump', problem=text, klass=cls))
    ctx.cov['oracle_documents'] = hist
    ctx.cov['e2e_cases'] = hist['parsed']

    # node_by_id against its specification
    nb_cases = 0
    for d, lab, o, nb in zip(docs, labels, outs, nbouts):
        t = jload(o)
        q = jload(nb)
        if 'root' not in t or 'q' not in q:
            continue
        first = {}

        def pre(g):
            for n in g['children']:
                if n['id'] and n['id'] not in first:
                    cnt = [0]

                    def count(x):
                        cnt[0] += 1
                        if x['t'] == 'g':
                            for y in x['children']:
                                count(y)
                    count(n)
                    first[n['id']] = (n['t'], cnt[0])
                if n['t'] == 'g':
                    pre(n)
        pre(t['root'])
        for qi, kind, fid, nd in q['q']:
            nb_cases += 1
            exp = first.get(qi)
            got = None if kind is None else (kind, nd)
            if qi == '':
                exp = None
            if exp != got or (kind is not None and fid != qi):
                ctx.violation("%s: Tree::node_by_id(%r) returned %s, the first node with that id in document order is %s"
                              % (lab, qi, (kind, fid, nd), exp), dict(doc=d, op='c05-nbi', id=qi, got=[kind, fid, nd], expected=exp))
                break
    ctx.cov['node_by_id_queries'] = nb_cases

    # ------------------------------------------------------------------ K: collect (model vs implementation, in Coq)
    sel = [k for k, t in enumerate(trees) if t is not None]
    terms = []
    nb_terms = []
    for k in sel:
        ct = treeref.CoqTree()
        terms.append(ct.tree(trees[k]))
        q = jload(nbouts[k])
        qs = []
        for qi, kind, fid, nd in q.get('q', []):
            # ids that do not occur in the tree are not interned: map them to a fresh token
            tok = ct.s.m.get(qi, 10 ** 9) if qi != '' else 0
            kd = {None: 0, 'g': 1, 'path': 2, 'image': 3, 'text': 4}[kind]
            qs.append('(%d, (%d, %d, %d))' % (tok, kd, ct.s.m.get(fid, 10 ** 9) if kind else 0, nd))
        nb_terms.append('[%s]' % '; '.join(qs))
    chunks = 8
    model_ok = True
    badk = []
    import concurrent.futures as cf

    def eval_chunk(ci):
        idx = list(range(ci, len(sel), chunks))
        body = (PRELUDE + "Definition fp (o : option node) : N * N * N :=\n"
                "  match o with None => (0, 0, 0) | Some n => (match n with NGroup _ => 1 | NPath _ _ _ _ => 2 | NImage _ _ => 3 | NText _ _ _ => 4 end,"
                " node_id n, N.of_nat (length (desc_node n))) end.\n"
                "Definition fp_eqb (a b : N * N * N) : bool := (fst (fst a) =? fst (fst b)) && (snd (fst a) =? snd (fst b)) && (snd a =? snd b).\n"
                "Definition case_ok (c : tree * list (N * (N * N * N))) : bool :=\n"
                "  let t := fst c in chk_collections t && chk_complete t && chk_nodup t &&\n"
                "  forallb (fun q => fp_eqb (fp (tree_node_by_id t (fst q))) (snd q)) (snd c).\n"
                "Definition cases : list (tree * list (N * (N * N * N))) := [\n%s\n].\n"
                "Eval vm_compute in (bad_indices case_ok cases).\n"
                % ";\n".join("(%s, %s)" % (terms[j], nb_terms[j]) for j in idx))
        rc, out = ctx.coq_eval('k_collect_%d' % ci, body, ['Model.Tree', 'Model.Corr', 'Proofs.Collect'], timeout=900)
        bl = ctx.parse_N_list(out) if rc == 0 else None
        return idx, bl, out

    with cf.ThreadPoolExecutor(max_workers=chunks) as ex:
        for idx, bl, out in ex.map(eval_chunk, range(chunks)):
            if bl is None:
                model_ok = False
                ctx.log("model evaluation (collect) failed:\n" + out[-1500:])
            else:
                badk += [sel[idx[b]] for b in bl]
    ctx.cov['correspondence_cases'] = len(sel)
    for k in badk[:4]:
        # which part disagrees (second, small evaluation)
        ct = treeref.CoqTree()
        body = PRELUDE + "Definition t : tree := %s.\nEval vm_compute in (bad_collections t).\n" % ct.tree(trees[k])
        rc, out = ctx.coq_eval('k_collect_detail', body, ['Model.Tree'])
        which = [COLL_NAMES.get(x, '?') for x in (ctx.parse_N_list(out) or [])] if rc == 0 else ['?']
        ctx.violation("%s: the model of the collectors / node_by_id (Model/Tree.v) and the implementation disagree (collections: %s)"
                      % (labels[k], ','.join(which) or 'none; completeness, duplicates or node_by_id'),
                      dict(doc=docs[k], op='dump + c05-nbi', disagreeing_collections=which,
                           implementation={c: [x['id'] for x in trees[k][c]] for c in COLL.values()}))
    if not model_ok:
        ctx.violation("the collect correspondence could not be evaluated (model no longer loads)", dict(op='collect'), found_input=False)

    # ------------------------------------------------------------------ K: filter-wiring
    nw = 600 if quick else 8000
    wcases = [gen_wiring_case(rng) for _ in range(nw)]
    # a few fixed shapes: long chains of duplicates / unknown names / generated-name clashes
    wcases.append([dict(tag='feOffset', known=True, ok=True, ins=['result2'], result=None),
                   dict(tag='feOffset', known=True, ok=True, ins=[None], result='result3'),
                   dict(tag='feOffset', known=True, ok=True, ins=['result3'], result=None),
                   dict(tag='feOffset', known=True, ok=True, ins=['result3'], result='result3'),
                   dict(tag='feMerge', known=True, ok=True, ins=['result1', 'result2', 'result3', 'result4', 'nope'], result=None)])
    # children that collect_children skips (light source / transfer function / merge node / g directly inside <filter>, a primitive with an
    # empty region) but that carry a `result`: a later `in` naming it refers to NO primitive
    for tag in ('feDistantLight', 'feFuncR', 'feMergeNode', 'g'):
        wcases.append([dict(tag='feFlood', known=True, ok=True, ins=[], result='fl'),
                       dict(tag=tag, known=False, ok=True, ins=[], result='stray'),
                       dict(tag='feOffset', known=True, ok=True, ins=['stray'], result='o'),
                       dict(tag='feBlend', known=True, ok=True, ins=['fl', 'stray'], result=None)])
        wcases.append([dict(tag=tag, known=False, ok=True, ins=[], result='stray'),
                       dict(tag='feMerge', known=True, ok=True, ins=['stray', None], result=None)])
    wcases.append([dict(tag='feFlood', known=True, ok=False, ins=[], result='zero'),
                   dict(tag='feOffset', known=True, ok=True, ins=['zero'], result=None),
                   dict(tag='feOffset', known=True, ok=True, ins=['zero'], result=None)])
    wdocs = [wiring_doc(c) for c in wcases]
    wouts = ctx.rvh_batch(binp, 'dump', ["-\t" + d for d in wdocs])
    it = treeref.Intern()
    items = []
    wmap = []
    nprims = {}
    for k, (c, d, o) in enumerate(zip(wcases, wdocs, wouts)):
        t = jload(o)
        if 'root' not in t:
            ctx.violation("filter-wiring document failed to parse: %s" % str(t)[:200], dict(doc=d, result=t))
            continue
        obs = coq_observed(t, it)
        n = len(t['filters'][0]['primitives']) if t['filters'] else 0
        nprims[n] = nprims.get(n, 0) + 1
        ctx.note_case('wiring/' + d, nontrivial=n > 1)
        items.append("(%s, %s)" % (coq_wiring_case(c, it), obs))
        wmap.append(k)
    ctx.cov['filter_wiring_cases'] = len(items)
    ctx.cov['filter_wiring_primitive_counts'] = nprims
    ctx.add_sample(dict(op='filter-wiring', doc=wdocs[0]))
    if items:
        body = (PRELUDE + WIRING_DEFS + "Definition cases : list (list fe_child * list rprim) := [\n%s\n].\n"
                "Eval vm_compute in (bad_indices wiring_ok cases).\n" % ";\n".join(items))
        rc, out = ctx.coq_eval('k_wiring', body, ['Model.Tree', 'Model.Filters', 'Model.Corr'])
        bl = ctx.parse_N_list(out) if rc == 0 else None
        if bl is None:
            ctx.log("model evaluation (filter-wiring) failed:\n" + out[-1500:])
            ctx.violation("the filter-wiring correspondence could not be evaluated", dict(op='filter-wiring'), found_input=False)
        for b in bl or []:
            k = wmap[b]
            t = jload(wouts[k])
            ctx.violation("filter primitive wiring: Model/Filters.v collect_children and the implementation disagree, or a "
                          "reference names no earlier result",
                          dict(doc=wdocs[k], op='dump', children=wcases[k],
                               implementation=[dict(inputs=treeref.prim_inputs(p['kind']), result=p['result'])
                                               for p in (t['filters'][0]['primitives'] if t['filters'] else [])]))
            if len(ctx.violations) > 6:
                break

    # ------------------------------------------------------------------ K: kernel shape
    nk = 300 if quick else 3000
    kcases = [gen_kernel_case(rng) for _ in range(nk)]
    kdocs = [kernel_doc(c) for c in kcases]
    kouts = ctx.rvh_batch(binp, 'dump', ["-\t" + d for d in kdocs])
    kitems = []
    kmap = []
    kept = 0
    for k, (c, d, o) in enumerate(zip(kcases, kdocs, kouts)):
        t = jload(o)
        if 'root' not in t:
            ctx.violation("kernel document failed to parse: %s" % str(t)[:200], dict(doc=d, result=t))
            continue
        kind = t['filters'][0]['primitives'][0]['kind']['k'] if t['filters'] else 'none'
        kept += 1 if kind == 'ConvolveMatrix' else 0
        ctx.note_case('kernel/' + d, nontrivial=(kind == 'ConvolveMatrix'))
        kitems.append(coq_kernel_case(c, t))
        kmap.append(k)
    ctx.cov['kernel_cases'] = len(kitems)
    ctx.cov['kernel_cases_kept'] = kept
    if kitems:
        body = (PRELUDE + KERNEL_DEFS + "Definition cases := [\n%s\n].\nEval vm_compute in (bad_indices kernel_case_ok cases).\n"
                % ";\n".join(kitems))
        rc, out = ctx.coq_eval('k_kernel', body, ['Model.Filters', 'Model.Corr'])
        bl = ctx.parse_N_list(out) if rc == 0 else None
        if bl is None:
            ctx.log("model evaluation (kernel) failed:\n" + out[-1500:])
            ctx.violation("the kernel correspondence could not be evaluated", dict(op='kernel'), found_input=False)
        for b in (bl or [])[:3]:
            k = kmap[b]
            t = jload(kouts[k])
            ctx.violation("feConvolveMatrix: Model/Filters.v convolve_kernel and the implementation disagree on whether the kernel is kept "
                          "or on its shape, or a kept kernel has a target outside / a wrong number of values",
                          dict(doc=kdocs[k], op='dump', case=kcases[k],
                               implementation=t['filters'][0]['primitives'][0]['kind'] if t['filters'] else None))

    # ------------------------------------------------------------------ K: specular exponent
    svals = list(refgen.SPECULAR_VALUES) + [repr(round(rng.uniform(-2, 3), 3)) for _ in range(20 if quick else 200)] + \
            [repr(round(rng.uniform(120, 140), 2)) for _ in range(10 if quick else 100)]
    sdocs = [refgen.specular_doc(v) for v in svals]
    souts = ctx.rvh_batch(binp, 'dump', ["-\t" + d for d in sdocs])
    sitems = []
    smap2 = []
    for k, (v, d, o) in enumerate(zip(svals, sdocs, souts)):
        t = jload(o)
        if 'root' not in t:
            ctx.violation("specular document failed to parse: %s" % str(t)[:200], dict(doc=d, result=t))
            continue
        kd = t['filters'][0]['primitives'][0]['kind'] if t['filters'] else {'k': 'none'}
        obs = '(Some %s)' % vlib.qstr(kd['specular_exponent']) if kd['k'] == 'SpecularLighting' and isinstance(kd['specular_exponent'], (int, float)) else 'None'
        if kd['k'] == 'SpecularLighting' and obs == 'None':
            ctx.violation("specular exponent %r is stored as %r" % (v, kd['specular_exponent']), dict(doc=d, op='dump'))
            continue
        import struct
        attr = 'None' if v is None else '(Some %s)' % vlib.qstr(struct.unpack('f', struct.pack('f', float(v)))[0])
        ctx.note_case('specular/%s' % v, nontrivial=kd['k'] == 'SpecularLighting')
        sitems.append('(%s, %s)' % (attr, obs))
        smap2.append(k)
    ctx.cov['specular_cases'] = len(sitems)
    if sitems:
        body = ("From Coq Require Import QArith List Bool.\nImport ListNotations.\nLocal Open Scope Q_scope.\n"
                "Definition oq_eqb (a b : option Q) : bool := match a, b with Some x, Some y => Qeq_bool x y | None, None => true | _, _ => false end.\n"
                "Definition in_range (o : option Q) : bool := match o with Some e => Qle_bool 1 e && Qle_bool e 128 | None => true end.\n"
                "Definition cases : list (option Q * option Q) := [\n%s\n].\n"
                "Eval vm_compute in (bad_indices (fun c => oq_eqb (specular_exponent (fst c)) (snd c) && in_range (snd c)) cases).\n"
                % ";\n".join(sitems))
        rc, out = ctx.coq_eval('k_specular', body, ['Model.Filters', 'Model.Corr'])
        bl = ctx.parse_N_list(out) if rc == 0 else None
        if bl is None:
            ctx.log("model evaluation (specular) failed:\n" + out[-1500:])
            ctx.violation("the specular correspondence could not be evaluated", dict(op='specular'), found_input=False)
        for b in (bl or [])[:3]:
            k = smap2[b]
            t = jload(souts[k])
            ctx.violation("feSpecularLighting specularExponent=%r: Model/Filters.v specular_exponent and the implementation disagree, or the stored "
                          "exponent is outside [1, 128]" % svals[k],
                          dict(doc=sdocs[k], op='dump', implementation=t['filters'][0]['primitives'][0]['kind'] if t['filters'] else None))

    # ------------------------------------------------------------------ proof broke: model-level search
    if not proof_ok and not ctx.violations:
        # evaluate the boolean forms of the theorems on the model alone (no implementation involved)
        its = []
        for k in sel[:400]:
            ct = treeref.CoqTree()
            its.append('(t_root %s)' % ct.tree(trees[k]))
        body = (PRELUDE + "Definition roots : list group := [\n%s\n].\n"
                "Eval vm_compute in (bad_indices (fun r => let t := with_collections r in chk_complete t && chk_nodup t) roots).\n"
                % ";\n".join(its))
        rc, out = ctx.coq_eval('search_collect', body, ['Model.Tree', 'Model.Corr'])
        bl = ctx.parse_N_list(out) if rc == 0 else None
        if bl:
            k = sel[bl[0]]
            ctx.violation("model counterexample: the collectors of Model/Tree.v miss or repeat a definition on the tree of %s" % labels[k],
                          dict(doc=docs[k], failed_files=res['failed'], broken_ties=broken))
        else:
            ctx.violation("C05 proof obligations no longer check: %s %s" % (res['failed'] + res['audit'], [b['name'] for b in broken]),
                          dict(failed_files=res['failed'], audit=res['audit'], broken_ties=broken, log_tail=res['log'][-3000:]),
                          found_input=False)

    ctx.add_sample(dict(op='collect', doc=gen_docs[0]))
    ctx.add_sample(dict(op='collect', doc=labels[len(wit)]))
    ctx.cov['rule'] = (
        "collect/nbi/oracle: every witness under corpus/witness, every corpus file and generated reference-graph documents "
        "(tools/props/refgen.py: clip/mask chains of any length, patterns in masks in patterns, feImage into and outside defs, "
        "markers, symbols, shared objectBoundingBox definitions, text with paint servers and text paths, nested SVG images; "
        "plain / generated-looking / odd ids).  A document is non-trivial when its tree has at least one definition; distinct by "
        "document text (corpus: path).  filter-wiring: random lists of 1-7 filter children (16 primitive kinds, non-primitive "
        "children, invalid sub-regions) with in/in2/result drawn from 20 names incl. keywords, duplicates, generated-looking "
        "names; non-trivial when more than one primitive survives.")


def replay(ctx, path):
    r = json.load(open(path))
    rp = r.get('replay', {})
    print(json.dumps(r, indent=1)[:4000])
    doc = rp.get('doc')
    if doc:
        binp, _ = ctx.harness('release')
        if binp:
            o = ctx.rvh_batch(binp, 'dump', ["-\t" + doc])[0]
            t = jload(o)
            if 'root' in t:
                print("collections now: %s" % {c: [x['id'] for x in t[c]] for c in COLL.values()})
                ids = jload(ctx.rvh_batch(binp, 'c05-docids', [doc])[0])
                for cls, text in oracle_tree(t, ids if isinstance(ids, list) else None):
                    print("oracle: [%s] %s" % (cls, text))
                for f in t['filters']:
                    print("filter %s: %s" % (f['id'], [(treeref.prim_inputs(p['kind']), p['result']) for p in f['primitives']]))
            else:
                print("result now: %s" % str(t)[:500])
    return 0
