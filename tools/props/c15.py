"""C15  Clipping, masking and opacity only remove paint, and only where specified.

translate (gen_pixel -> Gen/ClipTables.v: blend modes / call order of clip.rs, mask.rs, render_group) -> Coq closure of Props/C15.v ->
harness -> correspondence
  K1 exhaustive tiny-skia tables through the public API: apply_mask scaling (65 536), luminance / alpha mask
     coefficient (byte pairs + random rgb pixels), Xor merge alpha (clip_group)
  K2 clip-algebra: pixel-aligned clip trees (clip-path on the clipPath and on its children) on small canvases,
     every pixel's alpha vs the per-pixel model eval_clip (includes the F16 scenes)
-> system oracle: generated content wrapped in generated clip paths / masks / opacity, and the Micro-SVG form of
   corpus files wrapped the same way: alpha never increases, transparent outside the independently rasterised
   geometry (grown by one pixel), unchanged at least one pixel inside.
"""
import json
import math
import os
import time

import vlib
from vlib import qstr
from props import c16 as P

NS = P.NS
IMPORTS = ['Model.Base', 'Model.F32', 'Gen.ClipTables', 'Model.Blend8', 'Model.ClipMask', 'Model.ClipChk']
US, RS = '\x1f', '\x1e'
num = P.num
dy = P.dy

# Noise floors measured on the unchanged tree (seeds 1, 2, 12345 and the thorough population, 2026-09-30):
#  * alpha increase on smooth pixels: 0 everywhere (allowed: 1);  outside the grown geometry: 0 painted pixels;
#  * inside (>= 1 px): smooth pixels differ by at most 1; anti-aliased outline pixels of the CONTENT differ by rasteriser
#    noise because the clipped group is rendered through a layer (same classes and limits as C16's identity oracle).
#  * outside: 15 985 thorough cases: no pixel with alpha > 16 outside; two cases with ONE faint pixel (alpha 8 / 9) where a sub-pixel-thin
#    sliver of clip geometry is sampled by the rasteriser at the layer's integer shift but not in the coverage rendering.
OUT_FAINT_MAX = 6
EDGE_MAX_DELTA = P.EDGE_MAX_DELTA
EDGE_MIN_COUNT = P.EDGE_MIN_COUNT
EDGE_MAX_FRACTION = P.EDGE_MAX_FRACTION


# ------------------------------------------------------------------------------------------------
# generated clip paths / masks
# ------------------------------------------------------------------------------------------------
def gen_shape(rng, box, unit=False):
    """one clip shape inside box (x0,y0,x1,y1); painted white so that the same text serves as coverage"""
    x0, y0, x1, y1 = box
    w, h = x1 - x0, y1 - y0
    den = 64 if unit else 4
    k = rng.below(5)

    def px(t):
        return x0 + t * w

    def py(t):
        return y0 + t * h
    common = ' fill="#ffffff"'
    if k == 0:
        a, b = dy(rng, 0, 0.6, 16), dy(rng, 0, 0.6, 16)
        c, d = dy(rng, 0.2, 0.9, 16), dy(rng, 0.2, 0.9, 16)
        rx = ' rx="%s"' % num(round(0.1 * w, 4)) if rng.below(4) == 0 else ''
        return '<rect x="%s" y="%s" width="%s" height="%s"%s%s/>' % (num(round(px(a), 4)), num(round(py(b), 4)), num(round(c * w, 4)), num(round(d * h, 4)), rx, common)
    if k == 1:
        return '<circle cx="%s" cy="%s" r="%s"%s/>' % (num(round(px(dy(rng, 0.2, 0.8, 16)), 4)), num(round(py(dy(rng, 0.2, 0.8, 16)), 4)),
                                                     num(round(dy(rng, 0.1, 0.5, 16) * min(w, h), 4)), common)
    if k == 2:
        return '<ellipse cx="%s" cy="%s" rx="%s" ry="%s"%s/>' % (num(round(px(0.5), 4)), num(round(py(0.5), 4)), num(round(dy(rng, 0.2, 0.6, 16) * w, 4)),
                                                                num(round(dy(rng, 0.1, 0.5, 16) * h, 4)), common)
    if k == 3:
        pts = [(px(dy(rng, 0, 1, 16)), py(dy(rng, 0, 1, 16))) for _ in range(3 + rng.below(4))]
        rule = rng.choice(['nonzero', 'evenodd'])
        return '<path d="M %s Z" clip-rule="%s" fill-rule="%s"%s/>' % (" L ".join("%s %s" % (num(round(a, 4)), num(round(b, 4))) for a, b in pts), rule, rule, common)
    # a star: self-intersecting, evenodd leaves a hole
    cx, cy, r = px(0.5), py(0.5), 0.45 * min(w, h)
    pts = [(cx + r * math.sin(i * 4 * math.pi / 5), cy - r * math.cos(i * 4 * math.pi / 5)) for i in range(5)]
    rule = rng.choice(['nonzero', 'evenodd'])
    return '<path d="M %s Z" clip-rule="%s" fill-rule="%s"%s/>' % (" L ".join("%s %s" % (num(round(a, 3)), num(round(b, 3))) for a, b in pts), rule, rule, common)


def gen_text_shape(rng, box):
    x0, y0, x1, y1 = box
    return ('<text x="%s" y="%s" font-family="Noto Sans" font-size="%s" font-weight="bold" fill="#ffffff">%s</text>'
            % (num(x0), num(round(y0 + 0.8 * (y1 - y0), 2)), num(round(0.8 * (y1 - y0), 2)), rng.choice(['AB', 'O8', 'Mm'])))


def small_ts(rng):
    k = rng.below(4)
    if k == 0:
        return ''
    if k == 1:
        return 'translate(%s %s)' % (num(dy(rng, -8, 8, 4)), num(dy(rng, -8, 8, 4)))
    if k == 2:
        return 'rotate(%d 80 80)' % rng.choice([10, -25, 45])
    return 'translate(80 80) scale(%s %s) translate(-80 -80)' % (num(rng.choice([0.75, 1.25])), num(rng.choice([0.75, 1, 1.25])))


def cov_doc(shapes, wrap_ts, outer_ts=''):
    """a document that paints the given shapes (white, opaque) under the given transforms"""
    inner = shapes
    for t in wrap_ts:
        if t:
            inner = '<g transform="%s">%s</g>' % (t, inner)
    if outer_ts:
        inner = '<g transform="%s">%s</g>' % (outer_ts, inner)
    return '<svg %s width="160" height="160">%s</svg>' % (NS, inner)


def add_attrs(el, extra):
    if not extra:
        return el
    if el.startswith('<text '):
        return el.replace('<text ', '<text ' + extra.strip() + ' ', 1)
    assert el.endswith('/>')
    return el[:-2] + extra + '/>'


def gen_clip(rng, bbox, outer, ids, depth=0, allow_obb=True):
    """outer: transforms (inner -> outer) of the user space in which the clip path is referenced.
    -> dict(defs, id, terms): terms = list of factor lists (documents) describing the clip region as OR of ANDs;
    f16 = a child with its own clip-path follows another child (known class)"""
    cid = 'c%d' % len(ids)
    ids.append(cid)
    obb = allow_obb and rng.below(3) == 0
    bw, bh = bbox[2] - bbox[0], bbox[3] - bbox[1]
    unit_ts = 'translate(%s %s) scale(%s %s)' % (num(bbox[0]), num(bbox[1]), num(bw), num(bh)) if obb else ''
    box = (0.0, 0.0, 1.0, 1.0) if obb else (bbox[0] - 0.1 * bw, bbox[1] - 0.1 * bh, bbox[2] + 0.1 * bw, bbox[3] + 0.1 * bh)
    cts = small_ts(rng) if (rng.below(3) == 0 and not obb) else ''
    plain = []
    terms = []
    defs = []
    kids_xml = ''
    f16 = False
    for j in range(1 + rng.below(3)):
        if rng.below(8) == 0 and not obb:
            sh = gen_text_shape(rng, box)
        else:
            sh = gen_shape(rng, box, obb)
        kts = small_ts(rng) if (rng.below(4) == 0 and not obb) else ''
        own = None
        if depth < 2 and rng.below(5) == 0 and not obb:
            # clip-path on a clipPath child: referenced in the child's user space (child transform, clipPath transform, then outer)
            own = gen_clip(rng, bbox, [kts, cts] + outer, ids, depth + 2, allow_obb=False)
            defs += own['defs']
        # paint attributes that must not matter inside a clipPath (children are forced to opaque black fill, no stroke, no opacity)
        junk = rng.choice(['', '', '', ' fill-opacity="0.3"', ' opacity="0.4"', ' stroke="#ff0000" stroke-width="9"', ' fill="none" stroke="#000" stroke-width="4"'
                           if False else ' fill-opacity="0.5" stroke="#00f" stroke-width="6" stroke-opacity="0.5"'])
        kids_xml += add_attrs(sh, junk + (' transform="%s"' % kts if kts else '') + (' clip-path="url(#%s)"' % own['id'] if own else ''))
        if own:
            if j > 0:
                f16 = True
            f16 = f16 or own['f16']
            shape_doc = cov_doc(sh, [kts, unit_ts, cts] + outer)
            for t in own['terms']:
                terms.append([shape_doc] + t)
        else:
            plain.append((sh, kts))
    if plain:
        inner = "".join('<g transform="%s">%s</g>' % (k, s) if k else s for s, k in plain)
        terms.append([cov_doc(inner, [unit_ts, cts] + outer)])
    nested = None
    if depth < 2 and rng.below(4) == 0:
        nested = gen_clip(rng, bbox, outer, ids, depth + 1, allow_obb=allow_obb)     # clip-path on the clipPath: the referencing element's user space
        defs += nested['defs']
        terms = [t + n for t in terms for n in nested['terms']]
        f16 = f16 or nested['f16']
    attrs = ' id="%s"' % cid
    if obb:
        attrs += ' clipPathUnits="objectBoundingBox"'
    elif rng.below(2):
        attrs += ' clipPathUnits="userSpaceOnUse"'
    if cts:
        attrs += ' transform="%s"' % cts
    if nested:
        attrs += ' clip-path="url(#%s)"' % nested['id']
    defs.append('<clipPath%s>%s</clipPath>' % (attrs, kids_xml))
    return dict(defs=defs, id=cid, terms=terms, f16=f16, has_child_clip=any(len(t) > 1 for t in terms))


def gen_mask(rng, bbox, gattr_ts, ids, depth=0):
    """-> dict(defs, id, outside_terms, inside_terms or None)"""
    mid = 'm%d' % len(ids)
    ids.append(mid)
    bw, bh = bbox[2] - bbox[0], bbox[3] - bbox[1]
    units = rng.choice(['objectBoundingBox', 'userSpaceOnUse', None])
    cunits = rng.choice(['userSpaceOnUse', 'userSpaceOnUse', 'objectBoundingBox', None])
    attrs = ' id="%s"' % mid
    if units:
        attrs += ' maskUnits="%s"' % units
    if units == 'userSpaceOnUse':
        rx, ry = bbox[0] + dy(rng, -0.3, 0.3, 16) * bw, bbox[1] + dy(rng, -0.3, 0.3, 16) * bh
        rw, rh = dy(rng, 0.5, 1.5, 16) * bw, dy(rng, 0.5, 1.5, 16) * bh
        rx, ry, rw, rh = [round(v * 4) / 4 for v in (rx, ry, max(rw, 2), max(rh, 2))]
        attrs += ' x="%s" y="%s" width="%s" height="%s"' % (num(rx), num(ry), num(rw), num(rh))
    else:
        fr = [-0.1, -0.1, 1.2, 1.2]
        if rng.below(2):
            fr = [dy(rng, -0.3, 0.3, 16), dy(rng, -0.3, 0.3, 16), dy(rng, 0.5, 1.5, 16), dy(rng, 0.5, 1.5, 16)]
            attrs += ' x="%s" y="%s" width="%s" height="%s"' % tuple(num(v) for v in fr)
        rx, ry, rw, rh = bbox[0] + fr[0] * bw, bbox[1] + fr[1] * bh, fr[2] * bw, fr[3] * bh
    if cunits:
        attrs += ' maskContentUnits="%s"' % cunits
    kind = rng.choice(['luminance', 'alpha', None])
    if kind:
        attrs += ' mask-type="%s"' % kind
    obb = cunits == 'objectBoundingBox'
    unit_ts = 'translate(%s %s) scale(%s %s)' % (num(bbox[0]), num(bbox[1]), num(bw), num(bh)) if obb else ''
    box = (0.0, 0.0, 1.0, 1.0) if obb else (bbox[0] - 0.1 * bw, bbox[1] - 0.1 * bh, bbox[2] + 0.1 * bw, bbox[3] + 0.1 * bh)
    white = rng.below(2) == 0
    shapes = ''
    for _ in range(1 + rng.below(2)):
        sh = gen_shape(rng, box, obb)
        if not white:
            sh = sh.replace('fill="#ffffff"', 'fill="%s" fill-opacity="%s"' % (rng.choice(P.COLORS), num(rng.choice([1, 0.5, 0.25]))))
        shapes += sh
    region_doc = cov_doc('<rect x="%s" y="%s" width="%s" height="%s" fill="#ffffff"/>' % (num(rx), num(ry), num(rw), num(rh)), [], gattr_ts)
    # geometry of the content painted opaque white (for the outside clause the paint does not matter)
    import re as _re
    geo = _re.sub(r' fill="[^"]*"( fill-opacity="[^"]*")?', ' fill="#ffffff"', shapes)
    content_doc = cov_doc(geo, [unit_ts], gattr_ts)
    terms = [[region_doc, content_doc]]
    inside = [[region_doc, content_doc]] if white else None
    defs = []
    nested = None
    if depth < 1 and rng.below(4) == 0:
        nested = gen_mask(rng, bbox, gattr_ts, ids, depth + 1)
        defs += nested['defs']
        attrs += ' mask="url(#%s)"' % nested['id']
        terms = [t + n for t in terms for n in nested['outside']]
        inside = [t + n for t in inside for n in nested['inside']] if (inside and nested['inside']) else None
    defs.append('<mask%s>%s</mask>' % (attrs, shapes))
    return dict(defs=defs, id=mid, outside=terms, inside=inside, white=white, kind=kind)


def formula(terms):
    return RS.join(US.join(t) for t in terms) if terms else '-'


# ------------------------------------------------------------------------------------------------
# ONE clip path / mask shared by two or three elements with different bounding boxes (all unit combinations).
# usvg caches (shares) a definition only when it does not depend on the user's box; every user must still be clipped /
# masked relative to its OWN box.
# ------------------------------------------------------------------------------------------------
CELLS = [(0, 0), (80, 0), (0, 80), (80, 80)]
REFBOX = (30.0, 30.0, 130.0, 130.0)      # generated content lives in [30,130]^2 of its own user space


def gen_shared_case(rng, mode):
    nusers = 2 + rng.below(2)
    cells = rng.sample(CELLS, nusers)
    defs = []
    users = []
    for u in range(nusers):
        content, bbox = P.gen_content(rng, defs, prefix='u%d' % u)
        users.append((content, bbox, 'translate(%d %d) scale(0.5)' % cells[u], cells[u]))
    info = dict(mode=mode, f16=False, shared=True)
    if mode == 'clip':
        obb = rng.below(2) == 0
        box = (0.0, 0.0, 1.0, 1.0) if obb else REFBOX
        shapes = "".join(gen_shape(rng, box, obb) for _ in range(1 + rng.below(2)))
        cts = small_ts(rng) if (not obb and rng.below(3) == 0) else ''
        defs.append('<clipPath id="sh"%s%s>%s</clipPath>' % (' clipPathUnits="objectBoundingBox"' if obb else '', ' transform="%s"' % cts if cts else '', shapes))
        attr = ' clip-path="url(#sh)"'
        info['units'] = 'clipPathUnits=%s' % ('objectBoundingBox' if obb else 'userSpaceOnUse')

        def terms_of(bbox, gts, cell):
            unit = 'translate(%s %s) scale(%s %s)' % (num(bbox[0]), num(bbox[1]), num(bbox[2] - bbox[0]), num(bbox[3] - bbox[1])) if obb else ''
            t = [cell_doc(cell), cov_doc(shapes, [unit, cts, gts])]
            return [t], [t]
    else:
        munits = rng.choice(['objectBoundingBox', 'userSpaceOnUse'])
        cunits = rng.choice(['objectBoundingBox', 'userSpaceOnUse'])
        kind = rng.choice(['luminance', 'alpha'])
        if munits == 'userSpaceOnUse':
            reg = [round(v * 4) / 4 for v in (30 + dy(rng, -20, 30, 4), 30 + dy(rng, -20, 30, 4), dy(rng, 50, 130, 4), dy(rng, 50, 130, 4))]
        else:
            reg = [dy(rng, -0.3, 0.3, 16), dy(rng, -0.3, 0.3, 16), dy(rng, 0.5, 1.5, 16), dy(rng, 0.5, 1.5, 16)]
        cobb = cunits == 'objectBoundingBox'
        shapes = "".join(gen_shape(rng, (0.0, 0.0, 1.0, 1.0) if cobb else REFBOX, cobb) for _ in range(1 + rng.below(2)))     # white: the inside clause applies
        defs.append('<mask id="sh" maskUnits="%s" maskContentUnits="%s" mask-type="%s" x="%s" y="%s" width="%s" height="%s">%s</mask>'
                    % (munits, cunits, kind, num(reg[0]), num(reg[1]), num(reg[2]), num(reg[3]), shapes))
        attr = ' mask="url(#sh)"'
        info['units'] = 'maskUnits=%s maskContentUnits=%s' % (munits, cunits)

        def terms_of(bbox, gts, cell):
            bw, bh = bbox[2] - bbox[0], bbox[3] - bbox[1]
            if munits == 'userSpaceOnUse':
                r = reg
            else:
                r = [bbox[0] + reg[0] * bw, bbox[1] + reg[1] * bh, reg[2] * bw, reg[3] * bh]
            unit = 'translate(%s %s) scale(%s %s)' % (num(bbox[0]), num(bbox[1]), num(bw), num(bh)) if cobb else ''
            t = [cell_doc(cell), cov_doc('<rect x="%s" y="%s" width="%s" height="%s" fill="#ffffff"/>' % tuple(num(v) for v in r), [gts]),
                 cov_doc(shapes, [unit, gts])]
            return [t], [t]
    outside, inside = [], []
    body_t, body_p = '', ''
    for content, bbox, gts, cell in users:
        o, i = terms_of(bbox, gts, cell)
        outside += o
        inside += i
        body_t += '<g%s transform="%s">%s</g>' % (attr, gts, content)
        body_p += '<g transform="%s">%s</g>' % (gts, content)
    s = rng.choice([0.5, 1, 1, 1.5, 2])
    ang = rng.choice([0, 0, 0, 15, -30, 90])
    size = int(math.ceil(160 * s))
    base = P.mat_mul(P.rot(ang), (s, 0, 0, s, 0, 0))
    cx, cy = P.mat_pt(base, 80, 80)
    root = tuple(P.f32_of(v) for v in (base[0], base[1], base[2], base[3], size / 2.0 - cx, size / 2.0 - cy))
    head = '<svg %s width="160" height="160"><defs>%s</defs>' % (NS, "".join(defs))
    info.update(doc=head + body_t + '</svg>', plain=head + body_p + '</svg>', ts=root, size=size, outside=formula(outside), inside=formula(inside))
    return info


def cell_doc(cell):
    return cov_doc('<rect x="%d" y="%d" width="80" height="80" fill="#ffffff"/>' % cell, [])


# ------------------------------------------------------------------------------------------------
# EXACT scenes: pixel-aligned documents whose expected alpha is computed here from the SVG rules of the SOURCE document
# (never from the parsed tree): rects and compound rect paths on an integer grid, integer translations, clip-rule given at
# every level and in every spelling, `use` children (target shape with its own transform) inside clip paths, clip-path on
# clipPath children and on the clipPath, objectBoundingBox units, masks (white / black content, luminance / alpha,
# both units, masks on masks, invalid linked masks), author ids that look like generated ones, shared definitions.
# Every pixel must be exactly 0 or 255 as predicted.
# ------------------------------------------------------------------------------------------------
EX = 24
ID_POOL = ['clipPath1', 'clipPath2', 'clipPath3', 'mask1', 'mask2', 'filter1', 'pattern1', 'linearGradient1', 'ca', 'cb', 'cc', 'cd', 'ma', 'mb', 'mc', 'x1', 'x2', 'x3']


class Geo:
    """rect, or ring = outer rect with an inner rect sub-path (same or opposite direction)"""

    def __init__(self, x, y, w, h, hole=None, same_dir=True):
        self.x, self.y, self.w, self.h, self.hole, self.same = x, y, w, h, hole, same_dir

    def inside(self, px, py, rule):
        if not (self.x <= px < self.x + self.w and self.y <= py < self.y + self.h):
            return False
        if self.hole:
            hx, hy, hw, hh = self.hole
            if hx <= px < hx + hw and hy <= py < hy + hh:
                return rule == 'nonzero' and self.same
        return True

    def xml(self, extra=''):
        if not self.hole:
            return '<rect x="%d" y="%d" width="%d" height="%d" shape-rendering="crispEdges"%s/>' % (self.x, self.y, self.w, self.h, extra)
        hx, hy, hw, hh = self.hole
        outer = 'M %d %d h %d v %d h %d Z' % (self.x, self.y, self.w, self.h, -self.w)
        inner = ('M %d %d h %d v %d h %d Z' % (hx, hy, hw, hh, -hw)) if self.same else ('M %d %d v %d h %d v %d Z' % (hx, hy, hh, hw, -hh))
        return '<path d="%s %s" shape-rendering="crispEdges"%s/>' % (outer, inner, extra)


def rule_attr(place, rule, sel, css):
    """spelling of clip-rule at one level: attribute, style attribute, or a CSS rule for the element's id"""
    if rule is None:
        return ''
    if place == 'attr':
        return ' clip-rule="%s"' % rule
    if place == 'style':
        return ' style="clip-rule:%s"' % rule
    css.append('#%s{clip-rule:%s}' % (sel, rule))
    return ''


def ex_geo(rng, x0, y0, x1, y1):
    w, h = 3 + rng.below(max(1, x1 - x0 - 3)), 3 + rng.below(max(1, y1 - y0 - 3))
    x, y = x0 + rng.below(max(1, x1 - x0 - w + 1)), y0 + rng.below(max(1, y1 - y0 - h + 1))
    if w >= 3 and h >= 3 and rng.below(2):
        hw, hh = 1 + rng.below(w - 2), 1 + rng.below(h - 2)
        return Geo(x, y, w, h, (x + 1 + rng.below(w - hw - 1), y + 1 + rng.below(h - hh - 1), hw, hh), rng.below(3) != 0)
    return Geo(x, y, w, h)


class ExScene:
    def __init__(self, rng):
        self.rng = rng
        self.ids = ['n%d' % i for i in range(40)] + list(ID_POOL)      # the ids that look like generated ones are handed out first
        tail = self.ids[40:]
        rng.shuffle(tail)
        self.ids[40:] = tail
        self.css = []
        self.defs = []        # xml of definitions in document order
        self.shapes = []      # xml of `use` targets
        self.tags = set()

    def new_id(self):
        return self.ids.pop()

    # ---------------------------------------------------------------- clip paths
    def make_clip(self, depth, allow_obb, force_obb=None, force_id=None):
        rng = self.rng
        c = dict(id=force_id or self.new_id(), obb=(allow_obb and rng.below(3) == 0) if force_obb is None else force_obb, ts=(0, 0), kids=[], nested=None, rule=None, grule=None)
        if not c['obb'] and rng.below(3) == 0:
            c['ts'] = (rng.below(5) - 2, rng.below(5) - 2)
        if rng.below(3) == 0:
            c['rule'] = rng.choice(['evenodd', 'nonzero'])
        if rng.below(4) == 0:
            c['grule'] = rng.choice(['evenodd', 'nonzero'])
        kids_xml = ''
        for _ in range(1 + rng.below(2)):
            k = dict(rule=None, use=rng.below(3) == 0, urule=None, kt=(0, 0), own=None)
            if c['obb']:
                # fractions of the box in quarters; the user boxes are multiples of 4
                q = [rng.below(3), rng.below(3)]
                k['geo_q'] = (q[0], q[1], 1 + rng.below(4 - q[0]), 1 + rng.below(4 - q[1]))
                k['use'] = False
            else:
                k['geo'] = ex_geo(rng, 2, 2, EX - 2, EX - 2)
            if rng.below(3) == 0:
                k['rule'] = rng.choice(['evenodd', 'nonzero'])
            if not c['obb'] and rng.below(3) == 0:
                k['kt'] = (rng.below(5) - 2, rng.below(5) - 2)
            if depth < 2 and not c['obb'] and rng.below(4) == 0:
                k['own'] = self.make_clip(depth + 2, False)
                self.tags.add('child-clip')
                if c['kids']:
                    self.tags.add('F16-child-clip-after-sibling')
            own_attr = ' clip-path="url(#%s)"' % k['own']['id'] if k['own'] else ''
            kid_id = self.new_id()
            if c['obb']:
                g = k['geo_q']
                kids_xml += '<rect id="%s" x="%s" y="%s" width="%s" height="%s"%s/>' % (kid_id, g[0] / 4.0, g[1] / 4.0, g[2] / 4.0, g[3] / 4.0,
                                                                                       rule_attr(rng.choice(['attr', 'style', 'css']), k['rule'], kid_id, self.css))
            elif k['use']:
                # the referenced shape carries the transform (usvg turns this into a nested group); the `use` carries clip-rule / clip-path
                self.tags.add('use-child')
                tid = self.new_id()
                self.shapes.append(k['geo'].xml(' id="%s"%s%s' % (tid, ' transform="translate(%d %d)"' % k['kt'] if k['kt'] != (0, 0) else '',
                                                                   rule_attr(rng.choice(['attr', 'style', 'css']), k['rule'], tid, self.css))))
                if rng.below(2):
                    k['urule'] = rng.choice(['evenodd', 'nonzero'])
                kids_xml += '<use id="%s" xlink:href="#%s"%s%s/>' % (kid_id, tid, rule_attr(rng.choice(['attr', 'style', 'css']), k['urule'], kid_id, self.css), own_attr)
            else:
                kids_xml += k['geo'].xml(' id="%s"%s%s%s' % (kid_id, ' transform="translate(%d %d)"' % k['kt'] if k['kt'] != (0, 0) else '',
                                                           rule_attr(rng.choice(['attr', 'style', 'css']), k['rule'], kid_id, self.css), own_attr))
            c['kids'].append(k)
        if depth < 2 and rng.below(4) == 0:
            c['nested'] = self.make_clip(depth + 1, allow_obb)
            self.tags.add('nested-clip')
        xml = '<clipPath id="%s"%s%s%s%s>%s</clipPath>' % (
            c['id'], ' clipPathUnits="objectBoundingBox"' if c['obb'] else '', ' transform="translate(%d %d)"' % c['ts'] if c['ts'] != (0, 0) else '',
            rule_attr(rng.choice(['attr', 'style', 'css']), c['rule'], c['id'], self.css), ' clip-path="url(#%s)"' % c['nested']['id'] if c['nested'] else '', kids_xml)
        if c['grule']:
            xml = '<g clip-rule="%s">%s</g>' % (c['grule'], xml)
        self.defs.append(xml)
        if c['obb']:
            self.tags.add('obb-clip')
        return c

    def clip_at(self, c, bbox, ux, uy):
        """is the point (ux, uy) of the referencing element's user space inside the clip path?"""
        if c['nested'] and not self.clip_at(c['nested'], bbox, ux, uy):
            return False
        cx, cy = ux - c['ts'][0], uy - c['ts'][1]
        for k in c['kids']:
            rule = k['rule'] or k['urule'] or c['rule'] or c['grule'] or 'nonzero'
            if c['obb']:
                g = k['geo_q']
                bx, by, bw, bh = bbox
                inside = bx + g[0] * bw // 4 <= cx < bx + (g[0] + g[2]) * bw // 4 and by + g[1] * bh // 4 <= cy < by + (g[1] + g[3]) * bh // 4
            else:
                inside = k['geo'].inside(cx - k['kt'][0], cy - k['kt'][1], rule)
            if inside and k['own']:
                # clip-path on a child: in the child's user space; for a `use` child the transform sits on the target, not on the use
                ox, oy = (cx, cy) if k['use'] else (cx - k['kt'][0], cy - k['kt'][1])
                inside = self.clip_at(k['own'], None, ox, oy)
            if inside:
                return True
        return False

    # ---------------------------------------------------------------- masks
    def make_mask(self, depth, force_obb=None, force_id=None):
        rng = self.rng
        m = dict(id=force_id or self.new_id(), obb=(rng.below(2) == 0) if force_obb is None else force_obb,
                 cobb=(rng.below(3) == 0) if force_obb is None else force_obb, kind=rng.choice(['luminance', 'alpha', None]), kids=[], nested=None, invalid=False)
        if m['obb']:
            m['reg_q'] = (rng.below(2), rng.below(2), 2 + rng.below(3), 2 + rng.below(3))
            reg = ' x="%s" y="%s" width="%s" height="%s"' % tuple(v / 4.0 for v in m['reg_q'])
        else:
            m['reg'] = (2 + rng.below(8), 2 + rng.below(8), 6 + rng.below(12), 6 + rng.below(12))
            reg = ' maskUnits="userSpaceOnUse" x="%d" y="%d" width="%d" height="%d"' % m['reg']
        kx = ''
        for _ in range(1 + rng.below(3)):
            col = rng.choice(['#ffffff', '#ffffff', '#000000'])
            if m['cobb']:
                q = (rng.below(3), rng.below(3))
                g = (q[0], q[1], 1 + rng.below(4 - q[0]), 1 + rng.below(4 - q[1]))
                kx += '<rect x="%s" y="%s" width="%s" height="%s" fill="%s"/>' % (g[0] / 4.0, g[1] / 4.0, g[2] / 4.0, g[3] / 4.0, col)
            else:
                g = (rng.below(14), rng.below(14), 3 + rng.below(14), 3 + rng.below(14))
                kx += '<rect x="%d" y="%d" width="%d" height="%d" fill="%s" shape-rendering="crispEdges"/>' % (g + (col,))
            m['kids'].append((g, col))
        link = ''
        if depth < 1 and rng.below(3) == 0:
            if rng.below(2):
                m['nested'] = self.make_mask(depth + 1)
                link = m['nested']['id']
                self.tags.add('nested-mask')
            else:
                # a linked mask that is not valid: the outer mask is invalid too and the element is not rendered
                m['invalid'] = True
                bad = self.new_id()
                kind = rng.below(3)
                self.tags.add('invalid-linked-mask-%d' % kind)
                if kind == 0:
                    self.defs.append('<mask id="%s" maskUnits="userSpaceOnUse" x="0" y="0" width="0" height="20"><rect width="24" height="24" fill="#ffffff"/></mask>' % bad)
                elif kind == 1:
                    self.defs.append('<mask id="%s" maskUnits="userSpaceOnUse" x="0" y="0" width="24" height="0"><rect width="24" height="24" fill="#ffffff"/></mask>' % bad)
                else:
                    self.defs.append('<rect id="%s" width="24" height="24" fill="#ffffff"/>' % bad)
                link = bad
        self.defs.append('<mask id="%s"%s%s%s%s>%s</mask>' % (m['id'], reg, ' maskContentUnits="objectBoundingBox"' if m['cobb'] else '',
                                                            ' mask-type="%s"' % m['kind'] if m['kind'] else '', ' mask="url(#%s)"' % link if link else '', kx))
        return m

    def mask_at(self, m, bbox, ux, uy):
        if m['invalid']:
            return False
        if m['nested'] and not self.mask_at(m['nested'], bbox, ux, uy):
            return False
        bx, by, bw, bh = bbox
        if m['obb']:
            q = m['reg_q']
            rx, ry, rw, rh = bx + q[0] * bw // 4, by + q[1] * bh // 4, q[2] * bw // 4, q[3] * bh // 4
        else:
            rx, ry, rw, rh = m['reg']
        if not (rx <= ux < rx + rw and ry <= uy < ry + rh):
            return False
        val = False
        for g, col in m['kids']:
            if m['cobb']:
                gx, gy, gw, gh = bx + g[0] * bw // 4, by + g[1] * bh // 4, g[2] * bw // 4, g[3] * bh // 4
            else:
                gx, gy, gw, gh = g
            if gx <= ux < gx + gw and gy <= uy < gy + gh:
                val = (col == '#ffffff') or (m['kind'] == 'alpha')      # black: luminance 0, but alpha 1
        return val


def gen_exact_scene(rng):
    sc = ExScene(rng)
    forced = None
    if rng.below(5) == 0:
        # an objectBoundingBox definition used by two elements (its second user gets a GENERATED id such as clipPath1 / mask1), followed by
        # the first use of an author definition that carries exactly that id
        sc.tags.add('author-id-equals-generated-id')
        n = rng.choice(['1', '1', '2'])
        for lst in (sc.ids,):
            for nm in ('clipPath' + n, 'mask' + n):
                if nm in lst:
                    lst.remove(nm)
        if rng.below(3):
            a, b = sc.make_clip(0, True, force_obb=True), sc.make_clip(0, False, force_obb=False, force_id='clipPath' + n)
            clips, masks = [a, b], []
            forced = [(a, None)] * (2 if n == '1' else 3) + [(b, None)]
        else:
            a, b = sc.make_mask(0, force_obb=True), sc.make_mask(0, force_obb=False, force_id='mask' + n)
            clips, masks = [], [a, b]
            forced = [(None, a)] * (2 if n == '1' else 3) + [(None, b)]
    else:
        clips = [sc.make_clip(0, True) for _ in range(1 + rng.below(2))]
        masks = [sc.make_mask(0) for _ in range(rng.below(2))]
    users = []
    body = ''
    for u in range(len(forced) if forced else 2 + rng.below(3)):
        w, h = 4 * (1 + rng.below(4)), 4 * (1 + rng.below(4))
        x, y = rng.below(EX - w - 3) + 1, rng.below(EX - h - 3) + 1
        t = (rng.below(3), rng.below(3)) if rng.below(3) == 0 else (0, 0)
        c = rng.choice(clips) if (clips and rng.below(4)) else None
        m = rng.choice(masks) if (masks and rng.below(2)) else None
        if forced:
            c, m = forced[u]
        attr = (' clip-path="url(#%s)"' % c['id'] if c else '') + (' mask="url(#%s)"' % m['id'] if m else '')
        col = rng.choice(['#ff0000', '#00ff00', '#0000ff', '#808080'])
        rect = '<rect x="%d" y="%d" width="%d" height="%d" fill="%s" shape-rendering="crispEdges"%%s/>' % (x, y, w, h, col)
        if (c or m) and w >= 8 and h >= 8 and rng.below(3) == 0:
            # the user is a GROUP whose object bounding box (x, y, w, h) is spanned by a painted rect in one corner and an UNPAINTED
            # spacer in the opposite corner: unpainted geometry still counts for objectBoundingBox units
            pw, ph = 4 * (1 + rng.below(w // 4 - 1)) if w > 8 else 4, 4 * (1 + rng.below(h // 4 - 1)) if h > 8 else 4
            spacer = rng.choice(['fill="none"', 'fill="none" stroke="none"', 'fill="#ff0" fill-opacity="0"', 'fill="#ff0" opacity="0"'])
            sc.tags.add('bbox-from-unpainted-child')
            body += ('<g transform="translate(%d %d)"%s><rect x="%d" y="%d" width="%d" height="%d" fill="%s" shape-rendering="crispEdges"/>'
                     '<rect x="%d" y="%d" width="%d" height="%d" %s/></g>' % (t[0], t[1], attr, x, y, pw, ph, col, x + w - 3, y + h - 2, 3, 2, spacer))
            users.append((x, y, w, h, t, c, m, (x, y, pw, ph)))
            continue
        if rng.below(2):
            body += '<g transform="translate(%d %d)"%s>%s</g>' % (t[0], t[1], attr, rect % '')
        else:
            body += rect % ((' transform="translate(%d %d)"' % t if t != (0, 0) else '') + attr)
        users.append((x, y, w, h, t, c, m, (x, y, w, h)))
    ids_like_generated = [i for i in ID_POOL[:8] if i not in sc.ids]
    if ids_like_generated:
        sc.tags.add('generated-looking-ids')
    if len([1 for u in users if u[5] is not None and u[5]['obb']]) >= 2 or len([1 for u in users if u[6] is not None]) >= 2:
        sc.tags.add('shared-definition')
    style = '<style>%s</style>' % "".join(sc.css) if sc.css else ''
    doc = '<svg %s width="%d" height="%d">%s<defs>%s%s</defs>%s</svg>' % (NS, EX, EX, style, "".join(sc.shapes), "".join(sc.defs), body)
    exp = []
    for py in range(EX):
        for px in range(EX):
            vis = False
            for (x, y, w, h, t, c, m, painted) in users:
                ux, uy = px - t[0], py - t[1]
                if not (painted[0] <= ux < painted[0] + painted[2] and painted[1] <= uy < painted[1] + painted[3]):
                    continue
                if c and not sc.clip_at(c, (x, y, w, h), ux, uy):
                    continue
                if m and not sc.mask_at(m, (x, y, w, h), ux, uy):
                    continue
                vis = True
                break
            exp.append(255 if vis else 0)
    return dict(doc=doc, expected=exp, tags=sorted(sc.tags))


def gen_thick_strokes(rng):
    """thick open diagonal strokes, every cap x join: their caps and joins reach beyond the geometry's box"""
    out = ''
    for _ in range(1 + rng.below(2)):
        pts = [(dy(rng, 40, 120, 4), dy(rng, 40, 120, 4)) for _ in range(2 + rng.below(2))]
        out += ('<path d="M %s" fill="none" stroke="%s" stroke-width="%s" stroke-linecap="%s" stroke-linejoin="%s"%s/>'
                % (" L ".join("%s %s" % (num(a), num(b)) for a, b in pts), rng.choice(P.COLORS[:6]), num(rng.choice([8, 10, 12, 16, 22])),
                   rng.choice(['butt', 'round', 'square']), rng.choice(['miter', 'round', 'bevel']), ' stroke-opacity="0.5"' if rng.below(4) == 0 else ''))
    return out


def gen_case(rng, mode):
    """mode: clip | mask | opacity | cover"""
    defs = []
    content, bbox = P.gen_content(rng, defs)
    if mode == 'cover':
        content = gen_thick_strokes(rng) + (content if rng.below(3) == 0 else '')
    gts_attr = ''
    gts = ''
    if rng.below(3) == 0:
        gts = small_ts(rng)
        gts_attr = ' transform="%s"' % gts if gts else ''
    s = rng.choice([0.5, 1, 1, 1.5, 2])
    ang = rng.choice([0, 0, 0, 15, -30, 90])
    size = int(math.ceil(160 * s))
    base = P.mat_mul(P.rot(ang), (s, 0, 0, s, 0, 0))
    cx, cy = P.mat_pt(base, 80, 80)
    root = tuple(P.f32_of(v) for v in (base[0], base[1], base[2], base[3], size / 2.0 - cx, size / 2.0 - cy))
    ids = []
    info = dict(mode=mode, f16=False)
    if mode == 'clip':
        c = gen_clip(rng, bbox, [gts], ids)
        defs += c['defs']
        attr = ' clip-path="url(#%s)"' % c['id']
        outside = inside = formula(c['terms'])
        info['f16'] = c['f16']
        info['child_clip'] = c['has_child_clip']
    elif mode == 'mask':
        m = gen_mask(rng, bbox, gts, ids)
        defs += m['defs']
        attr = ' mask="url(#%s)"' % m['id']
        outside = formula(m['outside'])
        inside = formula(m['inside']) if (m['inside'] and (m['kind'] != 'alpha' or True)) else '-'
    elif mode == 'cover':
        # a clip path / white luminance mask that covers everything must leave the content unchanged EVERYWHERE, also where thick
        # caps and joins reach beyond the boxes usvg reports (the layer of the isolated group must be large enough)
        big = '<rect x="-400" y="-400" width="1000" height="1000" fill="#ffffff"/>'
        if rng.below(2):
            defs.append('<clipPath id="cv">%s</clipPath>' % big)
            attr = ' clip-path="url(#cv)"'
            info['cover'] = 'clip path'
        else:
            defs.append('<mask id="cv" maskUnits="userSpaceOnUse" x="-500" y="-500" width="1200" height="1200" mask-type="%s">%s</mask>' % (rng.choice(['luminance', 'alpha']), big))
            attr = ' mask="url(#cv)"'
            info['cover'] = 'white mask'
        outside = '-'
        inside = cov_doc(big, [gts])
    else:
        o = rng.choice([0, 0.1, 0.5, 0.9, 1])
        attr = ' opacity="%s"' % num(o)
        outside = '-'
        inside = cov_doc('<rect x="-1000" y="-1000" width="3000" height="3000" fill="#ffffff"/>', []) if o == 1 else '-'
        info['opacity'] = o
    head = '<svg %s width="160" height="160"><defs>%s</defs>' % (NS, "".join(defs))
    inner_t = '<g%s%s>%s</g>' % (attr, gts_attr, content)
    inner_p = '<g%s>%s</g>' % (gts_attr, content)
    if mode in ('clip', 'mask', 'cover') and rng.below(4) == 0:
        # NESTED isolation: the clipped / masked group sits inside another isolated group whose layer starts 1.5 .. 3 canvas sizes outside
        # the canvas (a small shape far away stretches it); the far shape is never visible, the inner content is inside the canvas
        k = rng.choice([1.5, 2, 2.5, 3])
        far = rng.choice([(-160 * k, 60), (60, -160 * k), (160 * (k + 1) - 20, 60), (60, 160 * (k + 1) - 20), (-160 * k, -160 * k)])
        iso = rng.choice([' style="isolation:isolate"', ' opacity="0.999"', ' opacity="0.5"', ' clip-path="url(#farclip)"', ' mask="url(#farmask)"'])
        fardefs = ('<clipPath id="farclip"><rect x="-2000" y="-2000" width="4500" height="4500"/></clipPath>'
                   '<mask id="farmask" maskUnits="userSpaceOnUse" x="-2000" y="-2000" width="4500" height="4500"><rect x="-2000" y="-2000" width="4500" height="4500" fill="#fff"/></mask>')
        head = head.replace('</defs>', fardefs + '</defs>')
        wrap = '<g%s><rect x="%s" y="%s" width="12" height="12" fill="#123456"/>%%s</g>' % (iso, num(far[0]), num(far[1]))
        inner_t, inner_p = wrap % inner_t, wrap % inner_p
        info['nested_far'] = '%s layer offset %s' % (iso.strip(), far)
    info.update(doc=head + inner_t + '</svg>', plain=head + inner_p + '</svg>', ts=root, size=size, outside=outside, inside=inside)
    return info


def payload(c):
    ts = ",".join(repr(float(v)) for v in c['ts'])
    return "-\t%s\t%s\t%s\t%d\t%d\t%s\t%s" % (c['doc'], c['plain'], ts, c['size'], c['size'], c['outside'], c['inside'])


# corpus wrappers: unit-square shapes, scaled by the harness to the document size
def gen_corpus_wrapper(rng):
    k = rng.below(6)
    box = (0.0, 0.0, 1.0, 1.0)
    if k <= 2:
        shapes = "".join(gen_shape(rng, box, True) for _ in range(1 + rng.below(2)))
        nested = ''
        f = [shapes]
        defs = ''
        if rng.below(4) == 0:
            n = gen_shape(rng, box, True)
            defs += '<clipPath id="vfc2" transform="{S}">%s</clipPath>' % n
            nested = ' clip-path="url(#vfc2)"'
            f.append(n)
        defs += '<clipPath id="vfc" transform="{S}"%s>%s</clipPath>' % (nested, shapes)
        fo = US.join(f)
        return dict(kind='clip', defs='<defs>%s</defs>' % defs, attr='clip-path="url(#vfc)"', outside=fo, inside=fo)
    if k <= 4:
        white = rng.below(2) == 0
        sh = gen_shape(rng, box, True)
        geo = sh
        if not white:
            sh = sh.replace('fill="#ffffff"', 'fill="%s" fill-opacity="0.5"' % rng.choice(P.COLORS))
        kind = rng.choice(['luminance', 'alpha'])
        defs = ('<defs><mask id="vfm" maskUnits="userSpaceOnUse" x="-100000" y="-100000" width="300000" height="300000" mask-type="%s">'
                '<g transform="{S}">%s</g></mask></defs>' % (kind, sh))
        return dict(kind='mask', defs=defs, attr='mask="url(#vfm)"', outside=geo, inside=geo if white else '-')
    o = rng.choice([0, 0.3, 0.7, 1])
    return dict(kind='opacity', defs='', attr='opacity="%s"' % num(o), outside='-', inside='<rect x="-9" y="-9" width="19" height="19" fill="#ffffff"/>' if o == 1 else '-')


# ------------------------------------------------------------------------------------------------
# K2 clip-algebra: pixel-aligned clip trees
# ------------------------------------------------------------------------------------------------
N = 4


def gen_tree(rng, depth=0):
    """clip tree over the N x N pixel grid: ('clip', kids, nested) with kids ('path', rect) | ('group', rect, clip)"""
    kids = []
    for _ in range(1 + rng.below(3)):
        x, y = rng.below(N), rng.below(N)
        r = (x, y, 1 + rng.below(N - x), 1 + rng.below(N - y))
        if depth < 2 and rng.below(3) == 0:
            kids.append(('group', r, gen_tree(rng, depth + 1)))
        else:
            kids.append(('path', r))
    nested = gen_tree(rng, depth + 1) if (depth < 2 and rng.below(4) == 0) else None
    return ('clip', kids, nested)


def tree_xml(t, ids, defs):
    cid = 'k%d' % len(ids)
    ids.append(cid)
    kx = ''
    for k in t[1]:
        r = k[1]
        own = ''
        if k[0] == 'group':
            own = ' clip-path="url(#%s)"' % tree_xml(k[2], ids, defs)
        kx += '<rect x="%d" y="%d" width="%d" height="%d" shape-rendering="crispEdges"%s/>' % (r[0], r[1], r[2], r[3], own)
    nested = ' clip-path="url(#%s)"' % tree_xml(t[2], ids, defs) if t[2] else ''
    defs.append('<clipPath id="%s"%s>%s</clipPath>' % (cid, nested, kx))
    return cid


def tree_coq(t, x, y):
    def cov(r):
        return '1' if (r[0] <= x < r[0] + r[2] and r[1] <= y < r[1] + r[3]) else '0'
    ks = []
    for k in t[1]:
        if k[0] == 'path':
            ks.append("CPath %s" % cov(k[1]))
        else:
            ks.append("CGroup [CPath %s] %s" % (cov(k[1]), tree_coq(k[2], x, y)))
    return "(CClip [%s] %s)" % ("; ".join(ks), "(Some %s)" % tree_coq(t[2], x, y) if t[2] else "None")


def tree_has_overlap_group(t):
    """a child with its own clip-path that is not the first child (doc-level F16 class)"""
    for i, k in enumerate(t[1]):
        if k[0] == 'group' and (i > 0 or tree_has_overlap_group(k[2])):
            return True
    return bool(t[2] and tree_has_overlap_group(t[2]))


def classify(ctx, c, r, stats, label):
    bad = []
    if 'panic' in r or 'crash' in r:
        stats['panic'] = stats.get('panic', 0) + 1
        return bad
    if 'skip' in r:
        stats['skipped'] = stats.get('skipped', 0) + 1
        return bad
    if 'error' in r:
        stats['error'] = stats.get('error', 0) + 1
        stats.setdefault('errors', [])
        if len(stats['errors']) < 3:
            stats['errors'].append(r['error'][:160])
        return bad
    ctx.note_case(label, nontrivial=r['nonblank'] > 0 and r['changed'] > 0)
    if r['nonblank'] > 0 and r['changed'] > 0:
        stats['nontrivial'] = stats.get('nontrivial', 0) + 1
    stats['inc_max'] = max(stats.get('inc_max', 0), r['inc']['max'])
    stats['in_max'] = max(stats.get('in_max', 0), r['in']['max'])
    stats['in_edge_max'] = max(stats.get('in_edge_max', 0), r['in']['max_edge'])
    if r['inc']['n'] > 0:
        bad.append(('increase', "%s INCREASES alpha on %d smooth pixels, first (x,y,treated,plain)=%s" % (c['what'], r['inc']['n'], r['inc']['at'])))
    stats['out_faint_max'] = max(stats.get('out_faint_max', 0), r['out']['faint'])
    if r['out']['bad'] > 0 or r['out']['faint'] > OUT_FAINT_MAX:
        bad.append(('outside', "%s leaves %d painted pixels (and %d faint ones, alpha <= 16) outside the %s (grown by one pixel), first (x,y,alpha)=%s"
                    % (c['what'], r['out']['bad'], r['out']['faint'], 'clip geometry' if c['kind'] == 'clip' else 'mask region / content',
                       r['out']['at'] or r['out']['faint_at'])))
    m = r['in']
    if m['bad'] > 0:
        bad.append(('inside', "%s changes %d smooth pixels that lie at least one pixel inside (max delta %d), first (x,y,delta,treated,plain)=%s"
                    % (c['what'], m['bad'], m['max'], m['at'])))
    elif c.get('mode') == 'corpus' and '/filters/' in c['doc']:
        # corpus documents that contain filters: the device box of an inner filter region is floor/ceil-ed relative to the layer the clip
        # introduces; filters/feFlood/complex-transform.svg has a region edge on an integer up to f32 rounding and one row of edge pixels flips
        # (measured: 99 of 787 edge pixels, max 255; DESIGN 3.1 lists the same file for the root-isolation oracle).  Smooth pixels are still checked.
        pass
    elif m['max_edge'] > EDGE_MAX_DELTA or m['nedge_diff'] > max(EDGE_MIN_COUNT, EDGE_MAX_FRACTION * m['nedge']):
        bad.append(('inside', "%s changes the anti-aliased outlines of the content inside beyond rasteriser noise: %d of %d edge pixels (max %d)"
                    % (c['what'], m['nedge_diff'], m['nedge'], m['max_edge'])))
    return bad



# ------------------------------------------------------------------------------------------------
# round 5: TRANSFORMED scenes.  One big rectangle (larger than the canvas in at least one direction) under a rotation / skew / general
# affine transform that makes it cross canvas edges is the only clipPath child, or the white content of a mask, of an opaque rectangle
# that fills the canvas.  The expected alpha is computed here from the shape and the transform: a pixel whose centre lies at least
# 1.5 px inside the mapped parallelogram must stay 255, one at least 1.5 px outside the line of some edge must be 0; pixels
# nearer to an edge are not judged (-1).  Half of the cases are steered so that the images of two OPPOSITE corners of the rectangle both fall
# off one side of the canvas although the shape covers part of it (what a two-corner bounding-box cull would get wrong); the rest is random.
XS = 48


def _xf_matrix(rng):
    k = rng.below(5)
    if k <= 1:
        ang = rng.choice([30, 45, 60, 120, 135, 150, 210, 225, 315, 17, 73, 101]) if k == 0 else rng.below(360)
        px, py = rng.below(2 * XS) - XS // 2, rng.below(2 * XS) - XS // 2
        c, s_ = math.cos(math.radians(ang)), math.sin(math.radians(ang))
        return "rotate(%d %d %d)" % (ang, px, py), (c, s_, -s_, c, px - c * px + s_ * py, py - s_ * px - c * py)
    if k == 2:
        ang = rng.choice([-60, -45, -30, 30, 45, 60])
        t = math.tan(math.radians(ang))
        return ("skewX(%d)" % ang, (1, 0, t, 1, 0, 0)) if rng.below(2) else ("skewY(%d)" % ang, (1, t, 0, 1, 0, 0))
    if k == 3:
        ang = rng.below(360)
        c, s_ = math.cos(math.radians(ang)), math.sin(math.radians(ang))
        sx, sy = rng.choice([0.5, 1, 1.5, 2]), rng.choice([0.5, 1, 1.5])
        tx, ty = rng.below(XS), rng.below(XS)
        return "translate(%d %d) rotate(%d) scale(%s %s)" % (tx, ty, ang, sx, sy), (c * sx, s_ * sx, -s_ * sy, c * sy, tx, ty)
    m = [rng.choice([-1.5, -1, -0.5, 0.5, 1, 1.5]), rng.choice([-1, -0.5, 0, 0.5, 1]), rng.choice([-1, -0.5, 0, 0.5, 1]), rng.choice([-1.5, -1, 0.5, 1, 1.5]),
         rng.below(XS), rng.below(XS)]
    if abs(m[0] * m[3] - m[1] * m[2]) < 0.25:
        m[1] = 0
    return "matrix(%s)" % " ".join(P.num(v) for v in m), tuple(m)


def gen_xform_scene(rng, steer):
    for _ in range(200):
        ttext, m = _xf_matrix(rng)
        w, h = 30 + rng.below(220), 30 + rng.below(220)
        x, y = rng.below(120) - 90, rng.below(120) - 90
        mp = lambda px, py: (m[0] * px + m[2] * py + m[4], m[1] * px + m[3] * py + m[5])
        poly = [mp(x, y), mp(x + w, y), mp(x + w, y + h), mp(x, y + h)]
        area = sum(poly[i][0] * poly[(i + 1) % 4][1] - poly[(i + 1) % 4][0] * poly[i][1] for i in range(4))
        if area < 0:
            poly.reverse()
        exp = []
        for j in range(XS):
            for i in range(XS):
                cx, cy = i + 0.5, j + 0.5
                ds = []
                for e in range(4):
                    (ax, ay), (bx, by) = poly[e], poly[(e + 1) % 4]
                    ln = math.hypot(bx - ax, by - ay)
                    ds.append(((bx - ax) * (cy - ay) - (by - ay) * (cx - ax)) / ln if ln > 1e-9 else -1e9)
                d = min(ds)
                exp.append(255 if d >= 1.5 else 0 if d <= -1.5 else -1)
        n_in = exp.count(255)
        if n_in < 40:
            continue
        a, c = poly[0], poly[2]       # images of two opposite corners (either diagonal: the same for the other pair by symmetry of the test below)
        def off(p, q):
            return (max(p[0], q[0]) < -1 or max(p[1], q[1]) < -1 or min(p[0], q[0]) > XS + 1 or min(p[1], q[1]) > XS + 1)
        diag_off = off(mp(x, y), mp(x + w, y + h)) or off(mp(x + w, y), mp(x, y + h))
        if steer and not diag_off:
            continue
        edges = sum(1 for k_, v in enumerate(exp) if v == 255 and (k_ % XS in (0, XS - 1) or k_ // XS in (0, XS - 1)))
        kind = rng.below(4)
        fill = rng.choice(['#ffffff', '#ff0000', '#123456'])
        shape = '<rect x="%d" y="%d" width="%d" height="%d"%%s/>' % (x, y, w, h)
        tags = ['diag-corners-off-canvas'] if diag_off else []
        if kind == 0:
            defs = '<clipPath id="c">%s</clipPath>' % (shape % (' transform="%s"' % ttext))
            attr = 'clip-path="url(#c)"'
            tags.append('clip-child-transform')
        elif kind == 1:
            defs = '<clipPath id="c" transform="%s">%s</clipPath>' % (ttext, shape % '')
            attr = 'clip-path="url(#c)"'
            tags.append('clippath-transform')
        elif kind == 2:
            defs = ('<mask id="m" maskUnits="userSpaceOnUse" x="-500" y="-500" width="1000" height="1000">%s</mask>'
                    % (shape % (' fill="#ffffff" transform="%s"' % ttext)))
            attr = 'mask="url(#m)"'
            tags.append('mask-content-transform')
        else:
            defs = ('<mask id="m" maskUnits="userSpaceOnUse" x="-500" y="-500" width="1000" height="1000"><g transform="%s">%s</g></mask>'
                    % (ttext, shape % ' fill="#ffffff"'))
            attr = 'mask="url(#m)"'
            tags.append('mask-group-transform')
        tags.append(ttext.split('(')[0])
        if edges:
            tags.append('inside-touches-canvas-edge')
        doc = ('<svg %s width="%d" height="%d"><defs>%s</defs><rect width="%d" height="%d" fill="%s" %s/></svg>' % (P.NS, XS, XS, defs, XS, XS, fill, attr))
        return dict(doc=doc, expected=exp, tags=tags)
    return None


# round 5: elements WITHOUT a bounding box (stroked horizontal / vertical lines: zero-area fill box) under userSpaceOnUse masks and clip paths,
# alone or sharing the definition with regular rectangles in either order.  Pixel-aligned (integer coordinates, even stroke widths), so the expected
# alpha is exact: (union of the users' painted rectangles) AND mask region AND white content / clip rectangle, computed from the SOURCE document.
def gen_bboxless_scene(rng):
    rect_of = lambda: (rng.below(XS - 12), rng.below(XS - 12), 4 + rng.below(20), 4 + rng.below(20))
    cx, cy, cw, ch = rng.choice([(0, 0, XS, XS), (-10, -10, 100, 100), rect_of(), (2, 2, XS - 6, XS - 8)])
    use_mask = rng.below(3) != 0
    tags = []
    if use_mask:
        rx, ry, rw, rh = rng.choice([(-20, -20, 200, 200), (0, 0, XS, XS), (4, 6, XS - 10, XS - 12)])
        mt = rng.choice(['', ' mask-type="alpha"', ' style="mask-type:luminance"'])
        cu = rng.choice(['', ' maskContentUnits="userSpaceOnUse"'])
        defs = ('<mask id="d" maskUnits="userSpaceOnUse"%s x="%d" y="%d" width="%d" height="%d"%s><rect x="%d" y="%d" width="%d" height="%d" fill="#ffffff"/></mask>'
                % (cu, rx, ry, rw, rh, mt, cx, cy, cw, ch))
        attr = 'mask="url(#d)"'
        tags.append('mask-userSpaceOnUse')
    else:
        rx, ry, rw, rh = -1000, -1000, 4000, 4000
        defs = '<clipPath id="d"%s><rect x="%d" y="%d" width="%d" height="%d"/></clipPath>' % (rng.choice(['', ' clipPathUnits="userSpaceOnUse"']), cx, cy, cw, ch)
        attr = 'clip-path="url(#d)"'
        tags.append('clip-userSpaceOnUse')
    kinds = rng.choice([['line'], ['line', 'rect'], ['rect', 'line'], ['line', 'line'], ['rect', 'line', 'rect'], ['line', 'rect', 'line']])
    tags.append("-then-".join(kinds))
    body, painted = '', []
    for kd in kinds:
        col = rng.choice(['#0000ff', '#ff0000', '#00c000', '#000000'])
        if kd == 'rect':
            x, y, w, h = rect_of()
            body += '<rect x="%d" y="%d" width="%d" height="%d" fill="%s" %s/>' % (x, y, w, h, col, attr)
            painted.append((x, y, x + w, y + h))
            continue
        sw = rng.choice([2, 4, 6, 8])
        a0 = rng.below(XS - 8)
        a1 = a0 + 4 + rng.below(XS - a0 - 4)
        c = sw // 2 + rng.below(XS - sw)
        horiz = rng.below(2) == 0
        form = rng.below(3)
        if form == 0:
            el = '<line x1="%d" y1="%d" x2="%d" y2="%d" stroke="%s" stroke-width="%d" %%s/>' % (((a0, c, a1, c) if horiz else (c, a0, c, a1)) + (col, sw))
        elif form == 1:
            el = '<path d="M %d %d %s %d" fill="none" stroke="%s" stroke-width="%d" %%s/>' % (((a0, c, 'H', a1) if horiz else (c, a0, 'V', a1)) + (col, sw))
        else:
            el = '<polyline points="%d,%d %d,%d" stroke="%s" stroke-width="%d" %%s/>' % (((a0, c, a1, c) if horiz else (c, a0, c, a1)) + (col, sw))
        if rng.below(4) == 0:
            body += '<g %s>%s</g>' % (attr, el % '')
            tags.append('line-in-group')
        else:
            body += el % attr
        painted.append((a0, c - sw // 2, a1, c + sw // 2) if horiz else (c - sw // 2, a0, c + sw // 2, a1))
    tags.append('bbox-less-user')
    exp = []
    for j in range(XS):
        for i in range(XS):
            on = any(l <= i < r and t <= j < b for l, t, r, b in painted) and rx <= i < rx + rw and ry <= j < ry + rh and cx <= i < cx + cw and cy <= j < cy + ch
            exp.append(255 if on else 0)
    doc = '<svg %s width="%d" height="%d"><defs>%s</defs>%s</svg>' % (P.NS, XS, XS, defs, body)
    return dict(doc=doc, expected=exp, tags=tags, what='bbox-less users of a userSpaceOnUse %s' % ('mask' if use_mask else 'clip path'))


def run(ctx):
    rng = ctx.rng
    quick = ctx.tier == 'quick'
    ctx.cov['trusted_base'] = vlib.BASE_TRUSTED + [
        "tiny-skia (path rasteriser, Clear / SourceOver / Xor blending of anti-aliased fills, Mask::from_pixmap, apply_mask, draw_pixmap opacity): "
        "unmodelled; its u8 apply_mask scaling, luminance coefficient (exact binary32) and Xor alpha are hand-modelled and compared exhaustively",
        "per-pixel coverage abstraction: a clipPath child is seen by a pixel as a coverage in [0,1] (exact rationals); validated on pixel-aligned scenes",
        "tools/gen_pixel.py (blend modes, buffer initialisation, call order of clip.rs / mask.rs / render_group)",
        "the independent coverage of the system oracle is tiny-skia's ordinary (SourceOver) path fill of the same geometry",
    ]
    ctx.assumptions = ["coverages and opacities are numbers in [0,1]",
                       "inside-unchanged holds outside the known class xor_hazard (F16: clip-path child overlapping an earlier child)"]
    broken = ctx.translate()
    res = ctx.coq_props()
    proof_ok = res['ok'] and not broken
    if not quick and proof_ok and hasattr(ctx, 'coqchk'):
        t_chk = time.time()
        if not ctx.coqchk():
            proof_ok = False
            res['audit'].append('coqchk rejected the compiled closure of Props/%s.vo' % ctx.pid)
        ctx.log("coqchk took %.0fs" % (time.time() - t_chk))
    binp, blog = ctx.harness('release')
    if binp is None:
        ctx.violation("harness does not build against the current tree (correspondence cannot run)", dict(build_log=blog[-2000:]), found_input=False)
        return
    ok, log, failed = ctx.coq_build(['Model/ClipChk.v', 'Model/ClipMask.v', 'Model/Corr.v'])
    model_ok = ok
    if not ok:
        ctx.log("model files do not compile: %s\n%s" % (failed, log[-1500:]))

    # ============================================================== system oracle (background)
    import concurrent.futures as cf
    t0 = time.time()
    n_clip, n_mask, n_op = (700, 350, 60) if quick else (7000, 3500, 400)
    cases = [gen_case(rng, 'clip') for _ in range(n_clip)] + [gen_case(rng, 'mask') for _ in range(n_mask)] + [gen_case(rng, 'opacity') for _ in range(n_op)]
    n_sh = 120 if quick else 1200
    cases += [gen_case(rng, 'cover') for _ in range(150 if quick else 1500)]
    cases += [gen_shared_case(rng, 'clip') for _ in range(n_sh // 3)] + [gen_shared_case(rng, 'mask') for _ in range(n_sh - n_sh // 3)]
    pool = cf.ThreadPoolExecutor(max_workers=2)
    fut_sys = pool.submit(ctx.rvh_batch, binp, 'c15-sys', [payload(c) for c in cases], (), 60)
    corpus = vlib.corpus_files()
    if quick:
        corpus = [p for i, p in enumerate(corpus) if i % 3 == ctx.seed % 3]
    wrappers = []
    for p in corpus:
        for _ in range(1 if quick else 3):
            wrappers.append((p, gen_corpus_wrapper(rng)))
    fut_corpus = pool.submit(ctx.rvh_batch, binp, 'c15-corpus',
                             ["-\t@%s\t%s\t%s\t%s\t%s" % (p, w['defs'], w['attr'], w['outside'], w['inside']) for p, w in wrappers], (), 60)

    # ============================================================== K1 tables
    evals = []
    tabs = {}
    if model_ok:
        outs = ctx.rvh_batch(binp, 'c16-blend', ['mask', 'xor:0', 'xor:255']) + ctx.rvh_batch(binp, 'c15-table', ['lum', 'alpha', 'lumrgb:%d' % rng.below(1 << 30)])
        for nme, o in zip(['mask', 'xor0', 'xor255', 'lum', 'alpha', 'lumrgb'], outs):
            r = P.jload(o)
            if 't' not in r:
                ctx.violation("tiny-skia table %s could not be computed: %s" % (nme, str(r)[:200]), dict(op='c15-table', table=nme))
                continue
            tabs[nme] = r
        # second pass: group opacity (draw_pixmap with PixmapPaint.opacity onto a transparent pixmap): all 256 x 256 (channel, opacity byte)
        # pairs in four parallel evaluations + 8 random f32 opacities, against Model/ClipMask.v opacity_u8
        import struct as _st
        ofs = [rng.below(1 << 24) / float(1 << 24) for _ in range(8)]
        obits = [_st.unpack('>I', _st.pack('>f', o))[0] for o in ofs]
        oouts = ctx.rvh_batch(binp, 'c15-table', ['opacity:%d:%d' % (q * 64, q * 64 + 64) for q in range(4)] + ['opacityf:%d' % b for b in obits])
        orows = [P.jload(o) for o in oouts]
        if any('t' not in r for r in orows):
            ctx.violation("tiny-skia opacity table could not be computed: %s" % str([r for r in orows if 't' not in r][:1])[:200], dict(op='c15-table', table='opacity'))
        else:
            for q in range(4):
                evals.append(('k1_opacity_%d' % q, "Local Open Scope Z_scope.\nDefinition impl : list Z := %s.\nEval vm_compute in (first5 (diff_indices (opacity_rows %d 64%%nat) impl)).\n"
                              % (P.zl(orows[q]['t']), q * 64), IMPORTS))
            evals.append(('k1_opacityf', "Local Open Scope Z_scope.\nEval vm_compute in [%s].\n" % ";\n".join(
                "(verdict (diff_indices (opacity_row_f %s) %s))" % (P.coq_f32(o), P.zl(r['t'])) for o, r in zip(ofs, orows[4:])), IMPORTS))
        small = []
        labels = []
        if 'mask' in tabs:
            small.append("(verdict (diff_indices mask_table %s))" % P.zl(tabs['mask']['t']))
            labels.append('mask')
        for nme, d in (('xor0', 0), ('xor255', 255)):
            if nme in tabs:
                small.append("(verdict (diff_indices (xor_alpha_table %d) %s))" % (d, P.zl(tabs[nme]['ta'])))
                labels.append(nme)
        if 'alpha' in tabs:
            small.append("(verdict (diff_indices alpha_table %s))" % P.zl(tabs['alpha']['t']))
            labels.append('alpha')
        if 'lumrgb' in tabs:
            small.append("(verdict (diff_indices (lum_of_rgba %s) %s))"
                         % (P.zl(tabs['lumrgb']['src']), P.zl(tabs['lumrgb']['t'])))
            labels.append('lumrgb')
        evals.append(('k1_small', "Local Open Scope Z_scope.\nEval vm_compute in [%s].\n" % ";\n".join(small), IMPORTS))
        if 'lum' in tabs:
            rows = list(range(256)) if not quick else sorted(set([0, 1, 2, 127, 128, 254, 255] + [rng.below(256) for _ in range(25)]))
            impl = [v for a in rows for v in tabs['lum']['t'][a * 256:(a + 1) * 256]]
            evals.append(('k1_lum', "Local Open Scope Z_scope.\nDefinition rows : list Z := %s.\nDefinition impl : list Z := %s.\n"
                          "Eval vm_compute in (first5 (diff_indices (lum_rows rows) impl)).\n"
                          % (P.zl(rows), P.zl(impl)), IMPORTS))

    # ============================================================== K2 clip-algebra
    trees = []
    docs = []
    for _ in range(60 if quick else 500):
        t = gen_tree(rng)
        ids, defs = [], []
        top = tree_xml(t, ids, defs)
        docs.append('<svg %s width="%d" height="%d"><defs>%s</defs><rect width="%d" height="%d" fill="#336699" clip-path="url(#%s)"/></svg>'
                    % (NS, N, N, "".join(defs), N, N, top))
        trees.append(t)
    pouts = ctx.rvh_batch(binp, 'c15-pix', ["-\t%s\t%d\t%d" % (d, N, N) for d in docs]) if model_ok else []
    items = []
    tidx = []
    n_f16 = 0
    for i, (t, o) in enumerate(zip(trees, pouts)):
        r = P.jload(o)
        if 'a' not in r:
            ctx.violation("clip-algebra scene failed to render: %s" % str(r)[:200], dict(op='c15-pix', doc=docs[i]))
            continue
        ctx.note_case("clip-algebra|" + docs[i])
        if tree_has_overlap_group(t):
            n_f16 += 1
        px = ["(Qeq_bool (eval_clip %s) (%d # 255))" % (tree_coq(t, x, y), r['a'][y * N + x]) for y in range(N) for x in range(N)]
        items.append("(verdict (bad_from (fun b : bool => b) [%s] 0%%N))" % "; ".join(px))
        tidx.append(i)
    if items:
        evals.append(('k2_clip', "From RV Require Import Model.Corr.\nLocal Open Scope Q_scope.\nEval vm_compute in [%s].\n" % ";\n".join(items), IMPORTS))
    ctx.cov['clip_algebra_scenes_with_child_clip_after_sibling'] = n_f16

    # ============================================================== exact scenes (expected alpha from the source document's SVG semantics)
    scenes = [gen_exact_scene(rng) for _ in range(500 if quick else 6000)]
    xouts = ctx.rvh_batch(binp, 'c15-pix', ["-\t%s\t%d\t%d" % (sc['doc'], EX, EX) for sc in scenes])
    exact_bad = []
    tag_hist = {}
    for sc, o in zip(scenes, xouts):
        r = P.jload(o)
        for t in sc['tags']:
            tag_hist[t] = tag_hist.get(t, 0) + 1
        if 'a' not in r:
            if 'error' in r:
                exact_bad.append((sc, "exact scene failed to parse / render: %s" % str(r)[:160], None))
            continue
        ctx.note_case("exact|" + sc['doc'], nontrivial=any(sc['expected']) and not all(sc['expected']))
        diff = [i for i, (a, e) in enumerate(zip(r['a'], sc['expected'])) if a != e]
        if diff:
            i = diff[0]
            sc['only_removed'] = all(r['a'][j] == 0 for j in diff)
            exact_bad.append((sc, "pixel-aligned scene [%s]: %d of %d pixels differ from the alpha that the SVG clipping / masking rules give for the source "
                                  "document, first pixel (%d,%d): rendered %d, expected %d" % ("+".join(sc['tags']), len(diff), EX * EX, i % EX, i // EX, r['a'][i], sc['expected'][i]), i))
    ctx.cov['exact_scenes'] = dict(n=len(scenes), features=tag_hist)
    exact_bad.sort(key=lambda b: len(b[0]['doc']))
    shown = 0
    f16_exact = 0
    for sc, text, i in exact_bad:
        rep = dict(op='c15-exact', doc=sc['doc'], expected=sc['expected'], pixel=i, features=sc['tags'])
        if i is not None and 'F16-child-clip-after-sibling' in sc['tags'] and sc.get('only_removed'):
            # KNOWN class clip-child-overlap-xor: a clipPath child with its own clip-path follows a sibling and paint is only REMOVED
            f16_exact += 1
            ctx.known_or_violation('clip-child-overlap-xor', text, rep)
        elif shown < 3:
            shown += 1
            ctx.violation(text, rep)
    ctx.cov['exact_scenes']['known_F16_hits'] = f16_exact

    # ============================================================== round 5: transformed clip children / mask content crossing the canvas edges
    xf = [sc for sc in (gen_xform_scene(rng, j % 2 == 0) for j in range(120 if quick else 1200)) if sc]
    xf += [gen_bboxless_scene(rng) for _ in range(80 if quick else 800)]
    xfouts = ctx.rvh_batch(binp, 'c15-pix', ["-\t%s\t%d\t%d" % (sc['doc'], XS, XS) for sc in xf])
    xf_hist = {}
    xf_shown = 0
    for sc, o in zip(xf, xfouts):
        r = P.jload(o)
        for t in sc['tags']:
            xf_hist[t] = xf_hist.get(t, 0) + 1
        if 'a' not in r:
            if xf_shown < 3:
                xf_shown += 1
                ctx.violation("transformed scene failed to parse / render: %s" % str(r)[:160], dict(op='c15-xform', doc=sc['doc'], expected=sc['expected'], features=sc['tags']))
            continue
        ctx.note_case("xform|" + sc['doc'], nontrivial=255 in sc['expected'] and 0 in sc['expected'])
        lost = [i for i, (a, e) in enumerate(zip(r['a'], sc['expected'])) if e == 255 and a != 255]
        extra = [i for i, (a, e) in enumerate(zip(r['a'], sc['expected'])) if e == 0 and a != 0]
        if (lost or extra) and xf_shown < 3:
            xf_shown += 1
            i = (lost or extra)[0]
            ctx.violation("%s [%s]: %d pixels that the source document paints inside the clip / white mask (at least 1.5 px inside for transformed shapes) lost paint, "
                          "%d pixels outside kept paint; first pixel (%d,%d): rendered alpha %d, expected %d"
                          % (sc.get('what', 'transformed %s' % ('clip' if 'clip-path=' in sc['doc'] else 'mask')), "+".join(sc['tags']), len(lost), len(extra),
                                                                                  i % XS, i // XS, r['a'][i], sc['expected'][i]),
                          dict(op='c15-xform', doc=sc['doc'], expected=sc['expected'], pixel=i, features=sc['tags']))
    ctx.cov['transformed_scenes'] = dict(n=len(xf), features=xf_hist)

    results = P.run_evals(ctx, evals) if evals else {}
    n_corr = 0
    for name, (rc, out) in sorted(results.items()):
        lst = ctx.parse_N_list(out) if rc == 0 else None
        if lst is None:
            model_ok = False
            ctx.log("model evaluation %s failed:\n%s" % (name, out[-1200:]))
            continue
        if name == 'k1_small':
            n_corr += 65536 * 4 + 4096
            for lab, v in zip(labels, lst):
                if v:
                    ctx.violation("tiny-skia table %s disagrees with the model at index %d" % (lab, v - 1), dict(op='c15-table', table=lab, index=v - 1))
        elif name.startswith('k1_opacity_'):
            n_corr += 16384
            if lst:
                q = int(name.rsplit('_', 1)[1])
                i = lst[0]
                ctx.violation("group opacity: tiny-skia draw_pixmap with PixmapPaint.opacity = %d/255 maps the premultiplied channel %d to %s, the binary32 model "
                              "(C15_opacity_u8) says otherwise" % (q * 64 + i // 256, i % 256, orows[q]['t'][i]),
                              dict(op='c15-table', table='opacity:%d:%d' % (q * 64, q * 64 + 64), index=i))
        elif name == 'k1_opacityf':
            n_corr += 256 * 8
            for o, b, v in zip(ofs, obits, lst):
                if v:
                    ctx.violation("group opacity: tiny-skia draw_pixmap with PixmapPaint.opacity = %r disagrees with the binary32 model at channel %d" % (o, v - 1),
                                  dict(op='c15-table', table='opacityf:%d' % b, index=v - 1))
        elif name == 'k1_lum':
            n_corr += len(impl)
            if lst:
                i = lst[0]
                ctx.violation("Mask::from_pixmap(Luminance) disagrees with the binary32 model for grey pixel index %d of the sampled rows" % i,
                              dict(op='c15-table', table='lum', index=i))
        elif name == 'k2_clip':
            n_corr += len(lst) * N * N
            shown = 0
            for i, v in zip(tidx, lst):
                if v and shown < 3:
                    shown += 1
                    ctx.violation("clip buffer model and implementation disagree at pixel %d of a %dx%d pixel-aligned scene" % (v - 1, N, N),
                                  dict(op='c15-pix', doc=docs[i], pixel=v - 1, tree=str(trees[i])))
    ctx.cov['correspondence_cases'] = n_corr
    ctx.cov['exhaustive_tables'] = ['tiny-skia apply_mask 65536', 'Xor alpha 2 x 65536', 'Mask::from_pixmap alpha 65536',
                                    'Mask::from_pixmap luminance %s' % ('65536' if not quick else '32 alpha rows x 256 + 4096 random rgb pixels')]

    # ============================================================== system oracle verdicts
    souts = fut_sys.result()
    couts = fut_corpus.result()
    ctx.log("system oracle measured (%d generated, %d corpus wrappers) in %.0fs" % (len(cases), len(wrappers), time.time() - t0))
    stats = {}
    cstats = {}
    bad_all = []
    f16_hits = 0
    for c, o in zip(cases, souts):
        r = P.jload(o)
        c['kind'] = c['mode']
        c['what'] = {'clip': 'the clip path', 'mask': 'the mask', 'opacity': 'group opacity %s' % c.get('opacity'),
                     'cover': 'an all-covering %s around thick open strokes' % c.get('cover')}[c['mode']]
        if c.get('nested_far'):
            c['what'] += ' nested in an isolated group whose layer starts far outside the canvas (%s)' % c['nested_far']
        if c.get('shared'):
            c['what'] += ' shared by several elements with different boxes (%s)' % c['units']
        for kind, text in classify(ctx, c, r, stats, "%s|%s" % (c['mode'], c['doc'])):
            # KNOWN class clip-child-overlap-xor (Coq xor_hazard): the clip path has a child with its own clip-path that follows another
            # child, the clause is `inside unchanged`, and paint was only REMOVED at the first offending pixel
            at = r.get('in', {}).get('at') if isinstance(r, dict) else None
            removed = (not at) or (isinstance(at[3], list) and at[3][3] <= at[4][3])      # edge-only damage has no first smooth offender
            if kind == 'inside' and c.get('f16') and removed:
                f16_hits += 1
                bad_all.append(('inside-known', text, c))
            else:
                bad_all.append((kind, text, c))
    for (p, w), o in zip(wrappers, couts):
        r = P.jload(o)
        c = dict(kind=w['kind'], what="the generated %s around %s" % (w['kind'], os.path.relpath(p, vlib.CORPUS)), doc='@' + p, wrapper=w, mode='corpus', f16=False)
        for kind, text in classify(ctx, c, r, cstats, "corpus|%s|%s" % (p, w['defs'] + w['attr'])):
            bad_all.append((kind, text, c))
    ctx.cov['system_cases'] = dict(generated=len(cases), corpus_wrappers=len(wrappers), generated_stats=stats, corpus_stats=cstats)
    ctx.cov['known_class_hits'] = {'clip-child-overlap-xor': f16_hits}
    by = {}
    for kind, text, c in bad_all:
        by.setdefault(kind, []).append((text, c))
    for kind, lst in by.items():
        lst.sort(key=lambda tc: len(tc[1]['doc']))
        for text, c in lst[:2]:
            rep = dict(op='c15-sys' if c['mode'] != 'corpus' else 'c15-corpus', doc=c['doc'], clause=kind)
            if c['mode'] == 'corpus':
                rep['wrapper'] = c['wrapper']
            else:
                rep.update(plain=c['plain'], ts=list(c['ts']), size=c['size'], outside=c['outside'], inside=c['inside'])
            if kind == 'inside-known':
                ctx.known_or_violation('clip-child-overlap-xor', text, rep)
            else:
                ctx.violation(text, rep)
    # the F16 witness is replayed on every run
    wit = ('<svg %s width="100" height="100"><clipPath id="c2"><rect x="0" y="0" width="100" height="100"/></clipPath>'
           '<clipPath id="c1"><rect x="10" y="10" width="50" height="50"/><rect x="30" y="30" width="50" height="50" clip-path="url(#c2)"/></clipPath>'
           '<rect width="100" height="100" fill="green" clip-path="url(#c1)"/></svg>' % NS)
    wr = P.jload(ctx.rvh_batch(binp, 'c15-pix', ["-\t%s\t100\t100" % wit])[0])
    if 'a' in wr:
        a_overlap, a_first, a_second = wr['a'][45 * 100 + 45], wr['a'][20 * 100 + 20], wr['a'][70 * 100 + 70]
        ctx.cov['known_witness_F16'] = dict(alpha_overlap=a_overlap, alpha_first_only=a_first, alpha_second_only=a_second)
        if a_overlap == 0 and a_first == 255:
            ctx.known_or_violation('clip-child-overlap-xor', "witness: two overlapping clipPath children, the second with clip-path: pixel (45,45) of the overlap is transparent",
                                   dict(op='c15-pix', doc=wit, pixel=[45, 45]))
    for c in cases[:2] + [c for c in cases if c['mode'] == 'mask'][:1]:
        ctx.add_sample(dict(op='c15-sys', mode=c['mode'], doc=c['doc'][:700]))

    if not proof_ok or not model_ok:
        if not ctx.violations:
            ctx.violation("C15 proof obligations / source ties no longer check and neither the correspondence nor the system oracle found a failing input: %s %s"
                          % (res['failed'] + res['audit'], [b['name'] + ': ' + b['err'][:120] for b in broken]),
                          dict(failed_files=res['failed'], audit=res['audit'], broken_ties=broken, log_tail=res['log'][-3000:]), found_input=False)
    ctx.cov['rule'] = ("tables: all byte pairs; clip-algebra: random clip trees (depth <= 3, clip-path on the clipPath and on children) over a 4x4 pixel grid, every pixel; "
                       "system: generated solid/gradient content x clip paths (rect, circle, ellipse, polygon, star, text; nonzero/evenodd; 1..3 children; clip-path on the "
                       "clipPath and on children; both clipPathUnits; transforms on content, clipPath and children) x masks (luminance/alpha, both maskUnits and "
                       "maskContentUnits, white or coloured content, nested) x opacity x root scale 0.5..2 x rotation, plus the Micro-SVG form of corpus files wrapped into "
                       "generated clips / masks / opacity.  Non-trivial = the plain rendering is not blank and the treatment changes it; distinct by document text.")


def replay(ctx, path):
    r = json.load(open(path))
    rp = r.get('replay', {})
    print(json.dumps({k: v for k, v in r.items() if k != 'replay'}, indent=1))
    binp, _ = ctx.harness('release')
    if binp is None:
        print("harness does not build")
        return 1
    if rp.get('op') == 'c15-sys':
        c = dict(doc=rp['doc'], plain=rp['plain'], ts=rp['ts'], size=rp['size'], outside=rp['outside'], inside=rp['inside'])
        print("document:", rp['doc'])
        print("measured:", ctx.rvh_batch(binp, 'c15-sys', [payload(c)])[0])
    elif rp.get('op') == 'c15-corpus':
        w = rp['wrapper']
        print("file:", rp['doc'], "wrapper:", w['defs'], w['attr'])
        print("measured:", ctx.rvh_batch(binp, 'c15-corpus', ["-\t%s\t%s\t%s\t%s\t%s" % (rp['doc'], w['defs'], w['attr'], w['outside'], w['inside'])])[0])
    elif rp.get('op') == 'c15-exact':
        print("document:", rp['doc'])
        out = P.jload(ctx.rvh_batch(binp, 'c15-pix', ["-\t%s\t%d\t%d" % (rp['doc'], EX, EX)])[0])
        a = out.get('a', [])
        print("rendered / expected alpha (# = 255, . = 0, X = rendered 255 but expected 0, o = rendered 0 but expected 255):")
        for y in range(EX):
            print("".join(('#' if e else '.') if (v == e) else ('X' if v else 'o') for v, e in zip(a[y * EX:(y + 1) * EX], rp['expected'][y * EX:(y + 1) * EX])))
    elif rp.get('op') == 'c15-xform':
        print("document:", rp['doc'])
        out = P.jload(ctx.rvh_batch(binp, 'c15-pix', ["-\t%s\t%d\t%d" % (rp['doc'], XS, XS)])[0])
        a = out.get('a', [])
        print("rendered vs expected (# = 255 as expected, . = 0 as expected, ~ = near an edge, not judged, o = LOST paint inside the shape, X = paint outside the shape):")
        for y in range(XS):
            print("".join('~' if e < 0 else ('#' if e else '.') if v == e else ('X' if e == 0 else 'o')
                          for v, e in zip(a[y * XS:(y + 1) * XS], rp['expected'][y * XS:(y + 1) * XS])))
    elif rp.get('op') == 'c15-pix':
        print("document:", rp['doc'])
        out = P.jload(ctx.rvh_batch(binp, 'c15-pix', ["-\t%s\t%d\t%d" % (rp['doc'], 100 if 'width="100"' in rp['doc'] else N, 100 if 'width="100"' in rp['doc'] else N)])[0])
        a = out.get('a', [])
        w = 100 if 'width="100"' in rp['doc'] else N
        if w == N:
            for y in range(N):
                print(" ".join("%3d" % v for v in a[y * N:(y + 1) * N]))
        else:
            print("alpha at (45,45) =", a[45 * 100 + 45], " (20,20) =", a[20 * 100 + 20], " (70,70) =", a[70 * 100 + 70])
    else:
        print(json.dumps(rp, indent=1)[:4000])
    return 0
