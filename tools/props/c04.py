"""C04  Every value in a parsed tree is resolved and valid."""
import concurrent.futures as cf
import json
import math
import os
import re
import struct
import xml.etree.ElementTree as ET
from fractions import Fraction

import vlib

NS = 'xmlns="http://www.w3.org/2000/svg" xmlns:xlink="http://www.w3.org/1999/xlink"'
IMPORTS = ['Model.Base', 'Model.StylePrims', 'Model.Corr', 'Gen.LeafStyle', 'Model.TreeValid', 'Model.Style']
WHY = {1: 'transform not finite', 2: 'region without positive finite size', 3: 'stroke width not positive finite',
       4: 'miter limit below 1 or not finite', 5: 'dash list odd / negative / all zero / not finite',
       6: 'gradient with fewer than two stops', 7: 'stop offset outside [0,1]', 8: 'stop offsets not in non-decreasing order',
       9: 'radial gradient radius not positive finite', 10: 'path with fewer than two segments',
       11: 'path does not start with a move', 12: 'path coordinate not finite',
       13: 'text span not on character boundaries inside its chunk',
       15: 'tree size not positive finite', 16: 'text spans do not tile their chunk',
       17: 'path with two consecutive moves', 18: 'filter primitive parameter out of contract (negative / not finite / out of range)',
       19: 'feConvolveMatrix order / target / kernel size / divisor out of contract'}


# ------------------------------------------------------------------------------------------------
# JSON dump -> Coq term of type TreeValid.vn  (a syntactic transducer: no validity decision is taken here)
# ------------------------------------------------------------------------------------------------
def f32(x):
    return struct.unpack('f', struct.pack('f', x))[0]


def xnum(x):
    """dump number -> xq term.  Finite numbers are handed over as m * 2^(e-1200) with primitive integers."""
    if isinstance(x, str):
        return {'inf': 'PInf', '-inf': 'NInf', 'nan': 'NaN'}[x]
    if x == 0:
        return '(R 0 1200)'
    m, e = math.frexp(abs(x))
    mi = int(m * (1 << 53))
    ee = e - 53
    while mi % 2 == 0:
        mi //= 2
        ee += 1
    return '(%s %d %d)' % ('R' if x > 0 else 'RN', mi, ee + 1200)


def xlist(xs):
    return '[' + ';'.join(xnum(x) for x in xs) + ']'


def xrect(r):
    return '(XR %s %s %s %s)' % tuple(xnum(v) for v in r)


def vlist(items):
    return '[' + ';'.join(items) + ']'


SEGK = {'M': 'SM', 'L': 'SL', 'Q': 'SQ', 'C': 'SC', 'Z': 'SZ'}


def segs_term(segs):
    return '[' + ';'.join('(%s,%s)' % (SEGK[s[0]], xlist(s[1:])) for s in segs) + ']'


def paint_term(p):
    k = p['k']
    if k == 'color':
        return 'VColor'
    d = p['def']
    if k == 'lg':
        return lg_term(d)
    if k == 'rg':
        return rg_term(d)
    return pattern_term(d)


def lg_term(d):
    return '(VLinear %s %s %s)' % (xlist(d['ts']), xlist([d['x1'], d['y1'], d['x2'], d['y2']]),
                                   xlist([s['offset'] for s in d['stops']]))


def rg_term(d):
    return '(VRadial %s %s %s %s)' % (xlist(d['ts']), xlist([d['cx'], d['cy'], d['fx'], d['fy']]), xnum(d['r']),
                                      xlist([s['offset'] for s in d['stops']]))


def pattern_term(d):
    return '(VPattern %s %s [%s])' % (xlist(d['ts']), xrect(d['rect']), node_term(d['root']))


def fill_term(f):
    return '(VFill [%s])' % paint_term(f['paint'])


def stroke_term(s):
    dash = 'None' if s['dasharray'] is None else '(Some %s)' % xlist(s['dasharray'])
    return '(VStroke %s %s %s [%s])' % (xnum(s['width']), xnum(s['miterlimit']), dash, paint_term(s['paint']))


def paints_of(o):
    out = []
    if o.get('fill'):
        out.append(fill_term(o['fill']))
    if o.get('stroke'):
        out.append(stroke_term(o['stroke']))
    return out


def clip_term(c):
    sub = []
    if c.get('clip'):
        sub.append(clip_term(c['clip']))
    sub.append(node_term(c['root']))
    return '(VClip %s %s)' % (xlist(c['ts']), vlist(sub))


def mask_term(m):
    sub = []
    if m.get('mask'):
        sub.append(mask_term(m['mask']))
    sub.append(node_term(m['root']))
    return '(VMask %s %s)' % (xrect(m['rect']), vlist(sub))


def filter_term(f):
    prims = []
    for p in f['primitives']:
        sub = []
        kk = p['kind']
        if kk.get('k') == 'Image':
            sub.append(node_term(kk['root']))
        if kk.get('k') in ('GaussianBlur', 'DropShadow'):
            sub.append('(VFePar 1 %s)' % xlist([kk['sx'], kk['sy']]))
        elif kk.get('k') == 'Morphology':
            sub.append('(VFePar 1 %s)' % xlist([kk['rx'], kk['ry']]))
        elif kk.get('k') == 'Turbulence':
            sub.append('(VFePar 1 %s)' % xlist([kk['fx'], kk['fy']]))
        elif kk.get('k') == 'ConvolveMatrix':
            sub.append('(VFePar 2 %s)' % xlist([kk['cols'], kk['rows'], kk['target_x'], kk['target_y'], len(kk['data']), kk['divisor']]))
        elif kk.get('k') == 'SpecularLighting':
            sub.append('(VFePar 3 %s)' % xlist([kk['specular_exponent']]))
        prims.append('(VPrim %s %s)' % (xrect(p['rect']), vlist(sub)))
    return '(VFilter %s %s)' % (xrect(f['rect']), vlist(prims))


def path_term(n):
    return '(VPath %s %s %s)' % (xlist(n['abs_ts']), vlist(paints_of(n)), segs_term(n['segs']))


def node_term(n):
    t = n['t']
    if t == 'g':
        defs = []
        if n.get('clip'):
            defs.append(clip_term(n['clip']))
        if n.get('mask'):
            defs.append(mask_term(n['mask']))
        for f in n.get('filters', []):
            defs.append(filter_term(f))
        return '(VGroup %s %s %s %s)' % (xlist(n['ts']), xlist(n['abs_ts']), vlist(defs),
                                         vlist([node_term(c) for c in n['children']]))
    if t == 'path':
        return path_term(n)
    if t == 'image':
        sub = [tree_term(n['svg'])] if n.get('svg') else []
        return '(VImage %s %s)' % (xlist(n['abs_ts']), vlist(sub))
    if t == 'text':
        chunks = []
        for c in n['chunks']:
            spans = []
            for s in c['spans']:
                sub = paints_of(s)
                for k in ('underline', 'overline', 'line_through'):
                    d = s['decoration'].get(k)
                    if d:
                        sub += paints_of(d)
                spans.append('(VSpan %d %d %s)' % (s['start'], s['end'], vlist(sub)))
            if isinstance(c['flow'], dict):
                spans.append('(VSegs %s)' % segs_term(c['flow']['segs']))
            text = '[' + ';'.join(str(b) for b in c['text'].encode('utf-8')) + ']'
            chunks.append('(VChunk %s%%N %s)' % (text, vlist(spans)))
        sub = [node_term(n['flattened'])]
        for s in n.get('layouted', []):
            sub += paints_of(s)
            for k in ('underline', 'overline', 'line_through'):
                if s.get(k):
                    sub.append(path_term(s[k]))
        return '(VText %s %s %s)' % (xlist(n['abs_ts']), vlist(chunks), vlist(sub))
    raise ValueError('node kind ' + t)


def tree_term(d):
    sub = [node_term(d['root'])]
    sub += [lg_term(g) for g in d['linear_gradients']]
    sub += [rg_term(g) for g in d['radial_gradients']]
    sub += [pattern_term(p) for p in d['patterns']]
    sub += [clip_term(c) for c in d['clip_paths']]
    sub += [mask_term(m) for m in d['masks']]
    sub += [filter_term(f) for f in d['filters']]
    return '(VTree %s %s)' % (xlist(d['size']), vlist(sub))


# ------------------------------------------------------------------------------------------------
# Coq evaluation helpers (sharded, parallel)
# ------------------------------------------------------------------------------------------------
def parse_nested(out):
    """`= [[]; [3; 8]; ...] : list (list N)` -> [[], [3, 8], ...]"""
    m = re.search(r"=\s*(\[.*\])\s*:\s*list \(list N\)", out, re.S)
    if not m:
        return None
    txt = re.sub(r"%\w+", "", m.group(1)).replace(';', ',')
    txt = re.sub(r"\s+", "", txt)
    try:
        return json.loads(txt)
    except ValueError:
        return None


def coq_bad(ctx, name, typ, chk, items, shard=300, jobs=8):
    """Evaluate `chk` on every item (Coq terms of type `typ`); returns sorted list of failing indices or None."""
    if not items:
        return []
    chunks = [(k, items[i:i + shard]) for k, i in enumerate(range(0, len(items), shard))]

    def one(arg):
        k, its = arg
        body = ("From Coq Require Import Uint63.\nLocal Open Scope Q_scope.\nDefinition cases : list (%s) := [\n%s\n].\n"
                "Eval vm_compute in (bad_indices %s cases).\n" % (typ, ";\n".join(its), chk))
        rc, out = ctx.coq_eval('%s_%d' % (name, k), body, IMPORTS + ['Model.StyleChk'], timeout=900)
        bl = ctx.parse_N_list(out) if rc == 0 else None
        if bl is None:
            ctx.log("model evaluation %s_%d failed:\n%s" % (name, k, out[-1200:]))
            return None
        return [k * shard + b for b in bl]
    with cf.ThreadPoolExecutor(max_workers=jobs) as ex:
        res = list(ex.map(one, chunks))
    if any(r is None for r in res):
        return None
    return sorted(sum(res, []))


def coq_why(ctx, name, terms, jobs=16, max_chars=700000):
    """`why` of every tree term -> list of code lists (aligned with terms) or None."""
    if not terms:
        return []
    order = sorted(range(len(terms)), key=lambda i: -len(terms[i]))
    total = sum(len(t) for t in terms)
    nbins = max(jobs, min(64, total // max_chars + 1))
    bins = [[] for _ in range(nbins)]
    sizes = [0] * nbins
    for i in order:
        j = sizes.index(min(sizes))
        bins[j].append(i)
        sizes[j] += len(terms[i])
    bins = [b for b in bins if b]

    def one(arg):
        k, idxs = arg
        body = "From Coq Require Import Uint63.\nEval vm_compute in (map why [\n%s\n]).\n" % ";\n".join(terms[i] for i in idxs)
        rc, out = ctx.coq_eval('%s_%d' % (name, k), body, ['Model.Base', 'Model.StylePrims', 'Model.TreeValid'], timeout=1200)
        res = parse_nested(out) if rc == 0 else None
        if res is None or len(res) != len(idxs):
            ctx.log("tree evaluation %s_%d failed:\n%s" % (name, k, out[-1200:]))
            return None
        return list(zip(idxs, res))
    with cf.ThreadPoolExecutor(max_workers=jobs) as ex:
        res = list(ex.map(one, list(enumerate(bins))))
    if any(r is None for r in res):
        return None
    out = [None] * len(terms)
    for r in res:
        for i, w in r:
            out[i] = w
    return out


# ------------------------------------------------------------------------------------------------
# written-form scan: no objectBoundingBox, percentage, inherit or unit suffix remains
# ------------------------------------------------------------------------------------------------
NUM_UNIT_RE = re.compile(r"^[-+]?(?:\d+\.?\d*|\.\d+)(?:[eE][-+]?\d+)?(px|pt|pc|mm|cm|in|em|ex|%)$")
SKIP_ATTRS = {'id', 'href', '{http://www.w3.org/1999/xlink}href', 'font-family', 'd', 'result', 'in', 'in2', 'class',
              '{http://www.w3.org/XML/1998/namespace}space'}
UNITS_REQ = {'linearGradient': ['gradientUnits'], 'radialGradient': ['gradientUnits'], 'pattern': ['patternUnits'],
             'mask': ['maskUnits'], 'filter': ['filterUnits']}
UNITS_ANY = ['gradientUnits', 'patternUnits', 'patternContentUnits', 'maskUnits', 'maskContentUnits', 'filterUnits',
             'primitiveUnits', 'clipPathUnits']


def scan_svg(svg):
    """-> list of (kind, element tag, id, attribute, value)."""
    probs = []
    try:
        root = ET.fromstring(svg)
    except ET.ParseError as e:
        return [('unparsable', '', '', '', str(e))]
    for el in root.iter():
        tag = el.tag.split('}')[-1]
        eid = el.get('id', '')
        for a, v in el.attrib.items():
            an = a.split('}')[-1]
            if a in SKIP_ATTRS or an in ('href',):
                continue
            if 'objectBoundingBox' in v:
                probs.append(('objectBoundingBox', tag, eid, an, v))
            if v.strip() == 'inherit':
                probs.append(('inherit', tag, eid, an, v))
            if an == 'style':
                continue
            for tok in re.split(r"[\s,()]+", v):
                if tok and NUM_UNIT_RE.match(tok):
                    probs.append(('unit-or-percent', tag, eid, an, v[:80]))
                    break
        for req in UNITS_REQ.get(tag, []):
            if el.get(req) != 'userSpaceOnUse':
                probs.append(('units-not-user-space', tag, eid, req, str(el.get(req))))
    return probs


# ------------------------------------------------------------------------------------------------
# known class F25: objectBoundingBox paint inside the content of a definition that has >= 2 references
# ------------------------------------------------------------------------------------------------
def paint_uses(dump):
    """Walk the whole dump (not the tree-level definition lists).  Returns (refcount per definition pointer,
    list of (paint id, stack of enclosing definition pointers))."""
    refs = {}
    uses = []

    def ref(kind, o):
        key = (kind, o['ptr'], o.get('id', ''))
        refs[key] = refs.get(key, 0) + 1
        return key

    def paint(p, stack):
        if p['k'] == 'color':
            return
        d = p['def']
        uses.append((d['id'], p['k'], list(stack)))
        if p['k'] == 'pattern':
            key = ref('pattern', d)
            node(d['root'], stack + [key])

    def fs(o, stack):
        if o.get('fill'):
            paint(o['fill']['paint'], stack)
        if o.get('stroke'):
            paint(o['stroke']['paint'], stack)

    def clip(c, stack):
        if c.get('clip'):
            clip(c['clip'], stack)
        node(c['root'], stack)

    def mask(m, stack):
        key = ref('mask', m)
        if m.get('mask'):
            mask(m['mask'], stack + [key])
        node(m['root'], stack + [key])

    def node(n, stack):
        t = n['t']
        if t == 'g':
            if n.get('clip'):
                clip(n['clip'], stack)
            if n.get('mask'):
                mask(n['mask'], stack)
            for f in n.get('filters', []):
                key = ref('filter', f)
                for p in f['primitives']:
                    if p['kind'].get('k') == 'Image':
                        node(p['kind']['root'], stack + [key])
            for c in n['children']:
                node(c, stack)
        elif t == 'path':
            fs(n, stack)
        elif t == 'image':
            pass          # a nested tree is its own document (own post-pass)
        elif t == 'text':
            for c in n['chunks']:
                for s in c['spans']:
                    fs(s, stack)
                    for k in ('underline', 'overline', 'line_through'):
                        d = s['decoration'].get(k)
                        if d:
                            fs(d, stack)
            for s in n.get('layouted', []):
                fs(s, stack)
                for k in ('underline', 'overline', 'line_through'):
                    if s.get(k):
                        fs(s[k], stack)
            node(n['flattened'], stack)
    node(dump['root'], [])
    return refs, uses


def nested_trees(dump):
    """the tree itself and every nested SVG image tree (found anywhere in the dump)"""
    out = []

    def rec(o):
        if isinstance(o, dict):
            if 'root' in o and 'linear_gradients' in o:
                out.append(o)
            for v in o.values():
                rec(v)
        elif isinstance(o, list):
            for v in o:
                rec(v)
    rec(dump)
    return out


def source_def_user_space(doc_text, kind, did):
    """Is the element `did` of the document a pattern / mask / filter written entirely in user-space units?  (Only such a
    definition is converted once and shared by all its users; objectBoundingBox ones are converted per user.)"""
    if not doc_text or not did:
        return False
    m = re.search(r"<(pattern|mask|filter)\b([^>]*\bid=\"%s\"[^>]*)>" % re.escape(did), doc_text)
    if not m or m.group(1) != kind:
        return False
    a = m.group(2)
    need, forbid = {'pattern': ('patternUnits', 'patternContentUnits'), 'mask': ('maskUnits', 'maskContentUnits'),
                    'filter': ('filterUnits', 'primitiveUnits')}[kind]
    return (re.search(r'\b%s="userSpaceOnUse"' % need, a) is not None
            and re.search(r'\b%s="objectBoundingBox"' % forbid, a) is None)


def in_class_shared_def(dump, unresolved_ids, doc_text):
    """Known class `shared-def-nested-obb` [F25], exactly the inputs that fail on HEAD: every use of every unresolved
    paint lies inside the content of a pattern / mask / feImage filter that (a) has at least two references in the
    tree (so Arc::get_mut refused the descent) and (b) is written in user-space units in the document (so it was never
    cloned per user).  A single-reference definition or an objectBoundingBox one that leaves units behind is not in the class."""
    if not unresolved_ids:
        return False
    found = set()
    for tree in nested_trees(dump):
        refs, uses = paint_uses(tree)
        for pid, k, stack in uses:
            if pid in unresolved_ids:
                found.add(pid)
                if not any(refs.get(key, 0) >= 2 and source_def_user_space(doc_text, key[0], key[2]) for key in stack):
                    return False
    return found == set(unresolved_ids)


# ------------------------------------------------------------------------------------------------
# generators for the correspondence operations
# ------------------------------------------------------------------------------------------------
F32_MAX = 3.4028234663852886e38
UNIT_COQ = {'': 'U_None', 'px': 'U_Px', 'em': 'U_Em', 'ex': 'U_Ex', 'in': 'U_In', 'cm': 'U_Cm', 'mm': 'U_Mm',
            'pt': 'U_Pt', 'pc': 'U_Pc', '%': 'U_Percent'}


def to_f32(x):
    """Rust `x as f32` for an f64 x."""
    if x != x or x in (float('inf'), float('-inf')):
        return x
    try:
        return f32(x)
    except OverflowError:
        return float('inf') if x > 0 else float('-inf')


def xnum_f(x):
    """python float (possibly non-finite) -> xq term"""
    if x != x:
        return 'NaN'
    if x == float('inf'):
        return 'PInf'
    if x == float('-inf'):
        return 'NInf'
    return xnum(x)


def parse_len(s):
    m = re.match(r"^\s*([-+]?(?:\d+\.?\d*|\.\d+)(?:[eE][-+]?\d+)?)(px|pt|pc|mm|cm|in|em|ex|%)?\s*$", s)
    return float(m.group(1)), (m.group(2) or '')


def cl_term(aid, s, fs=None):
    n, u = parse_len(s)
    if fs is None:
        return '(CL %s %s %s)' % (aid, xnum_f(to_f32(n)), UNIT_COQ[u])
    return '(CLf %s %s %s %s)' % (xnum_f(to_f32(float(fs))), aid, xnum_f(to_f32(n)), UNIT_COQ[u])


def f32_next(x, k):
    """the f32 k ulps above (k<0: below) a non-negative f32 x"""
    b = struct.unpack('I', struct.pack('f', x))[0] + k
    if b < 0:
        b = 0
    return struct.unpack('f', struct.pack('I', b))[0]


FONT_SIZES = [None, None, None, '-4', '0', '1e30', '3e38', '20', '1e-30', '-1e30']
WIDTHS = [None, '2', '3e38in', '1.5em', '2ex', '1e38em', '0', '-1', '0.001', '0.5in', '1e38in', '1e300', '3mm', '10%', '1.5em', '2ex', '7pt', '1pc', '2cm', '4px',
          '1e-46', '1e-300', '3e38', '1e39', '-0']
MITERS = [None, '1', '0.5', '4', '10.5', '-3', '1e300', '0', '1e-300', '1e39', '3.4e38', '-1e300', '0.999999', '1.0000001']
DASHES = [None, 'none', '2em 1em', '1ex 3', '3e38in 5', '2e38em 1', '5 3e38mm', '1em', '2ex 1em 3', '5', '5 3', '5 3 2', '0 0', '0', '-1 2', '1e38in 5', '1e300 1', '2.5 0', '1e-46 0', '10% 5%',
          '3 0 0', '5,3,2,1', '1e-300', '0 0 0', '2 -0.5', '1e39 1e39', '3e38 3e38', '1em 2ex', '1mm 2cm 3pt', '5 -1e300']


def gen_stroke_case(rng):
    # font-relative units under negative / zero / huge font sizes, values that overflow only after the unit factor
    return dict(w=rng.choice(WIDTHS), m=rng.choice(MITERS), d=rng.choice(DASHES), fs=rng.choice(FONT_SIZES))


def stroke_doc(c):
    a = ''
    if c['w'] is not None:
        a += ' stroke-width="%s"' % c['w']
    if c['m'] is not None:
        a += ' stroke-miterlimit="%s"' % c['m']
    if c['d'] is not None:
        a += ' stroke-dasharray="%s"' % c['d']
    if c.get('fs') is not None:
        a += ' font-size="%s"' % c['fs']
    return '<svg %s width="100" height="100" viewBox="0 0 100 100"><path d="M10 10 L90 90 L10 90" fill="none" stroke="black"%s/></svg>' % (NS, a)


def stroke_in_term(c):
    fs = c.get('fs')
    w = '(Fin 1)' if c['w'] is None else cl_term('A_Other', c['w'], fs)
    m = 'None' if c['m'] is None else '(Some %s)' % xnum_f(to_f32(float(c['m'])))
    if c['d'] is None:
        d = 'None'
    elif c['d'] == 'none':
        d = '(Some [])'
    else:
        d = '(Some [%s])' % ';'.join(cl_term('A_Other', t, fs) for t in re.split(r"[\s,]+", c['d'].strip()))
    return '{| si_width := %s; si_miter := %s; si_dash := %s |}' % (w, m, d)


def first_path(dump):
    found = []

    def node(n):
        if n['t'] == 'path':
            found.append(n)
        elif n['t'] == 'g':
            for c in n['children']:
                node(c)
    node(dump['root'])
    return found[0] if found else None


def stroke_obs_term(dump):
    p = first_path(dump)
    if p is None or not p.get('stroke'):
        return 'None'
    s = p['stroke']
    d = 'None' if s['dasharray'] is None else '(Some %s)' % xlist(s['dasharray'])
    return '(Some (%s, %s, %s))' % (xnum(s['width']), xnum(s['miterlimit']), d)


# ---- gradient stops
def gen_offsets(rng):
    n = rng.choice([0, 1, 2, 2, 3, 3, 4, 5, 6, 8])
    base = [0.0, 0.0, 0.1, 0.25, 0.5, 0.5, 0.7, 1.0, 1.0, -0.5, 1.5, 1e-9, 0.3, 0.9999999, 0.05, 1e300, -1e300]
    out = []
    for _ in range(n):
        r = rng.below(10)
        if out and r < 4:
            prev = out[-1][1]
            v = f32_next(max(0.0, to_f32(prev)), rng.choice([-6, -5, -4, -3, -1, 0, 0, 1, 3, 4, 5, 6])) if 0 <= prev <= 1 else prev
            out.append((repr(float(v)), float(v)))
        elif r < 6:
            v = rng.choice(base)
            out.append((repr(v * 100.0) + '%', (v * 100.0) / 100.0))
        else:
            v = rng.choice(base)
            out.append((repr(v), v))
    return out


RADII = [None, '0', '-1', '5', '1e300', '1e-50', '0.001', '30', '1e-46']


def gen_grad_case(rng):
    radial = rng.below(3) == 0
    return dict(offs=gen_offsets(rng), radial=radial, r=(rng.choice(RADII) if radial else None))


def grad_doc(c):
    stops = ''.join('<stop offset="%s" stop-color="#%02x0000"/>' % (s, 40 + 20 * i) for i, (s, _) in enumerate(c['offs']))
    if c['radial']:
        ra = '' if c['r'] is None else ' r="%s"' % c['r']
        g = '<radialGradient id="g" gradientUnits="userSpaceOnUse" cx="50" cy="50"%s>%s</radialGradient>' % (ra, stops)
    else:
        g = '<linearGradient id="g" gradientUnits="userSpaceOnUse" x2="100">%s</linearGradient>' % stops
    return ('<svg %s width="100" height="100" viewBox="0 0 100 100">%s<path d="M10 10 L90 10 L90 90 Z" fill="url(#g)" '
            'stroke="blue"/></svg>' % (NS, g))


def grad_in_term(c):
    offs = 'None' if not c['offs'] else '(Some [%s])' % ';'.join(xnum_f(to_f32(min(1.0, max(0.0, v)))) for _, v in c['offs'])   # clamped as f64, then narrowed
    if not c['radial']:
        rr = 'None'
    elif c['r'] is None:
        rr = '(Some %s)' % cl_term('A_Other', '50%')
    else:
        rr = '(Some %s)' % cl_term('A_Other', c['r'])
    return offs, rr


def grad_obs_term(dump):
    p = first_path(dump)
    if p is None or not p.get('fill'):
        return 'ONone'
    pt = p['fill']['paint']
    if pt['k'] == 'color':
        return 'OColor'
    d = pt['def']
    r = '(Some %s)' % xnum(d['r']) if pt['k'] == 'rg' else 'None'
    return '(OServer %s %s)' % (xlist([s['offset'] for s in d['stops']]), r)


# ---- regions
REG_XY = ['0', '8', '-16.5', '1.2676506e30', '-3e38', '1e300']
REG_WH = ['0', '-4', '12', '0.25', '1.2676506e30', '3e38', '1e300', '1e-46', '40']


def exact_sum(a, b):
    """is a + b exactly representable in f32 (or overflowing)?  Inputs are f32 values (possibly inf)."""
    if a in (float('inf'), float('-inf')) or b in (float('inf'), float('-inf')):
        return True
    s = Fraction(a) + Fraction(b)
    if abs(s) > Fraction(F32_MAX) * 2:
        return True       # far beyond the rounding threshold: overflows in both
    if abs(s) > Fraction(F32_MAX):
        return False      # near the threshold: rounding decides
    try:
        return Fraction(f32(float(s))) == s
    except OverflowError:
        return False


def gen_region_case(rng):
    for _ in range(50):
        c = dict(kind=rng.choice(['mask', 'pattern', 'filter']), x=rng.choice(REG_XY), y=rng.choice(REG_XY),
                 w=rng.choice(REG_WH), h=rng.choice(REG_WH))
        v = {k: to_f32(float(c[k])) for k in 'xywh'}
        if exact_sum(v['x'], v['w']) and exact_sum(v['y'], v['h']):
            return c
    return dict(kind='mask', x='0', y='0', w='12', h='12')


def region_doc(c):
    a = 'x="%s" y="%s" width="%s" height="%s"' % (c['x'], c['y'], c['w'], c['h'])
    if c['kind'] == 'mask':
        d = '<mask id="m" maskUnits="userSpaceOnUse" %s><rect width="100" height="100" fill="white"/></mask>' % a
        use = 'mask="url(#m)"'
    elif c['kind'] == 'filter':
        d = '<filter id="m" filterUnits="userSpaceOnUse" %s><feFlood flood-color="red"/></filter>' % a
        use = 'filter="url(#m)"'
    else:
        d = '<pattern id="m" patternUnits="userSpaceOnUse" %s><rect width="5" height="5" fill="green"/></pattern>' % a
        use = 'fill="url(#m)"'
    return '<svg %s width="100" height="100" viewBox="0 0 100 100">%s<path d="M10 10 L90 10 L90 90 Z" stroke="blue" %s/></svg>' % (NS, d, use)


def region_obs_term(c, dump):
    key = {'mask': 'masks', 'filter': 'filters', 'pattern': 'patterns'}[c['kind']]
    if not dump[key]:
        return 'None'
    return '(Some %s)' % xrect(dump[key][0]['rect'])


# ---- rect radii
RX = [None, '0', '5', '-3', '100', '10%', '1e300', '2.5', '1e-46', '12', '1e39', '-1e300', '50%']


def gen_radii_case(rng):
    return dict(w=rng.choice(['40', '40', '0', '-5', '1e300', '7']), h=rng.choice(['20', '20', '0', '30', '1e39']),
                rx=rng.choice(RX), ry=rng.choice(RX))


def radii_doc(c):
    a = ''
    if c['rx'] is not None:
        a += ' rx="%s"' % c['rx']
    if c['ry'] is not None:
        a += ' ry="%s"' % c['ry']
    return '<svg %s width="100" height="100" viewBox="0 0 100 100"><rect x="10" y="10" width="%s" height="%s"%s/></svg>' % (NS, c['w'], c['h'], a)


def radii_in_term(c):
    def ra(aid, s):
        if s is None:
            return 'None'
        n, u = parse_len(s)
        return '(Some {| ra_number := %s; ra_value := %s |})' % (xnum_f(n), cl_term(aid, s))
    return '%s, %s, %s, %s' % (cl_term('A_Width', c['w']), cl_term('A_Height', c['h']), ra('A_Rx', c['rx']), ra('A_Ry', c['ry']))


def radii_obs_term(c, dump):
    p = first_path(dump)
    if p is None:
        return 'None'
    segs = p['segs']
    w = to_f32(float(c['w']))
    rx = segs[0][1] - 10.0
    ry = 0.0
    # M (x+rx, y); L (x+w-rx, y); arc to (x+w, y+ry): the first later segment ending on the right edge
    for sg in segs[1:]:
        if len(sg) >= 3 and sg[-2] == 10.0 + w:
            ry = sg[-1] - 10.0
            break
    return '(Some (%s, %s))' % (xnum(f32(rx)), xnum(f32(ry)))


# ---- text chunks
CHARS = ['a', 'b', 'Q', 'z', '7', 'é', 'ü', '€', 'Ж', '\U0001F600', '中']


def gen_text_case(rng):
    """a <text> with text nodes and (possibly nested) tspans; x / y lists on any element"""
    def word():
        return ''.join(rng.choice(CHARS) for _ in range(1 + rng.below(4)))

    def poslist(n):
        r = rng.below(6)
        if r >= 2:
            return None
        return ' '.join(str(5 + 3 * rng.below(30)) for _ in range(1 + rng.below(n + 2)))

    def elem(depth):
        kids = []
        for _ in range(1 + rng.below(3)):
            if depth < 2 and rng.below(3) == 0:
                kids.append(elem(depth + 1))
            else:
                if kids and isinstance(kids[-1], str):
                    continue          # adjacent text nodes would merge
                kids.append(word())
        if not any(isinstance(k, str) for k in kids) and not kids:
            kids.append(word())
        n = count_chars(kids)
        # a non-positive font size makes collect_text_chunks skip the element's own text nodes (not its tspans
        # with a positive size); never on the root, so that some text remains
        fs = rng.choice([None, None, None, None, '0', '-3', '14']) if depth > 0 else None
        return dict(x=poslist(n), y=poslist(n) if rng.below(3) == 0 else None, kids=kids, fs=fs)
    root = elem(0)
    # textPath children (only valid directly under `text`): before / after / between plain text and tspans, with
    # several spans inside; the first character inside and the first one after a textPath start a new chunk
    for i, k in enumerate(root['kids']):
        if not isinstance(k, str) and rng.below(3) == 0:
            k['tp'] = True
            k['x'] = k['y'] = None          # positions on a textPath element are ignored
    if rng.below(4) == 0:
        tp = elem(1)
        tp['tp'] = True
        tp['x'] = tp['y'] = None
        root['kids'].insert(rng.below(len(root['kids']) + 1), tp)
        # adjacent text nodes would merge: keep structure as generated (strings next to elements only)
        kids = []
        for k in root['kids']:
            if kids and isinstance(k, str) and isinstance(kids[-1], str):
                kids[-1] += k
            else:
                kids.append(k)
        root['kids'] = kids
    return root


def count_chars(kids):
    n = 0
    for k in kids:
        n += len(k) if isinstance(k, str) else count_chars(k['kids'])
    return n


def text_doc(c):
    def ser(e, tag):
        a = ''
        if e['x'] is not None:
            a += ' x="%s"' % e['x']
        if e['y'] is not None:
            a += ' y="%s"' % e['y']
        if e.get('fs') is not None:
            a += ' font-size="%s"' % e['fs']
        inner = ''.join(k if isinstance(k, str) else ser(k, 'textPath' if k.get('tp') else 'tspan') for k in e['kids'])
        if tag == 'textPath':
            a += ' xlink:href="#tpath"'
        return '<%s%s>%s</%s>' % (tag, a, inner, tag)
    t = ser(c, 'text')
    return ('<svg %s width="200" height="100" viewBox="0 0 200 100" font-family="Noto Sans" font-size="10"><defs>'
            '<path id="tpath" d="M 5 80 L 195 80"/></defs>%s</svg>' % (NS, t))


def text_fold_input(c):
    """(utf8 length, new chunk?, first character of its text node?) per character, as collect_text_chunks sees them"""
    total = count_chars(c['kids'])
    hasx = [False] * total
    offset = [0]

    def visit(e):
        n = count_chars(e['kids'])
        for key in ('x', 'y'):
            if e[key] is not None:
                k = min(len(e[key].split()), n)
                for i in range(k):
                    hasx[offset[0] + i] = True
        for kid in e['kids']:
            if isinstance(kid, str):
                offset[0] += len(kid)
            else:
                visit(kid)
    visit(c)
    out = []
    idx = [0]
    split = [False]        # IterState::split_chunk: set when a textPath is entered and when it is left

    def walk(e, fs):
        if e.get('fs') is not None:
            fs = float(e['fs'])
        for kid in e['kids']:
            if isinstance(kid, str):
                for j, ch in enumerate(kid):
                    if fs > 0:          # text of an element with a non-positive font size is skipped (positions still advance)
                        out.append((len(ch.encode('utf-8')), hasx[idx[0]] or split[0], j == 0))
                        split[0] = False
                    idx[0] += 1
            else:
                if kid.get('tp'):
                    split[0] = True
                walk(kid, fs)
                if kid.get('tp'):
                    split[0] = True
    walk(c, 10.0)
    return out


def text_obs_term(dump):
    texts = []

    def node(n):
        if n['t'] == 'text':
            texts.append(n)
        elif n['t'] == 'g':
            for ch in n['children']:
                node(ch)
    node(dump['root'])
    if not texts:
        return None
    chunks = []
    for ck in texts[0]['chunks']:
        chunks.append('(%d, [%s])' % (len(ck['text'].encode('utf-8')), ';'.join('(%d,%d)' % (s['start'], s['end']) for s in ck['spans'])))
    return '[' + ';'.join(chunks) + ']%N'


# ------------------------------------------------------------------------------------------------
# adversarial documents for the system-level oracle
# ------------------------------------------------------------------------------------------------
EXTREMES = ['1e300', '-1e300', '1e38', '3.5e38', '-3.5e38', '1e-46', '0', '-0', '1e38in', '50%', '1e38%', '1e-300',
            '340282350000000000000000000000000000000', '16777217', '1e20', '-1e20', '1e-20', '0.0000001', '1e39', '-5',
            '1e30', '2e19']
TS_EXTREMES = ['scale(1e20)', 'scale(1e30)', 'translate(1e38 1e38)', 'matrix(1e30 0 0 1e30 1e38 1e38)', 'rotate(1e300)',
               'scale(1e-30)', 'scale(0)', 'skewX(89.9999999)', 'matrix(1e38 1e38 1e38 1e38 0 0)', 'scale(1e300)',
               'translate(3e38) scale(2)', 'scale(-1e25 1e25)',
               # a regular linear part with a translation that does not fit into f32: must be rejected at parse time
               'translate(1e39 0)', 'translate(5 -1e39)', 'matrix(1 0 0 1 0 1e300)', 'rotate(30) translate(1e39 1)', 'matrix(2 0 0 2 -1e39 0)']
NUM_ATTR_RE = re.compile(
    r'\b(x|y|width|height|r|rx|ry|cx|cy|fx|fy|x1|y1|x2|y2|offset|stroke-width|stroke-miterlimit|stroke-dasharray|'
    r'stroke-dashoffset|font-size|stdDeviation|dx|dy|scale|k1|k2|k3|k4|radius|baseFrequency|letter-spacing|word-spacing|'
    r'startOffset|textLength|markerWidth|markerHeight|refX|refY|viewBox|points|opacity|stop-opacity|surfaceScale|'
    r'specularExponent|kernelUnitLength|order|divisor|bias|z|azimuth|elevation|limitingConeAngle|numOctaves)="([^"]*)"')
TS_ATTR_RE = re.compile(r'\b(transform|gradientTransform|patternTransform)="([^"]*)"')


def mutate_doc(rng, text):
    """replace one numeric attribute value (or one transform) by an extreme value; None if nothing to mutate"""
    ms = list(NUM_ATTR_RE.finditer(text))
    ts = list(TS_ATTR_RE.finditer(text))
    if ts and (not ms or rng.below(5) == 0):
        m = rng.choice(ts)
        v = rng.choice(TS_EXTREMES)
        if rng.below(2):
            v = m.group(2) + ' ' + v
        return text[:m.start(2)] + v + text[m.end(2):]
    if not ms:
        return None
    m = rng.choice(ms)
    old = m.group(2).split()
    ext = rng.choice(EXTREMES)
    if len(old) > 1 and rng.below(2):
        old[rng.below(len(old))] = ext
        v = ' '.join(old)
    else:
        v = ext
    return text[:m.start(2)] + v + text[m.end(2):]


def gen_numeric_doc(rng):
    """hand-made templates exercising every clause with extreme magnitudes"""
    E = lambda: rng.choice(EXTREMES)
    T = lambda: rng.choice(TS_EXTREMES)
    k = rng.below(31)
    FS = lambda: rng.choice(['-4', '0', '1e30', '3e38', '12', '-1e30', '1e-30'])
    DU = lambda: rng.choice(EXTREMES + ['2em', '1ex', '3e38in', '-1em', '2e38em', '3e38mm', '1em'])
    if k in (23, 24):
        # path data and basic shapes, degenerate and extreme: what the shape conversion emits must be a valid path or nothing
        N = lambda: rng.choice(['0', '10', '-5', '3e38', '-3e38', '1e-40', '1e39', '50', '2.5'])
        # (arc parameters stay moderate: huge arcs are C01's known class path-arc-huge)
        D = [
            'M %s %s' % (N(), N()), 'M %s %s Z' % (N(), N()), 'M 1 1 M %s %s L %s %s' % (N(), N(), N(), N()), 'L %s %s' % (N(), N()),
            'M 0 0 Z M %s %s' % (N(), N()), 'M 0 0 L %s %s Z Z M 5 5' % (N(), N()), 'Z', 'M 1 1 M 2 2 M 3 3', 'm %s %s l %s %s z l 3 3' % (N(), N(), N(), N()),
            'M 0 0 Q %s %s 5 5 T %s %s' % (N(), N(), N(), N()), 'M 0 0 A %s %s 0 1 1 %s %s' % tuple(rng.choice(['0', '10', '-5', '1e-40', '50', '2.5', '1e6']) for _ in range(4)),     'M 0 0 H %s V %s' % (N(), N()),
            'M 0 0 L 10 10 M %s %s' % (N(), N()), 'M %s %s L %s %s L' % (N(), N(), N(), N()), 'M 0 0 C 1 1 2 2 %s %s S %s %s 9 9' % (N(), N(), N(), N()), '']
        shapes = [
            '<path d="%s" stroke="black"/>' % rng.choice(D), '<path d="%s" fill="red"/>' % rng.choice(D),
            '<rect x="%s" y="%s" width="%s" height="%s" rx="%s" stroke="black"/>' % (N(), N(), N(), N(), N()),
            '<rect width="%s" height="%s" ry="%s"/>' % (N(), N(), N()),
            '<circle cx="%s" cy="%s" r="%s" stroke="black"/>' % (N(), N(), N()), '<ellipse cx="%s" rx="%s" ry="%s"/>' % (N(), N(), N()),
            '<line x1="%s" y1="%s" x2="%s" y2="%s" stroke="black"/>' % (N(), N(), N(), N()),
            '<polyline points="%s" stroke="black"/>' % ' '.join(N() for _ in range(rng.below(7))),
            '<polygon points="%s %s"/>' % (N(), ' '.join(N() for _ in range(rng.below(6)))),
            '<clipPath id="c%d"><path d="%s"/></clipPath><rect width="50" height="50" clip-path="url(#c%d)"/>' % (k, rng.choice(D), k)]
        # (no textPath here: text on a path with coordinates >= 1e16 is C01's known kurbo hang)
        return '<svg %s width="100" height="100">%s</svg>' % (NS, ''.join(rng.choice(shapes) for _ in range(1 + rng.below(4))))
    if k in (27, 28):
        # (round-5 seed C04-15) orient=auto markers on paths with coincident consecutive vertices, marker content wrapped in a <g>
        # (a group survives where a lone path would be dropped): every instance transform must be finite
        P = lambda: rng.choice(['20,20', '20,20', '100,60', '60,60', '20,80', '0,0'])
        pts = [P() for _ in range(2 + rng.below(4))]
        if rng.below(2):
            j = rng.below(len(pts))
            pts.insert(j, pts[j])
        orient = rng.choice(['auto', 'auto-start-reverse', 'auto', '30'])
        content = rng.choice(['<g><path d="M0 0 L10 5 L0 10 z" fill="red"/></g>', '<g opacity="0.5"><circle cx="5" cy="5" r="4"/></g>',
                              '<path d="M0 0 L10 5 L0 10 z"/>'])
        shape = rng.choice(['<polyline points="%s"' % ' '.join(pts), '<polygon points="%s"' % ' '.join(pts),
                            '<path d="M %s Z"' % ' L '.join(p.replace(',', ' ') for p in pts),
                            '<line x1="20" y1="20" x2="20" y2="20"'])
        return ('<svg %s width="120" height="100"><marker id="m" markerWidth="10" markerHeight="10" refX="5" refY="5" orient="%s">%s</marker>'
                '%s fill="none" stroke="black" marker-start="url(#m)" marker-mid="url(#m)" marker-end="url(#m)"/></svg>' % (NS, orient, content, shape))
    if k in (29, 30):
        # (round-5 seed C04-16) marked paths WITHOUT an object bounding box (horizontal / vertical line) painted with patterns / gradients of
        # mixed units, marker content painted with context-fill / context-stroke: nothing reachable may keep objectBoundingBox units
        pu, pcu = rng.choice(['userSpaceOnUse', 'objectBoundingBox']), rng.choice(['userSpaceOnUse', 'objectBoundingBox'])
        patt = ('<pattern id="p" patternUnits="%s" patternContentUnits="%s" width="%s" height="%s"><rect width="%s" height="%s" fill="%s"/></pattern>'
                % (pu, pcu, '10' if pu[0] == 'u' else '0.2', '10' if pu[0] == 'u' else '0.2', '5' if pcu[0] == 'u' else '0.1', '5' if pcu[0] == 'u' else '0.1',
                   rng.choice(['green', 'url(#lg)'])))
        lg = '<linearGradient id="lg" gradientUnits="%s"><stop offset="0" stop-color="red"/><stop offset="1" stop-color="blue"/></linearGradient>' % rng.choice(
            ['userSpaceOnUse', 'objectBoundingBox'])
        cp = lambda: rng.choice(['context-stroke', 'context-fill', 'url(#p)', 'url(#lg)', 'black'])
        marker = ('<marker id="m" markerWidth="10" markerHeight="10" refX="5" refY="5" orient="auto"><path d="M0 0 L10 5 L0 10 z" fill="%s" stroke="%s"/></marker>'
                  % (cp(), cp()))
        d = rng.choice(['M 10 50 L 90 50', 'M 10 50 H 90', 'M 50 10 V 90', 'M 10 10 L 90 60', 'M 10 50 L 50 50 L 90 50'])
        return ('<svg %s width="100" height="100">%s%s%s<path d="%s" fill="%s" stroke="%s" stroke-width="4" marker-start="url(#m)" marker-mid="url(#m)" '
                'marker-end="url(#m)"/></svg>' % (NS, lg, patt, marker, d, rng.choice(['none', 'url(#p)', 'url(#lg)']), rng.choice(['url(#p)', 'url(#lg)', 'black'])))
    if k in (25, 26):
        # filter primitive parameters with extreme values (second pass): clamps and guards of parser/filter.rs
        X = lambda: rng.choice(EXTREMES + ['3', '-1', '0.5', '128', '128.5', '0.99', '3e32', '3e38', '-3e38', '4', '2'])
        KM = lambda n: ' '.join(rng.choice(['1', '0', '-1', '3e32', '3e38', '-3e38', '1e30', '0.5', '1e-40']) for _ in range(n))
        o = rng.choice(['3', '2', '1', '0', '-2', '3 2', '2.9', '1e10', '4 1'])
        n = rng.choice([9, 4, 1, 6, 9, 9])
        prims = [
            '<feGaussianBlur stdDeviation="%s %s"/>' % (X(), X()), '<feDropShadow stdDeviation="%s" dx="1"/>' % X(),
            '<feMorphology radius="%s %s"/>' % (X(), X()), '<feTurbulence baseFrequency="%s %s" numOctaves="%s"/>' % (X(), X(), X()),
            '<feConvolveMatrix order="%s" kernelMatrix="%s" targetX="%s" targetY="%s"/>' % (o, KM(n), rng.choice(['0', '1', '2', '3', '-1', '1e10']), rng.choice(['0', '1', '2', '5'])),
            '<feConvolveMatrix order="%s" kernelMatrix="%s" divisor="%s"/>' % (o, KM(n), X()),
            '<feConvolveMatrix kernelMatrix="%s"/>' % KM(9),
            '<feSpecularLighting specularExponent="%s" surfaceScale="%s"><feDistantLight/></feSpecularLighting>' % (X(), X()),
            '<feSpecularLighting specularExponent="%s"><feSpotLight specularExponent="%s" limitingConeAngle="%s"/></feSpecularLighting>' % (X(), X(), X())]
        pu = rng.choice(['', ' primitiveUnits="objectBoundingBox"'])
        return ('<svg %s width="100" height="100"><filter id="f"%s>%s</filter><rect x="10" y="10" width="50" height="20" fill="green" filter="url(#f)"/></svg>'
                % (NS, pu, ''.join(rng.choice(prims) for _ in range(1 + rng.below(3)))))
    if k == 0:
        return ('<svg %s width="100" height="100"><g transform="%s"><g transform="%s"><rect width="%s" height="10" stroke="red" '
                'stroke-width="%s" stroke-miterlimit="%s" stroke-dasharray="%s %s"/></g></g></svg>' % (NS, T(), T(), E(), E(), E(), E(), E()))
    if k in (20, 21, 22):
        # `inherit` on every text-related (and a few paint) properties, as attribute / style / CSS rule, on text and tspan:
        # nothing in the tree or in the written form (with and without preserve_text) may still say `inherit`
        PROPS = ['font-family', 'font-size', 'font-style', 'font-weight', 'font-stretch', 'font-variant', 'letter-spacing', 'word-spacing',
                 'text-anchor', 'text-decoration', 'writing-mode', 'dominant-baseline', 'alignment-baseline', 'baseline-shift',
                 'text-rendering', 'kerning', 'font-kerning', 'direction', 'fill', 'stroke', 'stroke-width', 'stroke-dasharray', 'opacity',
                 'visibility', 'fill-opacity', 'stroke-linejoin', 'color', 'display']
        css = []

        def put(n):
            a = ''
            for p_ in rng.sample(PROPS, n):
                how = rng.below(3)
                if how == 0:
                    a += ' %s="inherit"' % p_
                elif how == 1:
                    a += ' style="%s:inherit"' % p_ if 'style=' not in a else ''
                else:
                    cls = 'c%d' % len(css)
                    if 'class=' not in a:
                        css.append('.%s { %s: inherit }' % (cls, p_))
                        a += ' class="%s"' % cls
            return a
        t1, t2, t3 = put(1 + rng.below(3)), put(1 + rng.below(3)), put(1 + rng.below(2))
        return ('<svg %s width="200" height="100" font-family="Noto Sans" font-size="14"><style>%s</style>'
                '<g font-family="Noto Serif" font-size="18" font-style="italic" font-weight="700" font-stretch="condensed" font-variant="small-caps" '
                'letter-spacing="2" word-spacing="3" text-anchor="middle" text-decoration="underline" dominant-baseline="middle" '
                'fill="#204080" stroke="#802040" stroke-width="0.5" stroke-dasharray="3 1" color="#336699" opacity="0.8">'
                '<text x="100" y="40"%s>ab \u00e9<tspan%s>cd</tspan> ef</text><rect x="10" y="60" width="50" height="20"%s/></g></svg>'
                % (NS, ' '.join(css), t1, t2, t3))
    if k == 17:
        # mask / clip-path link chains of depth 1..5 with objectBoundingBox paint in the content of EVERY level (single reference each)
        depth = 1 + rng.below(5)
        defs = ''
        for i in range(1, depth + 1):
            link = ' mask="url(#m%d)"' % (i + 1) if i < depth else ''
            units = rng.choice(['', ' maskUnits="userSpaceOnUse" x="0" y="0" width="200" height="100"'])
            defs += ('<linearGradient id="g%d"><stop offset="0" stop-color="white"/><stop offset="1" stop-color="#404040"/></linearGradient>'
                     '<mask id="m%d"%s%s><rect x="%d" y="2" width="%d" height="90" fill="url(#g%d)"/></mask>' % (i, i, units, link, i, 180 - 5 * i, i))
            clink = ' clip-path="url(#c%d)"' % (i + 1) if i < depth else ''
            defs += '<clipPath id="c%d"%s%s><rect x="%d" y="1" width="190" height="95"/></clipPath>' % (
                i, rng.choice(['', ' clipPathUnits="userSpaceOnUse"']), clink, i)
        return ('<svg %s width="200" height="100"><defs>%s</defs><rect x="5" y="5" width="150" height="80" fill="#205080" mask="url(#m1)" '
                'clip-path="url(#c1)"/></svg>' % (NS, defs))
    if k in (18, 19):
        # text before / inside / after a textPath, several spans inside, multi-byte characters, no positions on the later spans
        pre = rng.choice(['', 'ab', '\u00c4\u00d6\u00dc', 'x\u20acy'])
        post = rng.choice(['', 'z', '\u00e9\u00e9'])
        return ('<svg %s width="200" height="100" font-family="Noto Sans" font-size="12"><defs><path id="tp" d="M 5 60 L 195 60"/></defs>'
                '<text x="10" y="30">%s<textPath xlink:href="#tp">\u00c4<tspan fill="red">\u00d6\u00dc</tspan>q<tspan font-size="%s">w\u20ac</tspan></textPath>%s'
                '<tspan dy="5">t</tspan></text></svg>' % (NS, pre, rng.choice(['12', '0', '9']), post))
    if k in (14, 15, 16):
        # objectBoundingBox paint nested in the content of a definition: single-reference and objectBoundingBox
        # definitions must come out resolved; only a SHARED USER-SPACE definition is the known class [F25]
        grad = '<linearGradient id="g"><stop offset="0" stop-color="red"/><stop offset="1" stop-color="blue"/></linearGradient>'
        n = 1 + rng.below(3)
        xs = [5 + 60 * i for i in range(n)]
        if k == 14:
            units = rng.choice(['', ' filterUnits="userSpaceOnUse" x="0" y="0" width="200" height="100"'])
            d = ('<rect id="r" width="40" height="30" fill="url(#g)" stroke="url(#g)"/>'
                 '<filter id="f"%s><feImage xlink:href="#r"/></filter>' % units)
            users = ''.join('<rect x="%d" y="10" width="50" height="%d" filter="url(#f)"/>' % (x, 40 + 7 * i) for i, x in enumerate(xs))
        elif k == 15:
            units = rng.choice(['', ' patternUnits="objectBoundingBox"', ' patternUnits="userSpaceOnUse"',
                                ' patternContentUnits="objectBoundingBox"'])
            cw = '0.2' if 'patternContentUnits' in units else '8'
            wh = ' width="16" height="12"' if 'userSpaceOnUse' in units else ' width="0.25" height="0.25"'
            d = '<pattern id="f"%s%s><rect width="%s" height="%s" fill="url(#g)"/></pattern>' % (units, wh, cw, cw)
            users = ''.join('<rect x="%d" y="10" width="50" height="%d" fill="url(#f)"/>' % (x, 40 + 7 * i) for i, x in enumerate(xs))
        else:
            units = rng.choice(['', ' maskUnits="userSpaceOnUse" x="0" y="0" width="200" height="100"',
                                ' maskContentUnits="objectBoundingBox"'])
            cw = '0.8' if 'maskContentUnits' in units else '150'
            d = '<mask id="f"%s><rect width="%s" height="%s" fill="url(#g)"/></mask>' % (units, cw, cw)
            users = ''.join('<rect x="%d" y="10" width="50" height="%d" mask="url(#f)"/>' % (x, 40 + 7 * i) for i, x in enumerate(xs))
        return '<svg %s width="200" height="100"><defs>%s%s</defs>%s</svg>' % (NS, grad, d, users)
    if k == 12:
        # font-relative units under negative / zero / huge font sizes; values that overflow only after the unit factor
        return ('<svg %s width="100" height="100" font-size="%s"><path d="M10 10 L90 20 L30 80" fill="none" stroke="red" font-size="%s" '
                'stroke-width="%s" stroke-dasharray="%s %s"/><rect x="5" y="50" width="40" height="30" stroke="blue" stroke-width="%s" '
                'stroke-dasharray="%s"/></svg>' % (NS, rng.choice(['12', FS()]), FS(), rng.choice(['2', '1em', DU()]), DU(), DU(), DU(), DU()))
    if k == 13:
        # text skipped in the middle of a chunk (non-positive font size), followed by more text of the same chunk
        return ('<svg %s width="200" height="100" font-family="Noto Sans" font-size="12"><text x="10" y="50">a\u00e9<tspan font-size="%s">c\u20acd</tspan>'
                'ef<tspan font-size="%s">\U0001F600</tspan>g<tspan x="%s">hi</tspan></text></svg>'
                % (NS, rng.choice(['0', '-5', E()]), rng.choice(['0', '14', '-1e30']), rng.choice(['80', E()])))
    if k == 1:
        return ('<svg %s width="100" height="100"><linearGradient id="g" gradientTransform="%s" x1="%s" x2="%s"><stop offset="%s"/>'
                '<stop offset="%s" stop-color="red"/><stop offset="%s"/></linearGradient><rect x="%s" width="%s" height="20" fill="url(#g)"/></svg>'
                % (NS, T(), E(), E(), E(), E(), E(), E(), E()))
    if k == 2:
        return ('<svg %s width="100" height="100"><radialGradient id="g" r="%s" cx="%s" fx="%s" gradientUnits="%s"><stop offset="0.2"/>'
                '<stop offset="0.2" stop-color="red"/></radialGradient><rect x="5" y="5" width="%s" height="40" fill="url(#g)" stroke="url(#g)"/></svg>'
                % (NS, E(), E(), E(), rng.choice(['userSpaceOnUse', 'objectBoundingBox']), E()))
    if k == 3:
        return ('<svg %s width="100" height="100"><pattern id="p" x="%s" width="%s" height="%s" patternTransform="%s" patternUnits="%s">'
                '<rect width="%s" height="5"/></pattern><rect width="%s" height="50" fill="url(#p)"/></svg>'
                % (NS, E(), E(), E(), T(), rng.choice(['userSpaceOnUse', 'objectBoundingBox']), E(), E()))
    if k == 4:
        return ('<svg %s width="100" height="100"><mask id="m" x="%s" y="%s" width="%s" height="%s" maskUnits="%s"><rect width="100" height="100" '
                'fill="white"/></mask><rect width="%s" height="50" mask="url(#m)"/></svg>'
                % (NS, E(), E(), E(), E(), rng.choice(['userSpaceOnUse', 'objectBoundingBox']), E()))
    if k == 5:
        return ('<svg %s width="100" height="100"><filter id="f" x="%s" y="%s" width="%s" height="%s" filterUnits="%s" primitiveUnits="%s">'
                '<feFlood x="%s" width="%s" flood-color="red"/><feOffset dx="%s" width="%s"/></filter><rect width="%s" height="50" filter="url(#f)"/></svg>'
                % (NS, E(), E(), E(), E(), rng.choice(['userSpaceOnUse', 'objectBoundingBox']),
                   rng.choice(['userSpaceOnUse', 'objectBoundingBox']), E(), E(), E(), E(), E()))
    if k == 6:
        return ('<svg %s width="100" height="100"><clipPath id="c" transform="%s" clipPathUnits="%s"><rect width="%s" height="%s"/></clipPath>'
                '<rect width="%s" height="50" clip-path="url(#c)"/></svg>'
                % (NS, T(), rng.choice(['userSpaceOnUse', 'objectBoundingBox']), E(), E(), E()))
    if k == 7:
        return ('<svg %s width="200" height="100" font-family="Noto Sans"><g transform="%s"><text x="10 %s" y="50" font-size="%s" letter-spacing="%s" '
                'stroke="red" stroke-width="%s">aé€<tspan x="%s" dy="%s">\U0001F600b</tspan>c</text></g></svg>'
                % (NS, T(), E(), rng.choice(['10', '12', E()]), E(), E(), E(), E()))
    if k == 8:
        return ('<svg %s width="100" height="100" viewBox="0 0 %s %s"><rect width="50%%" height="%s" rx="%s" ry="%s" stroke="blue" '
                'stroke-width="%s"/></svg>' % (NS, E(), E(), E(), E(), E(), E()))
    if k == 9:
        return ('<svg %s width="100" height="100"><marker id="m" markerWidth="%s" markerHeight="%s" refX="%s"><path d="M0 0 L%s 5 L0 10" '
                'fill="context-stroke"/></marker><path d="M10 10 L%s 50 L90 90" stroke="red" stroke-width="%s" marker-mid="url(#m)" '
                'marker-end="url(#m)"/></svg>' % (NS, E(), E(), E(), E(), E(), E()))
    if k == 10:
        return ('<svg %s width="100" height="100"><symbol id="s" viewBox="0 0 %s %s"><rect width="%s" height="5"/></symbol>'
                '<use xlink:href="#s" x="%s" width="%s" height="%s" transform="%s"/></svg>' % (NS, E(), E(), E(), E(), E(), E(), T()))
    inner = '<svg xmlns="http://www.w3.org/2000/svg" width="%s" height="20"><rect width="%s" height="5" stroke="red" stroke-width="%s"/></svg>' % (
        rng.choice(['20', E()]), E(), E())
    import base64
    href = 'data:image/svg+xml;base64,' + base64.b64encode(inner.encode()).decode()
    return ('<svg %s width="100" height="100"><g transform="%s"><image x="%s" width="%s" height="30" xlink:href="%s"/></g></svg>'
            % (NS, T(), E(), E(), href))


# ------------------------------------------------------------------------------------------------
# known classes
# ------------------------------------------------------------------------------------------------
KEYWORD_RE = re.compile(r"\b(inherit|currentColor|context-fill|context-stroke)\b|^[-+]?[\d.]+(?:e[-+]?\d+)?(%|em|ex)$")


def dump_keyword_scan(dump):
    """string values of the tree (font families, enums, ...) that still carry an unresolved keyword / relative value;
    element ids, result names and the text content are free text and not looked at"""
    out = []
    FREE = {'id', 'text', 'result', 'ref', 'face', 'font'}

    def rec(o, key):
        if isinstance(o, dict):
            for k, v in o.items():
                rec(v, k)
        elif isinstance(o, list):
            for v in o:
                rec(v, key)
        elif isinstance(o, str) and key not in FREE and KEYWORD_RE.search(o):
            out.append((key, o[:60]))
    rec(dump, None)
    return out


def nonfinite(v):
    return isinstance(v, str)


def ts_bad(t):
    return any(nonfinite(v) for v in t)


def ts_attr_finite(value):
    """Is the transform list `value` finite as an f32 matrix?  (svgtypes multiplies the items in f64, usvg casts
    the six coefficients to f32 and rejects a non-finite result.)  Unparsable -> True (usvg ignores it)."""
    m = [1.0, 0.0, 0.0, 1.0, 0.0, 0.0]

    def mul(a, b):
        return [a[0] * b[0] + a[2] * b[1], a[1] * b[0] + a[3] * b[1], a[0] * b[2] + a[2] * b[3], a[1] * b[2] + a[3] * b[3],
                a[0] * b[4] + a[2] * b[5] + a[4], a[1] * b[4] + a[3] * b[5] + a[5]]
    try:
        for name, args in re.findall(r"(matrix|translate|scale|rotate|skewX|skewY)\s*\(([^)]*)\)", value):
            v = [float(x) for x in re.split(r"[\s,]+", args.strip()) if x]
            if name == 'matrix' and len(v) == 6:
                t = v
            elif name == 'translate' and len(v) in (1, 2):
                t = [1, 0, 0, 1, v[0], v[1] if len(v) == 2 else 0.0]
            elif name == 'scale' and len(v) in (1, 2):
                t = [v[0], 0, 0, v[1] if len(v) == 2 else v[0], 0, 0]
            elif name == 'rotate' and len(v) in (1, 3):
                a = math.radians(v[0])
                t = [math.cos(a), math.sin(a), -math.sin(a), math.cos(a), 0, 0]
                if len(v) == 3:
                    t = mul(mul([1, 0, 0, 1, v[1], v[2]], t), [1, 0, 0, 1, -v[1], -v[2]])
            elif name == 'skewX' and len(v) == 1:
                t = [1, 0, math.tan(math.radians(v[0])), 1, 0, 0]
            elif name == 'skewY' and len(v) == 1:
                t = [1, math.tan(math.radians(v[0])), 0, 1, 0, 0]
            else:
                return True
            m = mul(m, t)
    except (ValueError, OverflowError):
        return True
    return all(x == x and abs(x) <= F32_MAX for x in m)


def class_computed_transform(doc_text, codes):
    """Known class `computed-transform-not-finite`: the only violated clause is "every transform is finite" and
    every transform *written in the document* is finite as an f32 matrix (so the parse-time `is_valid` guard did
    its job): the non-finite transform was computed by usvg (abs_transform product, use x/y + viewBox placement,
    bounding-box mapping of a resolved gradient/pattern).  A non-finite transform given in the document, or any
    other violated clause, is not in the class."""
    if codes != [1] or doc_text is None:
        return False
    # the class is about OVERFLOW of computed products: with the numbers written in the document an overflow must be possible at all
    # (round-5 seed C04-15: a NaN marker transform from moderate coordinates is NOT in the class)
    mags = []
    for t in re.findall(r"[-+]?(?:\d+\.?\d*|\.\d+)(?:[eE][-+]?\d+)?", doc_text):
        try:
            mags.append(abs(float(t)))
        except (ValueError, OverflowError):
            mags.append(float('inf'))
    big = max(mags + [1.0])
    depth = len(list(TS_ATTR_RE.finditer(doc_text))) + 4
    try:
        if big ** depth < 1e30:
            return False
    except OverflowError:
        pass
    return all(ts_attr_finite(m.group(2)) for m in TS_ATTR_RE.finditer(doc_text))


def only_transform_fields_nonfinite(dump):
    """no non-finite number anywhere except inside transforms (and boxes derived from them)"""
    bad = []
    DERIVED = {'ts', 'abs_ts', 'bbox', 'abs_bbox', 'sbbox', 'abs_sbbox', 'lbbox', 'abs_lbbox', 'fbbox', 'outline_ts'}

    def rec(o, key=None):
        if isinstance(o, dict):
            for k, v in o.items():
                rec(v, k)
        elif isinstance(o, list):
            for v in o:
                rec(v, key)
        elif isinstance(o, str) and o in ('inf', '-inf', 'nan') and key not in DERIVED and key not in ('text', 'id'):
            bad.append(key)
    rec(dump)
    return not bad


# ------------------------------------------------------------------------------------------------
# the check
# ------------------------------------------------------------------------------------------------
def jload(o):
    try:
        return json.loads(o)
    except (TypeError, ValueError):
        return {'error': 'unparsable harness output'}


EXTRA_TREES = []      # trees produced by the correspondence documents: judged by the oracle as well


def correspondence(ctx, binp, nper):
    rng = ctx.rng
    ok = True
    del EXTRA_TREES[:]
    specs = [
        ('stroke', gen_stroke_case, stroke_doc, 'stroke_in * stroke_obs', 'chk_stroke',
         lambda c, d: '(%s, %s)' % (stroke_in_term(c), stroke_obs_term(d))),
        ('gradient', gen_grad_case, grad_doc, 'option (list xq) * option xq * grad_obs', 'chk_gradient',
         lambda c, d: '(%s, %s, %s)' % (grad_in_term(c) + (grad_obs_term(d),))),
        ('region', gen_region_case, region_doc, 'xq * xq * xq * xq * option xrect', 'chk_region',
         lambda c, d: '(%s, %s, %s, %s, %s)' % tuple([xnum_f(to_f32(float(c[k]))) for k in 'xywh'] + [region_obs_term(c, d)])),
        ('radii', gen_radii_case, radii_doc, 'xq * xq * option radius_attr * option radius_attr * option (xq * xq)', 'chk_radii',
         lambda c, d: '(%s, %s)' % (radii_in_term(c), radii_obs_term(c, d))),
    ]
    for name, gen, mkdoc, typ, chk, mkitem in specs:
        cases = [gen(rng) for _ in range(nper)]
        docs = [mkdoc(c) for c in cases]
        outs = ctx.rvh_batch(binp, 'c04-tree', ["-\t" + d for d in docs])
        items = []
        idx = []
        for i, (c, o) in enumerate(zip(cases, outs)):
            full = jload(o)
            t = full.get('dump', full)
            if 'dump' in full:
                EXTRA_TREES.append(('crafted %s document #%d' % (name, i), docs[i], full, "-\t" + docs[i]))
            if 'root' not in t:
                ctx.violation("crafted %s document failed in the parser: %s" % (name, str(t)[:200]),
                              dict(kind='k-' + name, doc=docs[i], case=str(c), result=t))
                ok = False
                continue
            ctx.note_case("k-%s/%s" % (name, docs[i]))
            items.append(mkitem(c, t))
            idx.append(i)
        bad = coq_bad(ctx, 'k_' + name, typ, chk, items)
        if bad is None:
            ctx.violation("C04 model of %s no longer evaluates (correspondence cannot run)" % name,
                          dict(kind='k-' + name, op=chk), found_input=False)
            ok = False
            continue
        ctx.cov.setdefault('correspondence', {})[name] = len(items)
        for b in bad[:3]:
            i = idx[b]
            ok = False
            ctx.violation("model and implementation disagree on %s resolution" % name,
                          dict(kind='k-' + name, doc=docs[i], case=str(cases[i]), coq_item=items[b],
                               replay="rvh dump <doc>; Model/StyleChk.v %s on coq_item" % chk))
        if docs:
            ctx.add_sample(dict(op='k-' + name, doc=docs[0]))
    # text chunks
    cases = [gen_text_case(rng) for _ in range(nper)]
    docs = [text_doc(c) for c in cases]
    outs = ctx.rvh_batch(binp, 'c04-tree', ["-\t" + d for d in docs])
    items = []
    idx = []
    for i, (c, o) in enumerate(zip(cases, outs)):
        full = jload(o)
        t = full.get('dump', full)
        if 'dump' in full:
            EXTRA_TREES.append(('crafted text document #%d' % i, docs[i], full, "-\t" + docs[i]))
        obs = text_obs_term(t) if 'root' in t else None
        if obs is None and 'root' in t and not text_fold_input(c):
            continue          # every character skipped: no text node is the expected outcome
        if obs is None:
            ctx.violation("crafted text document produced no text node: %s" % str(t)[:200], dict(kind='k-text', doc=docs[i]))
            ok = False
            continue
        fi = text_fold_input(c)
        ctx.note_case("k-text/" + docs[i])
        items.append('([%s]%%N, %s)' % (';'.join('(%d,%s,%s)' % (l, str(a).lower(), str(b).lower()) for l, a, b in fi), obs))
        idx.append(i)
    bad = coq_bad(ctx, 'k_text', 'list (N * bool * bool) * list chunk_obs', 'chk_chunks', items)
    if bad is None:
        ctx.violation("C04 model of the text chunk builder no longer evaluates", dict(kind='k-text'), found_input=False)
        ok = False
    else:
        ctx.cov.setdefault('correspondence', {})['text'] = len(items)
        for b in bad[:3]:
            i = idx[b]
            ok = False
            ctx.violation("model and implementation disagree on text chunks / spans",
                          dict(kind='k-text', doc=docs[i], coq_item=items[b]))
    return ok


def judge_tree(ctx, label, doc_text, res, why, replay):
    """Apply the verdict for one parsed document: validity codes from Coq, written-form scan, units."""
    dump = res['dump']
    codes = sorted(set(why))
    if doc_text is None and replay.get('payload', '').split('\t')[-1].startswith('@'):
        try:
            doc_text = open(replay['payload'].split('\t')[-1][1:], encoding='utf-8', errors='replace').read()
        except OSError:
            pass
    if codes:
        text = "; ".join(WHY.get(c, str(c)) for c in codes)
        if class_computed_transform(doc_text, codes):
            ctx.known_or_violation('computed-transform-not-finite',
                                   "tree of %s is not valid: %s" % (label, text), dict(replay, codes=codes))
        else:
            ctx.violation("tree of %s is not valid: %s" % (label, text), dict(replay, codes=codes))
    kw = dump_keyword_scan(dump)
    if kw:
        ctx.violation("tree of %s carries an unresolved keyword / relative value: %s" % (label, kw[:3]), dict(replay, problems=kw[:10]))
    if res.get('write_panic'):
        ctx.violation("Tree::to_string panicked on the tree of %s (%s): span offsets / values out of contract"
                      % (label, str(res['write_panic'])[:120]), dict(replay, write_panic=res['write_panic'], codes=codes))
    probs = scan_svg(res['svg'])
    probs_pt = scan_svg(res['svg_pt'])
    allp = probs + [p for p in probs_pt if p not in probs]
    units = [p for p in allp if p[0] == 'units-not-user-space']
    # a written form that is not well-formed XML is C07's subject (e.g. an id with a quote, F42): nothing to scan here
    other = [p for p in allp if p[0] not in ('units-not-user-space', 'unparsable')]
    if other:
        ctx.violation("written form of %s carries an unresolved value: %s" % (label, other[:3]), dict(replay, problems=other[:10]))
    if units or res['dbg_obb']:
        ids = set(p[2] for p in units)
        if ids and in_class_shared_def(dump, ids, doc_text):
            ctx.known_or_violation('shared-def-nested-obb',
                                   "objectBoundingBox units remain in %s: %s" % (label, units[:3]),
                                   dict(replay, problems=units[:10], dbg_obb=res['dbg_obb']))
        else:
            ctx.violation("objectBoundingBox units remain in %s (written form: %s; internal count %d)"
                          % (label, units[:3], res['dbg_obb']), dict(replay, problems=units[:10], dbg_obb=res['dbg_obb']))


def oracle(ctx, binp, quick):
    rng = ctx.rng
    files = vlib.corpus_files()
    wdir = os.path.join(vlib.VERIF, 'corpus', 'witness')
    wit = [os.path.join(wdir, f) for f in sorted(os.listdir(wdir)) if f.endswith('.svg')]
    items = []      # (label, payload doc, doc text or None)
    for f in files + wit:
        items.append((os.path.relpath(f, vlib.REPO) if f.startswith(vlib.REPO) else f, '@' + f, None))   # text read on demand
    nnum = 500 if quick else 6000
    for i in range(nnum):
        d = gen_numeric_doc(rng)
        items.append(('generated numerics #%d' % i, d, d))
    nmut = 500 if quick else 8000
    texts = {}
    tries = 0
    while nmut > 0 and tries < 20 * (nmut + 1):
        tries += 1
        f = rng.choice(files)
        if f not in texts:
            try:
                t = open(f, encoding='utf-8').read()
            except (OSError, UnicodeDecodeError):
                t = ''
            texts[f] = t if '\n<!' not in t[:200] and len(t) < 200000 else ''
        if not texts[f]:
            continue
        m = mutate_doc(rng, texts[f])
        if m is None:
            continue
        items.append(('mutant of %s' % os.path.relpath(f, vlib.REPO), 'hex:' + m.encode('utf-8').hex(), m))
        nmut -= 1
    # mutants keep relative resources working only if parsed with the file's directory
    payloads = []
    for label, doc, text in items:
        opts = '-'
        if label.startswith('mutant of '):
            opts = 'res=' + os.path.dirname(os.path.join(vlib.REPO, label[len('mutant of '):]))
        payloads.append("%s\t%s" % (opts, doc))
    # a document that makes the parser spin (e.g. a 1e-46 dash on a 1e20-long stroke: stroke bbox computation) costs
    # one chunk timeout: keep chunks small
    outs = ctx.rvh_batch(binp, 'c04-tree', payloads, per_item_timeout=2, chunk=40)
    terms = []
    meta = []
    stats = dict(parsed=0, error=0, crash=0)
    for (label, doc, text), o, pl in zip(items, outs, payloads):
        r = jload(o)
        if 'dump' not in r:
            if 'too_big' in r:
                stats['too_big'] = stats.get('too_big', 0) + 1
            elif 'crash' in r or 'panic' in r:
                stats['crash'] += 1
                if stats['crash'] <= 3:
                    ctx.log("note (not a C04 matter): parser crashed on %s: %s" % (label, str(r)[:160]))
            else:
                stats['error'] += 1
            ctx.note_case('s/' + label, nontrivial=False)
            continue
        stats['parsed'] += 1
        ctx.note_case('s/' + (label if text is None else text))
        try:
            tt = tree_term(r['dump'])
            if len(tt) > 4000000:
                stats['too_big'] = stats.get('too_big', 0) + 1
                continue
            terms.append(tt)
        except (KeyError, ValueError) as e:
            ctx.violation("dump of %s cannot be turned into a Coq term: %r" % (label, e), dict(kind='s-tree', doc=pl), found_input=False)
            continue
        meta.append((label, text, r, pl))
    for label, text, r, pl in EXTRA_TREES:
        try:
            terms.append(tree_term(r['dump']))
            meta.append((label, text, r, pl))
            stats['parsed'] += 1
        except (KeyError, ValueError):
            pass
    whys = coq_why(ctx, 's_tree', terms)
    if whys is None:
        ctx.violation("valid_tree no longer evaluates on the tree dumps", dict(kind='s-tree'), found_input=False)
        return
    for (label, text, r, pl), w in zip(meta, whys):
        judge_tree(ctx, label, text, r, w, dict(kind='s-tree', label=label, payload=pl))
        if len(ctx.violations) > 12:
            break
    ctx.cov['oracle'] = dict(stats, corpus=len(files), witnesses=len(wit), generated=nnum, mutants=len(items) - len(files) - len(wit) - nnum,
                             coq_tree_terms=len(terms), coq_term_chars=sum(len(t) for t in terms))
    ctx.add_sample(dict(op='s-tree', doc=items[len(files) + len(wit)][1][:300]))
    ctx.cov['known_classes_hit'] = [c for c, _ in ctx.known_hits]


def model_search(ctx, binp, res, broken):
    """A proof / tie broke: evaluate the boolean forms of the theorems on structured random inputs."""
    rng = ctx.rng
    found = False
    sc = [gen_stroke_case(rng) for _ in range(400)]
    bad = coq_bad(ctx, 'm_stroke', 'stroke_in', 'thm_stroke', [stroke_in_term(c) for c in sc])
    for b in (bad or [])[:1]:
        ctx.violation("model counterexample to the C04 stroke theorems (source-derived leaves)",
                      dict(kind='m-stroke', doc=stroke_doc(sc[b]), case=str(sc[b])))
        found = True
    gc = [gen_grad_case(rng) for _ in range(600)]
    items = ['(%s, %s)' % grad_in_term(c) for c in gc]
    bad = coq_bad(ctx, 'm_grad', 'option (list xq) * option xq', '(fun p => thm_gradient (fst p) (snd p))', items)
    for b in (bad or [])[:1]:
        ctx.violation("model counterexample to the C04 gradient theorems (stops count / range / order / radius)",
                      dict(kind='m-gradient', doc=grad_doc(gc[b]), case=str(gc[b])))
        found = True
    rc = [gen_region_case(rng) for _ in range(300)]
    items = ['(%s, %s, %s, %s)' % tuple(xnum_f(to_f32(float(c[k]))) for k in 'xywh') for c in rc]
    bad = coq_bad(ctx, 'm_region', 'xq * xq * xq * xq', "(fun p => let '(x, y, w, h) := p in thm_region x y w h)", items)
    for b in (bad or [])[:1]:
        ctx.violation("model counterexample to the C04 region theorem", dict(kind='m-region', doc=region_doc(rc[b]), case=str(rc[b])))
        found = True
    dc = [gen_radii_case(rng) for _ in range(300)]
    items = ['(%s)' % radii_in_term(c) for c in dc]
    bad = coq_bad(ctx, 'm_radii', 'xq * xq * option radius_attr * option radius_attr',
                  "(fun p => let '(w, h, a, b) := p in thm_radii w h a b)", items)
    for b in (bad or [])[:1]:
        ctx.violation("model counterexample to the C04 rect radii theorem", dict(kind='m-radii', doc=radii_doc(dc[b]), case=str(dc[b])))
        found = True
    return found


def run(ctx):
    quick = ctx.tier == 'quick'
    ctx.cov['trusted_base'] = vlib.BASE_TRUSTED + [
        "tools/gen_style.py (slices of style.rs / paint_server.rs / shapes.rs / units.rs translated by rs2coq over the xq domain)",
        "Model/StylePrims.v: IEEE special-value rules and f32 bit patterns (approx_eq_ulps) hand-modelled; signed zero not distinguished",
        "strict-num (new_clamped, NonZeroPositiveF32::new), tiny-skia-path NonZeroRect::from_ltrb, float-cmp ulps: hand-modelled, "
        "validated by the correspondence operations",
        "tools/props/c04.py tree_term: syntactic JSON -> Coq term transducer over harness/src/dump.rs",
        "svgtypes number / length / path parsers, roxmltree, text layout (rustybuzz, fontdb): unmodelled",
    ]
    ctx.assumptions = [
        "finite f32 results are idealised as exact rationals; overflow beyond f32::MAX gives an infinity",
        "path data, arc conversion and text layout are not modelled: their outputs are checked on every produced tree only",
        "C04_rect_radii assumes converted rx/ry are not NaN (needs dpi or font-size options that are NaN/0*inf)",
    ]
    broken = ctx.translate()
    res = ctx.coq_props(extra_targets=['Model/StyleChk.v'])
    proof_ok = res['ok'] and not broken
    binp, blog = ctx.harness('release')
    if binp is None:
        ctx.violation("harness does not build against the current tree (correspondence cannot run)",
                      dict(build_log=blog[-2000:]), found_input=False)
        return
    nper = 250 if quick else 2500
    corr_ok = correspondence(ctx, binp, nper)
    oracle(ctx, binp, quick)
    if not proof_ok:
        found = bool(ctx.violations)
        if not found:
            found = model_search(ctx, binp, res, broken)
        if not found:
            ctx.violation("C04 proof obligations no longer check: %s %s" % (res['failed'] + res['audit'], [b['name'] for b in broken]),
                          dict(failed_files=res['failed'], audit=res['audit'], broken_ties=broken, log_tail=res['log'][-3000:]),
                          found_input=False)
    ctx.cov['rule'] = (
        "correspondence: crafted one-element documents per producer (stroke width/miter/dash with every unit and overflowing values; "
        "stop lists with equal / 1..6-ulp-close / descending / out-of-range offsets, radial r; mask/filter/pattern regions incl. "
        "non-positive and overflowing; rect rx/ry incl. negative, percent, infinite; text with nested tspans, x/y lists, 1-4 byte "
        "characters) - model evaluated in Coq on the same inputs.  oracle: valid_tree (Coq) on the dump of every corpus file, "
        "the fix witnesses, generated extreme-magnitude documents and one-attribute extreme mutants of corpus files + written-form "
        "scan (objectBoundingBox, %, inherit, unit suffixes, explicit user-space units) + internal units count.  Non-trivial = the "
        "document parses to a tree; distinct by document text.")


def replay(ctx, path):
    r = json.load(open(path))
    print(json.dumps({k: v for k, v in r.items() if k != 'replay'}, indent=1))
    rp = r.get('replay', {})
    binp, _ = ctx.harness('release')
    if binp is None:
        print("harness does not build")
        return 1
    doc = rp.get('payload') or ("-\t" + rp['doc'] if 'doc' in rp else None)
    if doc is None:
        print(json.dumps(rp, indent=1)[:3000])
        return 0
    out = ctx.rvh_batch(binp, 'c04-tree', [doc])[0]
    res = jload(out)
    if 'dump' not in res:
        print("parser result:", str(res)[:500])
        return 0
    w = coq_why(ctx, 'replay', [tree_term(res['dump'])], jobs=1)
    print("document:", doc[:2000])
    print("Coq `why` codes:", w[0] if w else None, [WHY.get(c) for c in (w[0] if w else [])])
    print("written-form problems:", scan_svg(res['svg'])[:10], scan_svg(res['svg_pt'])[:10])
    print("internal ObjectBoundingBox count:", res['dbg_obb'])
    if rp.get('coq_item'):
        print("correspondence item:", rp['coq_item'][:1500])
    print(res['svg'][:3000])
    return 0
