"""C08: documents for the text x write-options matrix of the round-trip oracle, and the `id-once` reading of a
written text (every written id / reference is prefix + an id of the tree, exactly once)."""
import re

from props import refgen

NS = refgen.NS
FONT = ' font-family="Noto Sans"'
CURVE = 'M 20 120 C 60 20 140 20 180 120'
LINE = 'M 20 160 L 180 160'


def _doc(body, w=200, h=200):
    return '<svg %s width="%d" height="%d" viewBox="0 0 %d %d">%s</svg>' % (NS, w, h, w, h, body)


def text_docs():
    """(label, document): plain text, tspans with decorations, text on a path in every position the writer has a
    separate route for.  The path a textPath follows is NEVER rendered itself unless the label says `visible`
    (so that a dangling or re-bound reference cannot hide behind an element of the same id)."""
    tp = '<defs><path id="curve" d="%s"/></defs>' % CURVE
    tp2 = '<defs><path id="curve" d="%s"/><path id="line" d="%s"/></defs>' % (CURVE, LINE)
    out = [
        ('text-plain', '<text x="10" y="60"%s font-size="28" fill="black">Plain text</text>' % FONT),
        ('text-tspans', '<text x="10" y="60"%s font-size="24" fill="black">ab<tspan fill="green" dy="8">cd</tspan>'
                        '<tspan x="20" y="120" fill="none" stroke="blue">ef</tspan></text>' % FONT),
        ('tspan-decorations', '<text x="10" y="60"%s font-size="24" fill="black" text-decoration="underline">ab'
                              '<tspan fill="green" text-decoration="overline line-through" stroke="blue" stroke-width="0.5">cdef</tspan>gh'
                              '<tspan x="10" y="140" text-decoration="line-through" fill="red">ij kl</tspan></text>' % FONT),
        ('tspan-decoration-colors', '<g fill="blue"><text x="10" y="80"%s font-size="30" text-decoration="underline overline">a'
                                    '<tspan fill="green" stroke="black" stroke-width="1">bc</tspan>d</text></g>' % FONT),
        ('textpath-defs', tp + '<text%s font-size="20" fill="black"><textPath xlink:href="#curve">Text on a curve</textPath></text>' % FONT),
        ('textpath-defs-transform', '<defs><path id="curve" transform="translate(10 30)" d="%s"/></defs>'
                                    '<text%s font-size="20" fill="black"><textPath xlink:href="#curve">Text on a curve</textPath></text>' % (CURVE, FONT)),
        ('textpath-two-chunks-one-path', tp + '<text%s font-size="16" fill="black"><textPath xlink:href="#curve">first</textPath>'
                                              '<textPath xlink:href="#curve" startOffset="90">second</textPath></text>' % FONT),
        ('textpath-two-texts-one-path', tp + '<text%s font-size="16" fill="black"><textPath xlink:href="#curve">first</textPath></text>'
                                             '<text%s font-size="16" fill="green"><textPath xlink:href="#curve" startOffset="100">second</textPath></text>'
         % (FONT, FONT)),
        ('textpath-two-paths', tp2 + '<text%s font-size="16" fill="black"><textPath xlink:href="#curve">on the curve</textPath>'
                                     '<textPath xlink:href="#line">on the line</textPath></text>' % FONT),
        ('textpath-decorations', tp + '<text%s font-size="20" fill="black" text-decoration="underline">'
                                      '<textPath xlink:href="#curve">Under<tspan fill="red" text-decoration="overline">lined</tspan></textPath></text>' % FONT),
        ('textpath-in-group', tp + '<g transform="translate(0 20)" opacity="0.8"><text%s font-size="20" fill="black">'
                                   '<textPath xlink:href="#curve">Inside a group</textPath></text></g>' % FONT),
        ('textpath-in-mask', tp + '<mask id="m"><rect width="200" height="200" fill="white"/><text%s font-size="22" fill="black">'
                                  '<textPath xlink:href="#curve">Cut out text</textPath></text></mask>'
                                  '<rect width="200" height="200" fill="teal" mask="url(#m)"/>' % FONT),
        ('textpath-in-pattern', tp + '<pattern id="p" width="200" height="200" patternUnits="userSpaceOnUse"><text%s font-size="22" fill="purple">'
                                     '<textPath xlink:href="#curve">Pattern text</textPath></text></pattern>'
                                     '<rect width="200" height="200" fill="url(#p)"/>' % FONT),
        ('textpath-visible-same-place', '<path id="curve" d="%s" fill="none" stroke="gray"/><text%s font-size="20" fill="black">'
                                        '<textPath xlink:href="#curve">Visible path</textPath></text>' % (CURVE, FONT)),
        ('textpath-and-text', tp + '<text x="10" y="180"%s font-size="18" fill="navy" text-decoration="underline">flat</text>'
                                   '<text%s font-size="20" fill="black"><textPath xlink:href="#curve">and curved</textPath></text>' % (FONT, FONT)),
        # text-anchor on chunks WITHOUT an explicit x (seeded C08-16): positioned by y only, not positioned at all, on a path
        ('anchor-middle-y-only', '<g transform="translate(100 0)"><text y="70"%s font-size="26" fill="black" text-anchor="middle">Middle</text></g>' % FONT),
        ('anchor-end-unpositioned', '<g transform="translate(190 90)"><text%s font-size="26" fill="black" text-anchor="end">The end</text></g>' % FONT),
        ('anchor-end-y-only-tspans', '<g transform="translate(190 0)"><text y="60"%s font-size="22" fill="black" text-anchor="end">ab<tspan y="120" '
                                     'text-anchor="middle">second</tspan></text></g>' % FONT),
        ('anchor-middle-textpath-startoffset', tp + '<text%s font-size="18" fill="black" text-anchor="middle">'
                                                    '<textPath xlink:href="#curve" startOffset="90">mid</textPath></text>' % FONT),
        ('anchor-end-textpath', tp + '<text%s font-size="18" fill="black" text-anchor="end">'
                                     '<textPath xlink:href="#curve" startOffset="150">at the end</textPath></text>' % FONT),
        ('anchor-end-with-x', '<text x="190" y="100"%s font-size="26" fill="black" text-anchor="end">With x</text>' % FONT),
    ]
    return [(lab, _doc(b)) for lab, b in out]


def clip_text_docs():
    """text inside a clipPath, without and with a transform (the latter is one more group level in the tree: dropped by the writer before 5d8487d), and a shape with a transform next to it (control)"""
    body = ('<defs><clipPath id="c1">%s</clipPath></defs><rect width="200" height="200" fill="teal" clip-path="url(#c1)"/>')
    t = '<text x="20" y="120"%s font-size="60"%s>Clip</text>'
    return [('clip-text', _doc(body % (t % (FONT, '')))),
            ('clip-text-transform', _doc(body % (t % (FONT, ' transform="translate(10 0)"')))),
            ('clip-text-transform-and-shape', _doc(body % ('<circle cx="40" cy="40" r="30" transform="translate(20 10)"/>' +
                                                           t % (FONT, ' transform="translate(10 20) scale(0.8)"'))))]


# {prefix none / non-empty} x {preserve_text}
OPTION_MATRIX = [dict(prefix=None, pt=False), dict(prefix=None, pt=True), dict(prefix='doc1-', pt=False), dict(prefix='doc1-', pt=True)]


def written_ids(text):
    """(definition ids, references) of a written document, by attribute"""
    defs = re.findall(r'\sid=(?:"([^"]*)"|\'([^\']*)\')', text)
    defs = [a or b for a, b in defs]
    refs = re.findall(r'url\(#([^)]*)\)', text)
    refs += [a or b for a, b in re.findall(r'xlink:href=(?:"#([^"]*)"|\'#([^\']*)\')', text)]
    return defs, refs


def tree_ids(d, walk):
    """every id the tree holds: nodes, definitions of every kind, text paths"""
    ids = set(n['id'] for n, ctx in walk.nodes if n['id'])
    ids |= set(i for k, ptr, i, ctx, via in walk.defs if i)
    for key in ('linear_gradients', 'radial_gradients', 'patterns', 'clip_paths', 'masks', 'filters'):
        ids |= set(x['id'] for x in d.get(key, []) if x.get('id'))
    return ids


def id_once_problems(text, d, walk, prefix):
    """the written text against C08_id_prefixed_once: each definition id is prefix + a tree id, each reference is
    prefix + a tree id, each reference has a definition.  -> list of problem texts"""
    prefix = prefix or ''
    ids = tree_ids(d, walk)
    want = set(prefix + i for i in ids)
    defs, refs = written_ids(text)
    out = []
    for x in defs:
        if x not in want:
            extra = ''
            if prefix and x.startswith(prefix + prefix) and x[len(prefix):] in want:
                extra = ' (the prefix was applied twice)'
            elif prefix and not x.startswith(prefix):
                extra = ' (the prefix is missing)'
            out.append('written id="%s" is not prefix + an id of the tree%s' % (x, extra))
    for x in refs:
        if x not in want:
            out.append('written reference #%s is not prefix + an id of the tree' % x)
        elif x not in defs:
            out.append('written reference #%s has no written definition (written ids: %s)' % (x, ', '.join(sorted(set(defs)))[:200]))
    return out


def gradient_stop_lists():
    """stop lists (offset, colour, opacity or None): repeated colours at different offsets, equal offsets with different colours,
    repeated colour + opacity, three in a row, a repeat at the end"""
    return [
        [(0, 'red', None), (0.6, 'red', None), (1, 'blue', None)],
        [(0, 'blue', None), (0.3, 'red', None), (0.7, 'red', None), (1, 'blue', None)],
        [(0, 'red', None), (0.5, 'red', None), (0.5, 'blue', None), (1, 'blue', None)],
        [(0, 'red', 0.5), (0.7, 'red', 0.5), (1, 'red', 1)],
        [(0, 'green', None), (0.2, 'green', None), (0.4, 'green', None), (1, 'yellow', None)],
        [(0, 'black', None), (0.4, 'white', None), (0.9, 'white', None)],
        [(0.1, 'red', 0.25), (0.5, 'red', 0.75), (0.9, 'red', 0.25)],
    ]


def gradient_stop_docs():
    out = []
    for k, stops in enumerate(gradient_stop_lists()):
        st = ''.join('<stop offset="%s" stop-color="%s"%s/>' % (o, c, '' if a is None else ' stop-opacity="%s"' % a) for o, c, a in stops)
        out.append(('stops-linear-%d' % k, _doc('<linearGradient id="g" gradientUnits="userSpaceOnUse" x1="10" x2="190">%s</linearGradient>'
                                                '<rect x="10" y="10" width="180" height="180" fill="url(#g)"/>' % st)))
        out.append(('stops-radial-%d' % k, _doc('<radialGradient id="g" gradientUnits="userSpaceOnUse" cx="100" cy="100" r="90">%s</radialGradient>'
                                                '<rect x="10" y="10" width="180" height="180" fill="url(#g)"/>' % st)))
    return out
