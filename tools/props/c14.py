"""C14  Offscreen group layers are invisible: isolation never changes the picture."""
import json

import vlib
from props import rendercommon as rc

FRACS = [0.37, 0.61, 0.13, 0.89, 0.29, 0.71, 0.43, 0.57]


# ------------------------------------------------------------------------------------------------
# acceptance rule of the pixel oracle.  Measured on the whole corpus (1673 comparable files, 2026-09-30,
# fit canvases with fractional root translations, modes root/all/inner/nest, scales 0.5/1/1.7/3):
#   * root / nest modes: 0 files with a channel delta > 1 at scale 1; at 0.5x and 3x <= 2 isolated pixels
#     (one AA sub-sample = 16 levels; a radial gradient ring edge: 2 levels);
#   * inner / all modes: <= 41 files differ: (a) overlapping translucent content and patterns re-quantised
#     once per layer: delta <= 3 on <= 0.7% of the painted pixels; (b) 1-2 isolated glyph pixels, delta 15-16;
#     (c) text/text/rotate-on-Arabic.svg: 28-38 pixels (1.2% of the painted ones) at glyph tips, delta <= 63:
#     tiny-skia rasterises the same path slightly differently into a small pixmap (the direct rendering is
#     bit-identical under integer shifts, so it is not the transform);
#   * opacity: nested 0.5*0.5 and 0.75*0.5 vs the product: all files within +-1; opacity 0: all blank.
#   * views where content crosses a canvas edge (native / crop, generated documents): tiny-skia's path clipper
#     makes the *direct* rendering differ from the layered one (up to 255 levels inside glyphs that cross the
#     edge), so there a pixel counts only if the isolated rendering differs from the direct rendering AND from
#     the crop of a direct rendering on a canvas large enough that nothing crosses (harness reference_crop).
#     With that: corpus native/crop 0 files above 2 levels except <= 20 pixels of class (a); generated documents:
#     <= 8 pixels <= 32 levels (huge stroked curves at 3x), <= 35 pixels <= 8 levels (opacity of AA fringes).
#     Over seeds: a 7-pixel glyph stem top off by one AA sub-scanline (64 levels; text/text/xml-lang=ja.svg at 0.5x),
#     16 of 63 painted pixels <= 32 levels on a 12x100 canvas showing only the edge of a huge stroked curve.
# Rule (deltas up to 32 levels = two AA sub-samples are rasteriser noise, above that almost nothing is allowed):
# at most 2 pixels above 64 levels; at most max(6, 1/80 of the painted pixels) above 32; at most max(16, 1/20)
# above 8; at most max(40, 1/10) above 1; no solid thin line (>= 6 pixels filling at least half of a 1-2 pixel
# wide row or column) that reaches more than 64 levels - the signature of a clipped or shifted layer.
# ------------------------------------------------------------------------------------------------
def judge(r, strict_line=True, crossing=False):
    nb = max(1, r.get('nonblank', 0))
    if r['n64'] > 2:
        return "%d pixels differ by more than 64 levels (max %d, %d painted)" % (r['n64'], r['max'], nb)
    if r['n32'] > max(6, nb // 80):
        return "%d pixels differ by more than 32 levels (of %d painted, max %d)" % (r['n32'], nb, r['max'])
    # crossing: content crosses a canvas edge at different places in the two renderings: tiny-skia's path clipper
    # perturbs anti-aliased edges by up to two sub-samples; only larger deltas count there
    if not crossing and r['n8'] > max(16, nb // 20):
        return "%d pixels differ by more than 8 levels (of %d painted, max %d)" % (r['n8'], nb, r['max'])
    if not crossing and r['n1'] > max(40, nb // 10):
        return "%d pixels differ by more than 1 level (of %d painted, max %d)" % (r['n1'], nb, r['max'])
    if strict_line and r['n1'] >= 6 and r['max'] > 64 and 'dbox' in r:
        x0, y0, x1, y1 = r['dbox']
        w, h = x1 - x0 + 1, y1 - y0 + 1
        # a (nearly) solid thin line: at least half of the cells of a 1-2 pixel wide row / column differ
        if ((w <= 2 and h >= 6) or (h <= 2 and w >= 6)) and 2 * r['n1'] >= max(w, h):
            return "a %dx%d line of %d differing pixels (clipped or shifted layer signature)" % (w, h, r['n1'])
    return None


def run_iso(ctx, binp, items, label):
    """items: list of (doc, mode, seed, cfg).  Returns stats; reports violations."""
    payloads = ["-\t%s\t%s\t%d\t%s" % (d.replace('\n', ' ').replace('\t', ' '), m, s, c) for d, m, s, c in items]
    outs = ctx.rvh_batch(binp, 'c14-iso', payloads, per_item_timeout=25)
    st = dict(cases=0, identical=0, within1=0, noisy=0, skipped=0, edge_class=0, more_layers=0, worst=0)
    nviol = 0
    for (d, m, s, c), o in zip(items, outs):
        try:
            r = json.loads(o)
        except (TypeError, ValueError):
            r = {'error': 'unparsable harness output'}
        if 'skip' in r:
            st['skipped'] += 1
            continue
        if 'crash' in r and r['crash'] == 'timeout':
            st['skipped'] += 1      # cost is C02's subject (F30), not C14's
            continue
        if 'n1' not in r:
            ctx.violation("%s: rendering with injected isolation failed: %s" % (label, str(r)[:200]),
                          dict(op='c14-iso', doc=d, mode=m, seed=s, cfg=c, result=r))
            continue
        st['cases'] += 1
        nontrivial = r['layersB'] > r['layersA'] and r['nonblank'] > 0
        if nontrivial:
            st['more_layers'] += 1
        ctx.note_case("%s/%s/%s/%s" % (d[:200], m, s, c), nontrivial=nontrivial)
        st['worst'] = max(st['worst'], r['max'])
        if r['n0'] == 0:
            st['identical'] += 1
            continue
        if r['n1'] == 0:
            st['within1'] += 1
            continue
        # content crossing a canvas edge: stroked curves are flattened differently by tiny-skia depending on the clip
        # (direct, layered and reference renderings all differ by up to ~40 levels along the edge): only > 32 levels count
        why = judge(r, crossing=bool(r.get('crossing')))
        if why is None:
            st['noisy'] += 1
            continue
        if r.get('hairline', 0) > 0 and r.get('crossing') and r['max'] <= 160 and 2 * r['n32'] <= max(1, r['nonblank']):
            # tiny-skia rasterises strokes of device width <= 1 px with its hairline code, whose result depends on the clip
            # rectangle when the line crosses it (half a pixel of displacement along a long line); width 1.01 is bit-identical
            st['hairline_clip'] = st.get('hairline_clip', 0) + 1
            ctx.known_or_violation('hairline-clip', "%s: %s [mode %s, view %s]" % (label, why, m, c),
                                   dict(op='c14-iso', doc=d, mode=m, seed=s, cfg=c, result=r))
            continue
        if r.get('ulp_flip'):
            st['ulp_flip'] = st.get('ulp_flip', 0) + 1
            ctx.known_or_violation('filter-region-ulp', "%s: %s [mode %s, view %s]" % (label, why, m, c),
                                   dict(op='c14-iso', doc=d, mode=m, seed=s, cfg=c, result=r))
            continue
        if r.get('crossing') and not r.get('ref') and not c.startswith('plain'):
            # content crosses a canvas edge and the no-crossing reference canvas would be too large: tiny-skia's
            # path clipper makes the direct rendering itself unreliable here; not judged
            st['edge_class'] += 1
            continue
        nviol += 1
        if nviol <= 3:
            ctx.violation("%s: isolation changes the picture: %s [mode %s, view %s]" % (label, why, m, c),
                          dict(op='c14-iso', doc=d, mode=m, seed=s, cfg=c, result=r,
                               replay="rvh c14-iso, payload '-\\t<doc>\\t<mode>\\t<seed>\\t<cfg>\\temit'"))
    return st


def cfg_fit(rng, scale):
    return "fit:%s:%s:%s" % (scale, rng.choice(FRACS), rng.choice(FRACS))


def model_search_algebra(ctx, n=200):
    """random render trees through chk_layer_invisible; returns a failing tree (text) or None / 'error'"""
    rng = ctx.rng

    def q():
        return "(%d # %d)" % (rng.below(17), 16)

    def px():
        a = rng.below(17)
        return "{| pr := (%d # 16); pg := (%d # 16); pb := (%d # 16); pa := (%d # 16) |}" % (rng.below(a + 1), rng.below(a + 1), rng.below(a + 1), a)

    def node(d):
        if d == 0 or rng.below(3) == 0:
            return "(Draw %s)" % px()
        iso = rng.below(2) == 0
        o = q() if iso else "1"
        return "(Grp %s %s [%s])" % ('true' if iso else 'false', o, "; ".join(node(d - 1) for _ in range(1 + rng.below(3))))
    trees = [node(4) for _ in range(n)]
    body = ("Local Open Scope Q_scope.\nDefinition cases : list (node * px) := [\n%s\n].\n"
            "Eval vm_compute in (bad_indices (fun c => chk_layer_invisible (fst c) (snd c)) cases).\n"
            % ";\n".join("(%s, %s)" % (t, px()) for t in trees))
    rcode, out = ctx.coq_eval('search_algebra', body, ['Model.Base', 'Model.Corr', 'Model.Compose'], timeout=300)
    bad = ctx.parse_N_list(out) if rcode == 0 else None
    if bad is None:
        return 'error'
    return trees[bad[0]] if bad else None


def zl(vals, chunk=200):
    """Coq `list Z` literal that the parser survives (nested chunks)"""
    if len(vals) <= chunk:
        return "[%s]" % ";".join(str(v) for v in vals)
    return "(concat [%s])" % ";\n".join("[%s]" % ";".join(str(v) for v in vals[i:i + chunk]) for i in range(0, len(vals), chunk))


def drawpix_correspondence(ctx, binp):
    """Extension round 4: the byte arithmetic of the layer composite (Model/Compose8.v over8 = Blend8.over_u8) against the real
    tiny-skia draw_pixmap with render_group's paint, on all 256 x 256 (s, sa) pairs for destination byte 0 or 255 and a random
    one (thorough: 0, 255 and four random ones); compared inside Coq (8 s per destination byte on a loaded machine).  Returns the number of tables compared."""
    ds = sorted(set([255 * ctx.rng.below(2), 1 + ctx.rng.below(254)] if ctx.tier == 'quick' else [0, 255] + [1 + ctx.rng.below(254) for _ in range(4)]))
    outs = ctx.rvh_batch(binp, 'c14-drawpix', [str(d) for d in ds])
    terms = []
    for d, o in zip(ds, outs):
        try:
            r = json.loads(o)
        except (TypeError, ValueError):
            r = {}
        if 't' not in r or not r.get('uniform') or not r.get('frame_ok') or len(r['t']) != 65536 or len(r['ta']) != 65536:
            ctx.violation("c14-drawpix: the layer composite treats r, g, b differently, touches pixels outside the layer, or the op failed "
                          "(d = %d): %s" % (d, str({k: v for k, v in r.items() if k not in ('t', 'ta')})[:200]),
                          dict(op='c14-drawpix', d=d))
            continue
        terms.append("(verdict (diff_indices (drawpix_table (fun s sa => over_u8 s sa %d)) %s))" % (d, zl(r['t'])))
        terms.append("(verdict (diff_indices (drawpix_table (fun s sa => over_u8 sa sa %d)) %s))" % (d, zl(r['ta'])))
        ctx.note_case("drawpix/%d" % d, nontrivial=True)
    if not terms:
        return 0
    rcode, out = ctx.coq_eval('drawpix', "Local Open Scope Z_scope.\nEval vm_compute in [%s].\n" % ";\n".join(terms),
                              ['Model.Base', 'Model.Blend8', 'Model.Compose8'], timeout=600)
    v = ctx.parse_N_list(out) if rcode == 0 else None
    if v is None:
        ctx.violation("c14-drawpix: the model could not be evaluated: %s" % out[-400:], dict(op='c14-drawpix', ds=ds), found_input=False)
        return 0
    for i, x in enumerate(v):
        if x != 0:
            d = ds[i // 2]
            idx = x - 1
            ctx.violation("C14_quantisation / C14_draw_pixmap_rounds_over tie: tiny-skia's draw_pixmap (render_group's layer paint) disagrees with "
                          "over_u8 on the %s channel: source (s=%d, sa=%d) over destination byte %d"
                          % ('colour' if i % 2 == 0 else 'alpha', min(idx % 256, idx // 256), idx // 256, d),
                          dict(op='c14-drawpix', d=d, s=min(idx % 256, idx // 256), sa=idx // 256, channel='colour' if i % 2 == 0 else 'alpha'))
    return len(v)


def _f32(x):
    import struct
    try:
        return struct.unpack('f', struct.pack('f', x))[0]
    except OverflowError:
        return x


def _lbox(xywh):
    x, y, w, h = xywh
    return "(mkbox %s %s %s %s)" % (vlib.qstr(x), vlib.qstr(y), vlib.qstr(_f32(x + w)), vlib.qstr(_f32(y + h)))


def _finite(v):
    return all(isinstance(x, (int, float)) and abs(x) < 1e30 for x in v)


def ltree_coq(n):
    """usvg node (harness dump) -> Model/LayerTree.v ltree term, or None when a number is not finite"""
    if n['t'] != 'g':
        return "(LLeaf %s)" % _lbox(n['sbbox']) if _finite(n['sbbox']) else None
    ch = [ltree_coq(c) for c in n['children']]
    if any(c is None for c in ch) or not _finite(n['ts']) or any(not _finite(f['rect']) for f in n.get('filters', [])):
        return None
    return "(LGroup (from_row %s) [%s] [%s])" % (" ".join(vlib.qstr(v) for v in n['ts']),
                                                  "; ".join(_lbox(f['rect']) for f in n.get('filters', [])), "; ".join(ch))


def lbbox_correspondence(ctx, binp, files):
    """Second pass: usvg's reported Group::layer_bounding_box of every group of the sampled corpus files against `layer_of`
    (Model/LayerTree.v) of the tree rebuilt from the leaves' stroke boxes, the group transforms and the filter regions -
    compared inside Coq (relative tolerance 1e-4: usvg rounds every transformed box to f32, the model is exact)."""
    outs = ctx.rvh_batch(binp, 'dump', ["-\t@%s" % f for f in files], per_item_timeout=20)
    rows, where = [], []
    deep = 0
    for f, o in zip(files, outs):
        try:
            tree = json.loads(o)
        except (TypeError, ValueError):
            continue
        if 'root' not in tree:
            continue

        def rec(n, depth, path):
            nonlocal deep
            if n['t'] != 'g':
                return
            if (n['children'] or n.get('filters')) and _finite(n['lbbox']):
                t = ltree_coq(n)
                if t is not None and len(t) < 60000:
                    rows.append("(%s, %s)" % (t, _lbox(n['lbbox'])))
                    where.append((f, path, n.get('id', ''), n['lbbox']))
                    has_sub = any(c['t'] == 'g' and (c['children'] or c.get('filters')) for c in n['children'])
                    deep += 1 if has_sub else 0
                    ctx.note_case("lbbox/%s/%s" % (f, path), nontrivial=has_sub or bool(n.get('filters')))
            for i, c in enumerate(n['children']):
                rec(c, depth + 1, "%s/%d" % (path, i))
        rec(tree['root'], 0, '')
    if not rows:
        ctx.violation("c14-lbbox: no group could be rebuilt from the usvg dump", dict(op='dump', files=files[:3]), found_input=False)
        return dict(groups=0)
    bad = []
    for k in range(0, len(rows), 400):
        body = ("Local Open Scope Q_scope.\nDefinition cases : list (ltree * box) := [\n%s\n].\n"
                "Eval vm_compute in (bad_indices (fun c => chk_layer_of (1 # 10000) (fst c) (snd c)) cases).\n" % ";\n".join(rows[k:k + 400]))
        rcode, out = ctx.coq_eval('lbbox_%d' % k, body, ['Model.Base', 'Model.Corr', 'Model.BBox', 'Model.LayerTree'], timeout=300)
        v = ctx.parse_N_list(out) if rcode == 0 else None
        if v is None:
            ctx.violation("c14-lbbox: the model could not be evaluated: %s" % out[-400:], dict(op='dump'), found_input=False)
            return dict(groups=len(rows))
        bad += [k + i for i in v]
    for i in bad[:3]:
        f, path, gid, lb = where[i]
        ctx.violation("C14_layer_box_contains_painted tie (c14-lbbox): usvg reports layer_bounding_box %s for group %r (child path %s) of %s, "
                      "the source-locked model computes a different box from the leaves (layer_of)" % (lb, gid, path or '/', f),
                      dict(op='dump', doc='@' + f, group_path=path, group_id=gid, reported=lb, model_term=rows[i][:1500]))
    return dict(groups=len(rows), with_subgroups=deep, bad=len(bad))


def run(ctx):
    rng = ctx.rng
    quick = ctx.tier == 'quick'
    ctx.cov['trusted_base'] = vlib.BASE_TRUSTED + [
        "tiny-skia rasteriser, path clipper, draw_pixmap with opacity < 1: unmodelled; observed by the pixel oracle only",
        "tiny-skia draw_pixmap (SourceOver, opacity 1, Nearest) hand-modelled as Blend8.over_u8; compared on all 65 536 (s, sa) pairs "
        "for 2 (thorough: 6) destination bytes per run (c14-drawpix); the layer paint literal of render_group is checked by tools/gen_filterpos.py",
        "tiny_skia_path::Rect::to_int_rect, IntRect::from_xywh/from_ltrb hand-modelled (Model/RenderPrims.v, Model/Base.v), tied by the layer-trace correspondence",
        "usvg layer_bounding_box: computed from the leaves by Model/LayerTree.v layer_of = C12's model of calculate_bounding_boxes (Model/BBox.v, "
        "locked by Gen/BBoxTables.v), tied by the c14-lbbox correspondence; the leaves' stroke boxes themselves are C12's subject",
    ]
    ctx.assumptions = [
        "C14_layer_invisible*: exact rational source-over; the 8-bit layer composite is within 1/2 level of it (C14_draw_pixmap_rounds_over) "
        "and n draws through a layer are within (3n-1)/2 levels of direct painting (C14_quantisation; children composited by draw_pixmap)",
        "C14_layer_covers_content / C14_nested_layer_covers_content: device box within +-2^29 (outside: C14_layer_covers_content_refuted, class huge-group-dropped)",
        "content uses normal blending (documents with mix-blend-mode other than normal are skipped by the oracle)",
    ]
    broken = ctx.translate()
    res = ctx.coq_props()
    proof_ok = res['ok'] and not broken
    # the model files the correspondence evaluates (also when a proof file no longer compiles)
    ctx.coq_build(['Model/Corr.v', 'Model/Render.v', 'Model/Compose.v', 'Model/Compose8.v', 'Model/LayerTree.v'])

    binp, blog = ctx.harness('release')
    if binp is None:
        ctx.violation("harness does not build against the current tree (correspondence cannot run)",
                      dict(build_log=blog[-2000:]), found_input=False)
        return

    files = vlib.corpus_files()

    # ------------------------------------------------------------------ K: the 8-bit layer composite (extension round 4)
    ntab = drawpix_correspondence(ctx, binp)
    ctx.cov['drawpix_tables'] = ntab
    # known class layer-requantisation: the witness of C14_quantisation_two_attained replayed on the real draw_pixmap.  Expected:
    # 178 directly, 180 through the layer (2 levels: within the proved (3n-1)/2 for n = 2, beyond the property's +-1).
    # Equal results = the class is gone; anything else (beyond the proved bound, or other numbers) = a different violation.
    o = ctx.rvh_batch(binp, 'c14-drawpix', ['seq:252,252,252,255;21,21,21,30;45,45,45,115'])[0]
    try:
        rq = json.loads(o)
    except (TypeError, ValueError):
        rq = {}
    ctx.cov['requantisation_probe'] = rq
    rrep = dict(op='c14-drawpix', payload='seq:252,252,252,255;21,21,21,30;45,45,45,115', result=rq)
    if 'direct' not in rq:
        ctx.violation("c14-drawpix seq: the requantisation witness could not be replayed: %s" % str(rq)[:200], rrep)
    else:
        dmax = max(abs(a - b) for a, b in zip(rq['direct'], rq['layered']))
        if rq['direct'] == [178, 178, 178, 255] and rq['layered'] == [180, 180, 180, 255]:
            ctx.known_or_violation('layer-requantisation', "two translucent children (21,a30), (45,a115) over 252: 178 painted directly, 180 through "
                                   "an 8-bit layer (2 levels > the property's +-1; proved bound (3n-1)/2 = 2)", rrep)
        elif dmax > 2:
            ctx.violation("C14_quantisation: the real draw_pixmap exceeds the proved bound (3n-1)/2 = 2 for two children: direct %s, layered %s"
                          % (rq['direct'], rq['layered']), rrep)
        elif dmax > 0:
            ctx.violation("C14_quantisation_two_attained: the real draw_pixmap gives direct %s, layered %s where the model says 178 / 180"
                          % (rq['direct'], rq['layered']), rrep)
    ctx.log("c14-drawpix: %d exhaustive 256x256 tables agree with over_u8" % ntab)

    # ------------------------------------------------------------------ K: layer_bounding_box from the leaves (second pass)
    lb = lbbox_correspondence(ctx, binp, rng.sample(files, 250 if quick else len(files)))
    ctx.cov['lbbox'] = lb
    ctx.log("c14-lbbox: %s" % lb)

    # ------------------------------------------------------------------ K: layer-trace correspondence
    nfiles = 500 if quick else len(files)
    jobs = rc.trace_jobs_corpus(ctx, rng.sample(files, nfiles), 2 if quick else 5)
    jobs += rc.trace_jobs_generated(ctx, 300 if quick else 3000)
    tr = rc.layer_trace_correspondence(ctx, binp, jobs)
    rc.report_trace(ctx, tr, "layer-trace")
    ctx.cov['correspondence_cases'] = tr['distinct']
    ctx.cov['trace'] = dict(renders=len(jobs), layer_events=tr['events'], distinct=tr['distinct'], clamped=tr['clamped'],
                            with_filters=tr['filtered'])
    ctx.log("layer-trace: %d renders, %d layer events, %d distinct (%d clamped, %d with filters), %d disagreements"
            % (len(jobs), tr['events'], tr['distinct'], tr['clamped'], tr['filtered'], len(tr['bad'])))
    if tr['distinct'] < 200:
        ctx.violation("layer-trace correspondence recorded only %d layer events (trace hook missing or silent)" % tr['distinct'],
                      dict(op='layer-trace', renders=len(jobs)), found_input=False)

    # nested chains: the clamp box a layer hands to its children (source-derived layer_child_max) vs the recorded one
    ch = rc.chain_trace_correspondence(ctx, binp, 60 if quick else 600)
    ctx.cov['chain_trace'] = ch
    ctx.log("chain-trace: %s" % ch)
    # regression: the witness of the fixed nested clamp (ffdf909) must render like the same document without isolation
    wit = open(vlib.VERIF + '/corpus/witness/C14-nested-layer-clamp.svg').read().strip()
    o = ctx.rvh_batch(binp, 'render-pair', ["-\t%s\t1,0,0,1,0,0\t%s\t1,0,0,1,0,0\t100\t100\t1"
                                            % (wit.replace(' style="isolation:isolate"', ''), wit)])[0]
    try:
        r = json.loads(o)
    except (TypeError, ValueError):
        r = {}
    if r.get('ndiff', 1) != 0 or r.get('nonblank', 0) == 0:
        ctx.violation("regression: three nested isolated groups lose content again (nested layers clamped in the wrong frame; fixed in ffdf909): %s" % str(r)[:200],
                      dict(op='render-pair', docA=wit.replace(' style="isolation:isolate"', ''), docB=wit, canvas=[100, 100], result=r))

    # ------------------------------------------------------------------ S: e2e-C14 on the corpus (nothing crosses a canvas edge)
    stats = {}

    def corpus_items(mode, scale, sample=None, skip_heavy=False, kind='fit'):
        fs = files if sample is None else rng.sample(files, sample)
        out = []
        for f in fs:
            if skip_heavy and ('feMorphology' in f or 'feTurbulence' in f):
                continue
            out.append(('@' + f, mode, rng.below(1 << 30) + 1, "%s:%s:%s:%s" % (kind, scale, rng.choice(FRACS), rng.choice(FRACS))))
        return out
    plan = [('root', 1, None, False), ('all', 1, None, False), ('inner', 1, None, False), ('nest2', 0.5, None, False),
            ('root', 3, 400 if quick else None, True), ('inner', 0.5, 400 if quick else None, False),
            ('opmul:0.5:0.5', 1, 500 if quick else None, False), ('opmul:0.75:0.5', 1, 300 if quick else None, False),
            ('op0', 1, 300 if quick else None, False), ('op1', 1, 300 if quick else None, False)]
    if not quick:
        plan += [('all', 3, None, True), ('nest4', 1.7, None, True), ('inner', 3, None, True), ('all', 0.5, None, False)]
    plan = [p + ('fit',) for p in plan]
    # content crossing the canvas edges: judged against a no-crossing reference (see harness c14.rs reference_crop)
    plan += [('root', 1, 500 if quick else None, False, 'native'), ('all', 1, 500 if quick else None, False, 'crop'),
             ('inner', 1, 300 if quick else None, False, 'crop')]
    for mode, scale, sample, skip_heavy, kind in plan:
        items = corpus_items(mode, scale, sample, skip_heavy, kind)
        st = run_iso(ctx, binp, items, "e2e-C14 corpus")
        stats["corpus %s %s @%sx" % (mode, kind, scale)] = st
        ctx.log("e2e-C14 corpus %-15s %-6s @%sx: %s" % (mode, kind, scale, st))
        if mode == 'root' and kind == 'fit' and st['cases'] > 100 and st['more_layers'] == 0:
            ctx.violation("the oracle is vacuous: wrapping the content in <g style=\"isolation:isolate\"> allocated no additional layer in "
                          "%d documents (Group::should_isolate / the isolation property no longer force a layer)" % st['cases'],
                          dict(op='c14-iso', doc=items[0][0], mode=mode, seed=items[0][2], cfg=items[0][3]))
        if len(ctx.violations) > 8:
            break

    # ------------------------------------------------------------------ S: generated documents, content may cross the edges
    ngen = 400 if quick else 4000
    items = []
    for k in range(ngen):
        doc, W, H = rc.gen_doc(rng)
        mode = rng.choice(['root', 'all', 'inner', 'nest3', 'opmul:0.5:0.5', 'op0'])
        kind = rng.choice(['native', 'native', 'fit', 'crop'])
        cfg = "%s:%s:%s:%s" % (kind, rng.choice([0.5, 1, 3]), rng.choice(FRACS), rng.choice(FRACS))
        items.append((doc, mode, rng.below(1 << 30) + 1, cfg))
    st = run_iso(ctx, binp, items, "e2e-C14 generated")
    stats['generated'] = st
    ctx.log("e2e-C14 generated: %s" % st)
    # documents whose extent is defined by a filter region 2-3 group levels below the injected isolation, or by
    # the caps / joins of a thick stroke on a diagonal open path (seeded changes C14-1, C14-2): nothing crosses
    # a canvas edge, so the strict rule applies
    xitems = []
    for k in range(400 if quick else 4000):
        xitems.append((rc.gen_extent_doc(rng), rng.choice(['root', 'all', 'nest2']), rng.below(1 << 30) + 1,
                       "fit:%s:%s:%s" % (rng.choice([0.5, 1, 1, 2, 3]), rng.choice(FRACS), rng.choice(FRACS))))
    # cap-only dots in kept child groups: the document size is the canvas (the root box itself may be what is wrong)
    for k in range(120 if quick else 1200):
        xitems.append((rc.gen_dot_doc(rng), rng.choice(['root', 'all']), rng.below(1 << 30) + 1,
                       "native:%s:%s:%s" % (rng.choice([0.5, 1, 3]), rng.choice([0, 0.37]), rng.choice([0, 0.13]))))
    # children with clip-path / mask definitions that carry their own transform or objectBoundingBox units, inside the
    # group that receives isolation (seeded change C14-12)
    for k in range(150 if quick else 1500):
        xitems.append((rc.gen_clipped_child_doc(rng), rng.choice(['root', 'all', 'inner']), rng.below(1 << 30) + 1,
                       "native:%s:%s:%s" % (rng.choice([0.5, 1, 1, 2]), rng.choice([0, 0.37]), rng.choice([0, 0.13]))))
    st = run_iso(ctx, binp, xitems, "e2e-C14 extents")
    stats['extents'] = st
    ctx.log("e2e-C14 extents: %s" % st)
    # outlines outside the canvas whose miter tip / square-cap corner reaches back in (seeded change C14-5): the direct and
    # the isolated rendering are compared as they are (no reference: the reference would excuse a wrong DIRECT rendering);
    # only deltas > 32 levels count there (tiny-skia clip noise on HEAD: one pixel, 16 levels)
    mitems = [(rc.gen_miter_doc(rng)[0], rng.choice(['root', 'all']), rng.below(1 << 30) + 1,
               "plain:%s:%s:%s" % (rng.choice([1, 1, 2]), rng.choice([0, 0.37]), rng.choice([0, 0.13]))) for _ in range(150 if quick else 1500)]
    st = run_iso(ctx, binp, mitems, "e2e-C14 miter tips")
    stats['miter_tips'] = st
    ctx.log("e2e-C14 miter tips: %s" % st)
    # tiny content (sub-pixel .. 3 px on the device) at root scales 0.5 and 1: a layer must not drop it (seeded change C14-9).
    # Strict rule: with so few pixels there is no room for the statistical one - the isolated rendering must paint
    # something whenever the direct one does, and no pixel may differ by more than 64 levels (HEAD: a 1-row shape loses one of
    # tiny-skia's four AA sub-scanlines in the smaller pixmap: alpha 128,192 -> 96,144, i.e. <= 48 levels).
    titems = [(rc.gen_tiny_doc(rng), rng.choice(['root', 'all', 'nest2']), rng.below(1 << 30) + 1,
               "fit:%s:%s:%s" % (rng.choice([0.5, 0.5, 1]), rng.choice([0, 0.37, 0.5]), rng.choice([0, 0.13, 0.5]))) for _ in range(200 if quick else 2000)]
    touts = ctx.rvh_batch(binp, 'c14-iso', ["-\t%s\t%s\t%d\t%s" % it for it in titems])
    tst = dict(cases=0, identical=0, vanished=0, differ=0)
    for it, o in zip(titems, touts):
        try:
            r = json.loads(o)
        except (TypeError, ValueError):
            r = {}
        if 'n1' not in r:
            continue
        tst['cases'] += 1
        ctx.note_case("tiny/%s/%s/%s" % (it[0][:200], it[1], it[3]), nontrivial=r.get('nbA', 0) > 0)
        if r['n0'] == 0:
            tst['identical'] += 1
            continue
        gone = r.get('nbA', 0) > 0 and r.get('nbB', 0) == 0
        if gone or r['n64'] > 0:
            tst['vanished' if gone else 'differ'] += 1
            if tst['vanished'] + tst['differ'] <= 3:
                ctx.violation("e2e-C14 tiny content: %s [mode %s, view %s]" % (
                    "the content vanishes when a layer is forced (%d pixels painted directly, none through the layer)" % r['nbA'] if gone
                    else "%d pixels differ by more than 64 levels (max %d)" % (r['n64'], r['max']), it[1], it[3]),
                    dict(op='c14-iso', doc=it[0], mode=it[1], seed=it[2], cfg=it[3], result=r))
    stats['tiny'] = dict(tst, cases=tst['cases'])
    ctx.log("e2e-C14 tiny content: %s" % tst)
    ctx.add_sample(dict(op='c14-iso', doc=items[0][0], mode=items[0][1], cfg=items[0][3]))
    ctx.add_sample(dict(op='c14-iso', doc='@' + files[len(files) // 3], mode='all', cfg='fit:1:0.37:0.61'))
    ctx.cov['e2e'] = stats
    ctx.cov['e2e_cases'] = sum(s['cases'] for s in stats.values())

    # ------------------------------------------------------------------ known class: huge group dropped (C14_layer_covers_content_refuted)
    huge = ('<svg %s width="100" height="100"><g style="isolation:isolate"><rect x="-1073741824" y="10" width="2147483648" height="30" fill="#22d"/></g></svg>' % rc.NS)
    plain = huge.replace(' style="isolation:isolate"', '')
    o = ctx.rvh_batch(binp, 'render-pair', ["-\t%s\t1,0,0,1,0,0\t%s\t1,0,0,1,0,0\t100\t100\t1" % (plain, huge)])[0]
    try:
        r = json.loads(o)
    except (TypeError, ValueError):
        r = {}
    ctx.cov['huge_group_probe'] = r
    if r.get('ndiff', 0) > 0:
        ctx.known_or_violation('huge-group-dropped',
                               "an isolated group whose device box exceeds i32 range is dropped although it covers the canvas "
                               "(%d pixels differ from the direct rendering)" % r['ndiff'],
                               dict(op='render-pair', docA=plain, docB=huge, canvas=[100, 100], result=r))

    # ------------------------------------------------------------------ proofs broken: search
    if not proof_ok:
        found = bool(ctx.violations)
        if not found:
            g = rc.model_search_geometry(ctx, 300 if quick else 3000)
            a = model_search_algebra(ctx)
            if g:
                for name, d, cnt in g[:2]:
                    doc = rc.doc_for_bbox(d)
                    o = ctx.rvh_batch(binp, 'c14-iso', ["-\t%s\troot\t1\tnative:1:0:0\temit" % doc])[0]
                    ctx.violation("model counterexample to %s in the source-derived layer geometry (%d of the sampled boxes fail): %s"
                                  % (name, cnt, json.dumps(d)),
                                  dict(theorem=name, model_input=d, doc=doc, implementation_result=o[:1500],
                                       failed_files=res['failed'], broken_ties=broken))
                found = True
            if a and a != 'error':
                ctx.violation("model counterexample to C14_layer_invisible_tree / C14_isolation_flags_irrelevant: %s" % a[:300],
                              dict(tree=a, failed_files=res['failed']))
                found = True
        if not found:
            ctx.violation("C14 proof obligations no longer check: %s %s" % (res['failed'] + res['audit'], [b['name'] for b in broken]),
                          dict(failed_files=res['failed'], audit=res['audit'], broken_ties=broken, log_tail=res['log'][-3000:]),
                          found_input=False)

    ctx.cov['rule'] = ("layer-trace: corpus files x sampled (canvas, root transform) views (1x1 .. 512x512, identity, fractional shift, "
                       "scale 0.01 / 3 / 17, rotate, skew, near-singular) + generated nested-group / filter documents; every distinct recorded "
                       "(bbox, filters, max) is one case.  e2e: every corpus file's Micro-SVG with isolation injected at the root, at random "
                       "inner groups, at all groups, nested 2-4 deep, scales 0.5/1/3 with fractional translations on canvases sized from the "
                       "root layer box; generated documents with content partly/wholly outside the canvas; nested opacities vs product, "
                       "opacity 0, opacity 1.  A case is non-trivial when the injected document allocates more layers than the original "
                       "and paints something; distinct by (document, mode, seed, view).")


def replay(ctx, path):
    r = json.load(open(path))
    rp = r.get('replay', {})
    print(json.dumps({k: v for k, v in r.items() if k != 'replay'}, indent=1))
    binp, _ = ctx.harness('release')
    if binp is None:
        print("harness does not build")
        return 1
    if rp.get('op') == 'c14-iso':
        o = ctx.rvh_batch(binp, 'c14-iso', ["-\t%s\t%s\t%s\t%s\temit" % (rp['doc'].replace('\n', ' '), rp['mode'], rp['seed'], rp['cfg'])])[0]
        try:
            j = json.loads(o)
            print("result now: " + json.dumps({k: v for k, v in j.items() if not k.startswith('doc')}))
            print("document A (original Micro-SVG):\n" + j.get('docA', '')[:3000])
            print("document B (isolation injected):\n" + j.get('docB', '')[:3000])
            why = judge(j) if 'n1' in j else 'render failed'
            print("verdict now: %s" % (why or 'within tolerance'))
        except (TypeError, ValueError):
            print(o)
    elif rp.get('op') == 'layer-trace':
        W, H = rp['canvas']
        o = ctx.rvh_batch(binp, 'layer-trace', ["-\t%s\t%s\t%d\t%d" % (rp['doc'].replace('\n', ' '), rc.ts_str(rp['root_transform']), W, H)])[0]
        print("recorded event: " + json.dumps(rp.get('event')))
        print("trace now: " + o[:3000])
    elif rp.get('op') == 'render-pair':
        o = ctx.rvh_batch(binp, 'render-pair', ["-\t%s\t1,0,0,1,0,0\t%s\t1,0,0,1,0,0\t%d\t%d\t1" % (rp['docA'], rp['docB'], rp['canvas'][0], rp['canvas'][1])])[0]
        print("result now: " + o)
    else:
        print(json.dumps(rp, indent=1)[:6000])
    return 0
