"""C09  Presentation resolution does not depend on how a property is spelled.

Parts:
  proof   coq/Props/C09.v over Gen/SvgTables.v + Gen/Units.v (source-derived) and Model/Cascade.v (hand model)
  K       `cascade`  : random small documents with random declaration sources -> usvg's private svgtree (hook
                       svgtree_dump) vs Model.Cascade.build_doc, compared inside Coq (doc_case_ok)
          `find-attr`: svg>g>g>path chains -> FillRule/LineCap/LineJoin of the converted path vs the model's
                       find_attribute (find_case_ok)
          `selector` : documents with style sheets over all selector forms simplecss supports (type, *, #id, .class,
                       [a], [a=v], [a~=v], [a|=v], :first-child, other pseudo-classes, descendant / child / adjacent
                       combinators, groups, injected sheet) -> svgtree vs Model.CascadeSel (the MODEL matches the
                       selectors, sorts the rules by specificity and runs the cascade: sel_case_ok)
  tables  Gen/ReadSites.v (tools/gen_readsites.py): every read site of a presentation attribute in the converter with the
          Rust type it is parsed with; obligations of Proofs/CascadeSites.v decided by computation over it
  S       `spelling` : random base documents over all presentation properties x spelling rewrites
                       -> Tree::to_string compared token-wise (numbers within 1e-4 relative)
Noise floor measured on 18 724 pairs (thorough tier, seed 1) + 3 x 1 200 (quick, seeds 1, 2, 12345): largest relative
difference of a number token 3.81e-6 (unit conversions through cm/mm/pt in f32, text outlines); the tolerance is 1e-4.
"""
import copy
import json
import re

import vlib
import gen_svgtree
import gen_readsites

NS = 'xmlns="http://www.w3.org/2000/svg" xmlns:xlink="http://www.w3.org/1999/xlink"'
MY_TIES = ('SvgTables', 'gen_svgtree', 'units.convert_length', 'gen_units', 'translate.py', 'ReadSites', 'gen_readsites', 'FontWeight', 'gen_fontweight')


def hexs(s):
    return s.encode().hex()


def coq_str(s):
    return '"' + s.replace('"', '""') + '"'


def ctor_name(rust):
    return rust


class Tables:
    def __init__(self):
        import os

        def rd(rel):
            with open(os.path.join(vlib.REPO, rel), encoding='utf-8') as f:
                return f.read()
        # non-strict: when an anchor is lost (tie broken, reported by the translator) the generators keep working on
        # what is still readable plus the last-known values below, so that a failing input can still be searched for
        t = gen_svgtree.parse_tables(rd, strict=False)
        self.t = t
        self.errors = t['errors']
        self.aname2ctor = dict(t['anames'])
        self.ctor2aname = {c: n for n, c in t['anames']}
        self.ename2ctor = dict(t['enames'])

        def names(key, fallback):
            if key in t:
                return [self.ctor2aname[c] for c in t[key]]
            return [n for n in fallback if n in self.aname2ctor]
        self.presentation = names('is_presentation', sorted(POOLS))
        self.allows_inherit = set(names('allows_inherit_value', INHERIT_PROPS))
        self.non_inheritable = set(names('is_non_inheritable', sorted(SPEC_NONINHERITED)))
        self.style_only = set(names('style_only', ['mix-blend-mode', 'isolation', 'font-kerning']))
        self.css_only_values = set(t.get('css_only_values', ['smooth', 'high-quality', 'crisp-edges', 'pixelated']))
        self.css_only_attr = self.ctor2aname.get(t.get('css_only_value_attr', 'ImageRendering'), 'image-rendering')
        self.defaults = ({self.ctor2aname[a]: v for a, v in t['inherit_default']} if 'inherit_default' in t
                         else dict(SPEC_INITIAL))
        # converter read sites (tools/gen_readsites.py): (file, fn, AId ctor, method, reader type); element kinds per function
        try:
            x = gen_readsites.extract(rd, strict=False)
            self.sites = x['sites']
            self.site_errors = x['errors']
            ctor2ename = {c: n for n, c in t['enames']}
            self.site_kinds = {fn: [ctor2ename[k] for k in ks if k in ctor2ename]
                               for fn, ks in gen_readsites.site_elements(x).items()}
        except (gen_readsites.Missing, gen_svgtree.Missing, OSError, KeyError, ValueError) as e:
            self.sites, self.site_errors, self.site_kinds = [], [str(e)], {}

    def read_kinds(self):
        """[(element name, property name)] for every value read site whose function serves known element kinds"""
        out = []
        for f, fn, a, how, reader, walk in self.sites:
            if reader == 'presence' or a not in self.ctor2aname:
                continue
            for k in self.site_kinds.get(fn, []):
                if (k, self.ctor2aname[a]) not in out:
                    out.append((k, self.ctor2aname[a]))
        return out

    def A(self, name):
        return 'A_' + self.aname2ctor[name]

    def E(self, name):
        return 'E_' + self.ename2ctor[name]


# =================================================================================================
# K: cascade correspondence
# =================================================================================================
K_TAGS = ['g', 'g', 'a', 'rect', 'path', 'circle', 'defs', 'linearGradient', 'stop', 'clipPath', 'mask', 'filter',
          'feFlood', 'image', 'ellipse', 'line', 'polygon', 'marker', 'pattern', 'symbol', 'svg', 'switch']
K_VALUES = ['inherit', 'inherit', 'red', 'none', '1', '0.5', 'v', 'url(#x)', 'smooth', 'pixelated', 'auto', '10px',
            'w q', 'crisp-edges']
K_NONPRES = ['x', 'y', 'width', 'height', 'd', 'transform', 'xlink:href', 'xml:space', 'offset', 'points', 'kerning']
K_UNKNOWN = ['foo', 'data-k', 'q:fill']


class XNode:
    def __init__(self, tag, parent=None):
        self.tag = tag
        self.parent = parent
        self.attrs = []          # (qname, value) in document order, including id / class / style
        self.style = []          # (name, value, important): rendered into the style attribute
        self.children = []
        self.text = None
        self.sheet = None        # for <style>: (type attr or None, [rules])
        if parent is not None:
            parent.children.append(self)

    def get(self, qn):
        for k, v in self.attrs:
            if k == qn:
                return v
        return None

    def ident(self):
        return self.get('id')

    def classes(self):
        return (self.get('class') or '').split()


def sel_text(sel):
    out = ''
    for comb, typ, subs in sel:
        out += {'': '', ' ': ' ', '>': ' > '}[comb]
        out += typ if typ else ('*' if not subs else '')
        for k, v in subs:
            out += ('#' if k == 'id' else '.') + v
    return out


def sel_spec(sel):
    s = [0, 0, 0]
    for comb, typ, subs in sel:
        if typ and typ != '*':
            s[2] += 1
        for k, v in subs:
            if k == 'id':
                s[0] += 1
            else:
                s[1] += 1
    return s


def simple_match(comp, n):
    _, typ, subs = comp
    if typ and typ != '*' and n.tag != typ:
        return False
    for k, v in subs:
        if k == 'id' and n.ident() != v:
            return False
        if k == 'class' and v not in n.classes():
            return False
    return True


def sel_match(sel, n, idx=None):
    if idx is None:
        idx = len(sel) - 1
    if not simple_match(sel[idx], n):
        return False
    comb = sel[idx][0]
    if comb == '':
        return True
    p = n.parent
    if comb == '>':
        return p is not None and sel_match(sel, p, idx - 1)
    while p is not None:
        if sel_match(sel, p, idx - 1):
            return True
        p = p.parent
    return False


def decl_text(ds):
    return ';'.join("%s:%s%s" % (n, v, ' !important' if i else '') for n, v, i in ds)


def sheet_text(rules):
    return ' '.join("%s{%s}" % (', '.join(sel_text(s) for s in sels), decl_text(ds)) for sels, ds in rules)


def render_xml(n, root=True):
    a = ''
    if root:
        a += ' ' + NS + ' xmlns:q="urn:q"'
    for k, v in n.attrs:
        a += ' %s="%s"' % (k, v)
    if n.style:
        pass
    if getattr(n, 'raw_css', None) is not None:
        return '<style>%s</style>' % n.raw_css
    if n.sheet is not None:
        typ, rules = n.sheet
        return '<style%s>%s</style>' % ((' type="%s"' % typ) if typ else '', sheet_text(rules))
    inner = (n.text or '') + ''.join(render_xml(c, False) for c in n.children)
    return '<%s%s>%s</%s>' % (n.tag, a, inner, n.tag)


def all_nodes(n):
    yield n
    for c in n.children:
        for x in all_nodes(c):
            yield x


def k_decls(rng, T, kmax=4):
    ds = []
    for _ in range(rng.below(kmax + 1)):
        r = rng.below(20)
        if r == 0:
            name = 'marker'
        elif r == 1:
            name = rng.choice(['width', 'x', 'offset'])
        elif r == 2:
            name = rng.choice(['foo', 'zoom'])
        else:
            name = rng.choice(T.presentation)
        ds.append((name, rng.choice(K_VALUES), rng.below(10) < 3))
    return ds


def k_selector(rng, nodes):
    n = rng.choice(nodes)

    def simple(m):
        r = rng.below(7)
        if r == 0:
            return ('*', [])
        if r == 1:
            return (m.tag, [])
        if r == 2 and m.ident():
            return (None, [('id', m.ident())])
        if r == 3 and m.classes():
            return (None, [('class', rng.choice(m.classes()))])
        if r == 4 and m.classes():
            return (m.tag, [('class', rng.choice(m.classes()))])
        if r == 5 and m.ident():
            return (m.tag, [('id', m.ident())])
        return (rng.choice(['rect', 'g', 'zz']), [])
    t, s = simple(n)
    sel = [('', t, s)]
    if rng.below(4) == 0 and n.parent is not None:
        anc = n.parent
        while anc.parent is not None and rng.below(2):
            anc = anc.parent
        t2, s2 = simple(anc)
        sel = [('', t2, s2), (rng.choice([' ', '>']), t, s)]
    return sel


def k_gen(rng, T, case_no=0):
    root = XNode('svg')
    nodes = [root]
    nel = 2 + rng.below(6)
    ids = 0
    for _ in range(nel):
        par = rng.choice([n for n in nodes if n.tag not in ('text', 'tspan', 'use', 'style')])
        depth = 0
        p = par
        while p is not None:
            depth += 1
            p = p.parent
        if depth > 4:
            par = root
        r = rng.below(12)
        if r == 0:
            n = XNode('text', par)
            n.text = 'ab'
            ts = XNode('tspan', n)
            ts.text = 'c'
            nodes += [n, ts]
        else:
            n = XNode(rng.choice(K_TAGS), par)
            nodes.append(n)
    for n in nodes:
        # attributes
        names = []
        if rng.below(3) > 0:
            ids += 1
            names.append(('id', 'i%d' % ids))
        if rng.below(2):
            names.append(('class', rng.choice(['c1', 'c2', 'c1 c2', 'c3'])))
        for _ in range(rng.below(5)):
            r = rng.below(12)
            if r < 7:
                nm = rng.choice(T.presentation)
            elif r < 10:
                nm = rng.choice(K_NONPRES)
            else:
                nm = rng.choice(K_UNKNOWN)
            if nm in [k for k, _ in names]:
                continue
            names.append((nm, rng.choice(K_VALUES)))
        if rng.below(2):
            n.style = k_decls(rng, T)
            if n.style:
                names.append(('style', decl_text(n.style)))
        rng.shuffle(names)
        n.attrs = names
    # one `use`
    if rng.below(3) == 0:
        cands = [n for n in nodes if n.ident() and n is not root and n.tag not in ('tspan',)]
        if cands:
            tgt = rng.choice(cands)
            # the use must not be inside the target and the target must not be an ancestor
            pars = [n for n in nodes if n.tag not in ('text', 'tspan') and n is not tgt
                    and tgt not in list(_ancestors(n)) and n not in list(all_nodes(tgt))]
            if pars:
                u = XNode('use', rng.choice(pars))
                u.attrs = [('xlink:href', '#' + tgt.ident())] + ([('fill', rng.choice(K_VALUES))] if rng.below(2) else []) \
                    + ([('id', 'u1')] if rng.below(2) else [])
                u.target = tgt
                nodes.append(u)
    # a pile: 3-5 declarations of ONE property reaching ONE element from different sources (attribute, several CSS
    # rules of differing specificity / sheet / order, style attribute), the pattern of !important flags cycling
    # through all 2^k combinations with the case number
    pile_rules = []
    if case_no % 3 != 2:
        n = rng.choice([m for m in nodes if m.tag not in ('use',)])
        p = rng.choice(T.presentation)
        bits = case_no // 3
        names = [(k, v) for k, v in n.attrs if k.split(':')[-1] != p and k != 'style']
        if not any(k == 'id' for k, _ in names):
            ids += 1
            names.append(('id', 'i%d' % ids))
        if not any(k == 'class' for k, _ in names):
            names.append(('class', 'pc'))
        ident = [v for k, v in names if k == 'id'][0]
        cls = [v for k, v in names if k == 'class'][0].split()[0]
        vals = ['pa', 'pb', 'pc', 'pd', 'pe', 'pf', 'inherit']
        rng.shuffle(vals)
        k = 0
        if rng.below(4) > 0:
            names.append((p, vals[k]))
            k += 1
        n.style = [d for d in n.style if d[0] != p]
        nsty = rng.choice([0, 1, 1, 2])
        for _ in range(nsty):
            n.style.insert(rng.below(len(n.style) + 1), (p, vals[k], bool((bits >> k) & 1)))
            k += 1
        sels = [[('', '*', [])], [('', n.tag, [])], [('', None, [('class', cls)])], [('', None, [('id', ident)])],
                [('', n.tag, [('class', cls)])], [('', n.tag, [('id', ident)])]]
        for _ in range(max(1, 3 - (1 if k == 0 else 0) + rng.below(2) - nsty + 1)):
            if k >= len(vals):
                break
            other = k_decls(rng, T, 1)
            ds = other + [(p, vals[k], bool((bits >> k) & 1))] if rng.below(2) else [(p, vals[k], bool((bits >> k) & 1))] + other
            pile_rules.append(([rng.choice(sels)], ds))
            k += 1
        if n.style:
            names.append(('style', decl_text(n.style)))
        rng.shuffle(names)
        n.attrs = names
    # style sheets
    sheets = []
    inj = None
    if rng.below(3) == 0:
        inj = [([k_selector(rng, nodes) for _ in range(1 + rng.below(2))], k_decls(rng, T, 3) or [('fill', 'red', False)])
               for _ in range(1 + rng.below(3))]
    for _ in range(rng.below(3)):
        st = XNode('style', rng.choice([root] + [n for n in nodes if n.tag in ('defs', 'g')]))
        typ = rng.choice([None, None, 'text/css', 'text/other'])
        rules = [([k_selector(rng, nodes) for _ in range(1 + rng.below(2))], k_decls(rng, T, 3) or [('stroke', 'v', True)])
                 for _ in range(1 + rng.below(4))]
        st.sheet = (typ, rules)
        sheets.append(st)
    # distribute the pile's rules over the injected sheet and (new or existing) style elements, in random order
    for r in pile_rules:
        where = rng.below(3)
        if where == 0:
            inj = (inj or [])
            inj.insert(rng.below(len(inj) + 1), r)
        elif where == 1 and sheets:
            st = rng.choice(sheets)
            if st.sheet[0] in (None, 'text/css'):
                st.sheet[1].insert(rng.below(len(st.sheet[1]) + 1), r)
            else:
                st.sheet = (None, st.sheet[1] + [r])
        else:
            st = XNode('style', root)
            st.sheet = (rng.choice([None, 'text/css']), [r])
            sheets.append(st)
    return root, inj


def _ancestors(n):
    p = n.parent
    while p is not None:
        yield p
        p = p.parent


def k_expected(root, inj, T):
    """-> list of items (parent index or None, tag, ignore_ids, attrs, css, style) in svgtree pre-order"""
    # rule list in simplecss order
    rules = []
    if inj:
        for sels, ds in inj:
            for s in sels:
                rules.append((s, ds))
    for n in all_nodes(root):
        if n.tag == 'style' and n.sheet is not None:
            typ, rl = n.sheet
            if typ not in (None, 'text/css'):
                continue
            for sels, ds in rl:
                for s in sels:
                    rules.append((s, ds))
    rules = sorted(rules, key=lambda r: sel_spec(r[0]))      # sorted() is stable
    items = []

    def conv_decl(ds):
        out = []
        for name, v, imp in ds:
            if name == 'marker':
                out.append("dmarker %s %s" % (coq_str(v), 'true' if imp else 'false'))
            elif name in T.aname2ctor:
                out.append("dc %s %s %s" % (T.A(name), coq_str(v), 'true' if imp else 'false'))
        return out

    def visit(n, par, ignore_ids, in_text):
        if n.tag == 'style':
            return
        tag = n.tag
        if in_text:
            if tag == 'a':
                tag = 'tspan'
        elif tag == 'a':
            tag = 'g'
        attrs = []
        for qn, v in n.attrs:
            if qn.startswith('q:'):
                continue
            local = qn.split(':')[-1]
            if local in T.aname2ctor:
                attrs.append("(%s, %s)" % (T.A(local), coq_str(v)))
        css = []
        for s, ds in rules:
            if sel_match(s, n):
                css += conv_decl(ds)
        me = len(items)
        items.append((par, tag, ignore_ids, attrs, css, conv_decl(n.style)))
        if tag == 'use':
            tgt = getattr(n, 'target', None)
            if tgt is not None:
                visit(tgt, me, True, False)
            return
        for c in n.children:
            # text.rs parses the children of `text` with ignore_ids = false, also inside a use expansion
            visit(c, me, False if (in_text or tag == 'text') else ignore_ids, in_text or tag == 'text')
    visit(root, None, False, False)
    return items


def k_coq_items(items, T):
    out = []
    for par, tag, ig, attrs, css, style in items:
        out.append("(%s, xe %s %s [%s] [%s] [%s])" % (
            'None' if par is None else 'Some %d%%nat' % par, T.E(tag), 'true' if ig else 'false',
            '; '.join(attrs), '; '.join(css), '; '.join(style)))
    return '[' + ';\n   '.join(out) + ']'


ATTR_RE = re.compile(r"^\s*Attribute \{ name: (\S+), value: (.*), important: (true|false) \}$")
TAG_RE = re.compile(r"^\s*tag_name: Some\((\S+)\)$")


def parse_dump(d):
    elems = []
    for line in d.split('\n'):
        m = TAG_RE.match(line)
        if m:
            elems.append((m.group(1), []))
            continue
        m = ATTR_RE.match(line)
        if m and elems:
            elems[-1][1].append((m.group(1), m.group(2), m.group(3) == 'true'))
    return elems


def impl_coq(elems, T):
    out = []
    for tag, attrs in elems:
        out.append('[' + '; '.join("mk %s %s %s" % (T.A(n), coq_str(v), 'true' if i else 'false') for n, v, i in attrs) + ']')
    return '[' + ';\n   '.join(out) + ']'


def run_cascade(ctx, binp, T, n_docs):
    rng = ctx.rng
    cases = []
    for ci in range(n_docs):
        root, inj = k_gen(rng, T, ci)
        cases.append((render_xml(root), inj, k_expected(root, inj, T)))
    outs = ctx.rvh_batch(binp, 'svgtree',
                         ["%s\t%s" % (('css=' + hexs(sheet_text(inj))) if inj else '-', doc) for doc, inj, _ in cases])
    coq_cases = []
    idx_map = []
    nviol = 0
    stats = dict(elements=0, use=0, css_decls=0, inherit=0, important=0, injected=0, piles=0)
    for i, ((doc, inj, items), o) in enumerate(zip(cases, outs)):
        try:
            r = json.loads(o)
        except (TypeError, ValueError):
            r = {'error': 'unparsable harness output'}
        replay = dict(op='svgtree', doc=doc, injected_css=sheet_text(inj) if inj else None)
        if 'dump' not in r:
            ctx.violation("cascade: svgtree construction failed on a generated document: %s" % str(r)[:200], replay)
            nviol += 1
            continue
        elems = parse_dump(r['dump'])
        tags_m = [t for _, t, _, _, _, _ in items]
        tags_i = [t for t, _ in elems]
        if tags_m != tags_i:
            ctx.violation("cascade: element sequence of the svgtree differs from the expected expansion: %s vs %s"
                          % (tags_i, tags_m), replay)
            nviol += 1
            continue
        stats['elements'] += len(items)
        stats['use'] += sum(1 for it in items if it[2])
        stats['css_decls'] += sum(len(it[4]) for it in items)
        stats['inherit'] += doc.count('inherit')
        stats['important'] += doc.count('!important')
        stats['injected'] += 1 if inj else 0
        stats['piles'] += 1 if i % 3 != 2 else 0
        ctx.note_case('cascade/' + doc + (sheet_text(inj) if inj else ''),
                      nontrivial=any(it[4] or it[5] for it in items))
        coq_cases.append("(%s,\n  %s)" % (k_coq_items(items, T), impl_coq(elems, T)))
        idx_map.append(i)
    ctx.cov['cascade_cases'] = len(cases)
    ctx.cov['cascade_stats'] = stats
    if cases:
        ctx.add_sample(dict(op='cascade', doc=cases[0][0], injected_css=sheet_text(cases[0][1]) if cases[0][1] else None))
    if not coq_cases:
        return False
    body = ("From Coq Require Import String.\nLocal Open Scope string_scope.\n"
            "Definition cases : list (list (option nat * xelem) * list (list attr)) := [\n%s\n].\n"
            "Eval vm_compute in (bad_indices doc_case_ok cases).\n" % ";\n".join(coq_cases))
    rc, out = ctx.coq_eval('k_cascade', body, ['Model.Base', 'Model.Corr', 'Gen.SvgTables', 'Model.CascadeBase', 'Model.Cascade'])
    bad = ctx.parse_N_list(out) if rc == 0 else None
    if bad is None:
        ctx.log("cascade: model evaluation failed:\n" + out[-1500:])
        return False
    ctx.cov['correspondence_cases'] = ctx.cov.get('correspondence_cases', 0) + len(coq_cases)
    for b in bad[:3]:
        i = idx_map[b]
        doc, inj, items = cases[i]
        elems = parse_dump(json.loads(outs[i])['dump'])
        ctx.violation("cascade: the svgtree attribute lists differ from the model's build_doc (attribute copy / CSS / "
                      "style / inherit pipeline)",
                      dict(op='svgtree', doc=doc, injected_css=sheet_text(inj) if inj else None,
                           impl=[[t, a] for t, a in elems], model_items=k_coq_items(items, T)))
    return True


# ---------------------------------------------------------------------------------------- selector (K3)
# Documents with style sheets over ALL selector forms simplecss supports; here the model does the matching
# (Model.CascadeSel.sel_matches), the rule sort (sort_rules) and the cascade; Python only prints the selector AST.
S_TAGS = [t for t in K_TAGS if t != 'a']
S_CLASSES = ['c1', 'c2', 'c1 c2', 'c3 c1', 'c-x', 'c1  c4']
S_ATTRS = {'foo': ['v', 'en', 'en-US', 'a b', 'b', 'enx'], 'data-k': ['v', 'w', 'v-1'], 'lang': ['en', 'en-GB', 'de']}
S_PROPS = ['fill', 'stroke', 'opacity', 'stroke-width', 'color', 'fill-rule', 'visibility', 'marker-start', 'stop-color', 'mask']


def s_simple(rng, m):
    """-> (type or None, explicit star?, subs); subs: ('id', v) | ('class', v) | ('attr', name, op, v) | ('pseudo', text)"""
    typ = None
    r = rng.below(6)
    if r < 2 and m is not None:
        typ = m.tag
    elif r == 2:
        typ = rng.choice(S_TAGS)
    subs = []
    for _ in range(rng.choice([0, 1, 1, 1, 2, 3])):
        k = rng.below(10)
        if k < 2:
            subs.append(('id', m.ident() if (m is not None and m.ident() and rng.below(4)) else 'i%d' % (1 + rng.below(6))))
        elif k < 4:
            cl = (m.classes() if m is not None else []) or ['c1']
            subs.append(('class', rng.choice(cl) if rng.below(4) else rng.choice(['c1', 'c2', 'c9', 'c'])))
        elif k < 8:
            name = rng.choice(sorted(S_ATTRS) + ['id', 'class', 'fill'])
            have = m.get(name) if m is not None else None
            op = rng.choice(['', '=', '~=', '|='])
            if have is not None and rng.below(3):
                v = rng.choice([have, have.split(' ')[0], have.split('-')[0]])
            else:
                v = rng.choice(S_ATTRS.get(name, ['v', 'c1', 'i1', 'red']))
            subs.append(('attr', name, op, v))
        else:
            subs.append(('pseudo', rng.choice(['first-child', 'first-child', 'hover', 'lang(en)', 'link'])))
    return (typ, rng.below(2) == 0, subs)


def s_selector(rng, nodes):
    n = rng.choice(nodes)
    comps = [('', s_simple(rng, n if rng.below(4) else None))]
    cur = n
    for _ in range(rng.choice([0, 0, 1, 1, 2])):
        comb = rng.choice([' ', ' ', '>', '>', '+'])
        rel = None
        if cur is not None:
            if comb == '+':
                sib = cur.parent.children if cur.parent is not None else []
                i = sib.index(cur) if cur in sib else 0
                rel = sib[i - 1] if i > 0 else None
            elif comb == '>':
                rel = cur.parent
            else:
                anc = list(_ancestors(cur))
                rel = rng.choice(anc) if anc else None
        # components are stored first-to-last; we build from the subject backwards
        comps[0] = (comb, comps[0][1])
        comps.insert(0, ('', s_simple(rng, rel if rng.below(5) else None)))
        cur = rel
    return comps


def s_sel_text(sel):
    out = ''
    for comb, (typ, star, subs) in sel:
        out += {'': '', ' ': ' ', '>': ' > ', '+': ' + '}[comb]
        out += typ if typ else ('*' if (star or not subs) else '')
        for sb in subs:
            if sb[0] == 'id':
                out += '#' + sb[1]
            elif sb[0] == 'class':
                out += '.' + sb[1]
            elif sb[0] == 'attr':
                out += '[%s]' % sb[1] if sb[2] == '' else '[%s%s"%s"]' % (sb[1], sb[2], sb[3])
            else:
                out += ':' + sb[1]
    return out


def s_sel_coq(sel):
    comb_c = {'': 'CNone', ' ': 'CDescendant', '>': 'CChild', '+': 'CAdjacent'}
    ps = {'first-child': 'PFirstChild', 'hover': 'PHover', 'link': 'PLink', 'lang(en)': '(PLang "en")'}
    ops = {'': 'OpExists', '=': 'OpMatches', '~=': 'OpContains', '|=': 'OpStartsWith'}
    out = []
    for comb, (typ, star, subs) in sel:
        ss = []
        for sb in subs:
            if sb[0] == 'id':
                ss.append('SubAttr "id" (OpMatches %s)' % coq_str(sb[1]))
            elif sb[0] == 'class':
                ss.append('SubAttr "class" (OpContains %s)' % coq_str(sb[1]))
            elif sb[0] == 'attr':
                ss.append('SubAttr %s %s' % (coq_str(sb[1]), 'OpExists' if sb[2] == '' else '(%s %s)' % (ops[sb[2]], coq_str(sb[3]))))
            else:
                ss.append('SubPseudo %s' % ps[sb[1]])
        out.append('{| c_comb := %s; c_sel := {| s_type := %s; s_subs := [%s] |} |}' % (
            comb_c[comb], ('Some %s' % coq_str(typ)) if typ else 'None', '; '.join(ss)))
    return '[' + '; '.join(out) + ']'


def s_gen(rng, T, ci):
    root = XNode('svg')
    nodes = [root]
    for _ in range(3 + rng.below(7)):
        par = rng.choice(nodes)
        d = len(list(_ancestors(par)))
        if d > 3:
            par = root
        nodes.append(XNode(rng.choice(S_TAGS), par))
    ids = 0
    for n in nodes:
        names = []
        if rng.below(3) > 0:
            ids += 1
            names.append(('id', 'i%d' % ids))
        if rng.below(2):
            names.append(('class', rng.choice(S_CLASSES)))
        for a in sorted(S_ATTRS):
            if rng.below(4) == 0:
                names.append((a, rng.choice(S_ATTRS[a])))
        for _ in range(rng.below(3)):
            nm = rng.choice(S_PROPS)
            if nm not in [k for k, _ in names]:
                names.append((nm, rng.choice(['a0', 'inherit', 'a1'])))
        if rng.below(4) == 0:
            n.style = [(rng.choice(S_PROPS), 's%d' % rng.below(3), rng.below(3) == 0)]
            names.append(('style', decl_text(n.style)))
        rng.shuffle(names)
        n.attrs = names
    k = [0]

    def rule():
        ds = []
        for _ in range(1 + rng.below(2)):
            k[0] += 1
            ds.append((rng.choice(S_PROPS + ['marker']), 'r%d' % k[0], rng.below(10) < 3))
        return ([s_selector(rng, nodes) for _ in range(1 + (rng.below(5) == 0))], ds)
    inj = [rule() for _ in range(rng.below(3))] if rng.below(3) == 0 else []
    doc_rules = [rule() for _ in range(2 + rng.below(5))]
    return root, nodes, inj, doc_rules


def s_sheet_text(rules):
    return ' '.join("%s{%s}" % (', '.join(s_sel_text(x) for x in sels), decl_text(ds)) for sels, ds in rules)


def run_selector(ctx, binp, T, n_docs):
    rng = ctx.rng
    cases = []
    for ci in range(n_docs):
        root, nodes, inj, doc_rules = s_gen(rng, T, ci)
        # the style element sits anywhere among the children of the root or of a container: it IS a previous sibling for
        # :first-child and `+` (the model keeps it in the matching tree, si_tree = false), but not an svgtree node
        holder = rng.choice([root, root] + [m for m in nodes if m.tag in ('g', 'defs')])
        st = XNode('style')
        st.parent = holder
        st.raw_css = s_sheet_text(doc_rules)
        holder.children.insert(rng.below(len(holder.children) + 1), st)
        xml = render_xml(root)
        cases.append((xml, inj, doc_rules, root))
    outs = ctx.rvh_batch(binp, 'svgtree', ["%s\t%s" % (('css=' + hexs(s_sheet_text(c[1]))) if c[1] else '-', c[0]) for c in cases])
    coq_cases, idx_map = [], []
    stats = dict(rules=0, matched_rule_elements=0, combinators=0, attribute_selectors=0, pseudo=0)
    for i, ((xml, inj, doc_rules, root), o) in enumerate(zip(cases, outs)):
        try:
            r = json.loads(o)
        except (TypeError, ValueError):
            r = {'error': 'unparsable harness output'}
        replay = dict(op='svgtree', doc=xml, injected_css=s_sheet_text(inj) if inj else None)
        if 'dump' not in r:
            ctx.violation("selector: svgtree construction failed on a generated document: %s" % str(r)[:200], replay)
            continue
        elems = parse_dump(r['dump'])
        order = list(all_nodes(root))
        if [t for t, _ in elems] != [n.tag for n in order if n.tag != 'style']:
            ctx.violation("selector: element sequence of the svgtree differs from the document: %s vs %s"
                          % ([t for t, _ in elems], [n.tag for n in order if n.tag != 'style']), replay)
            continue
        rules_coq = []
        for sels, ds in list(inj) + list(doc_rules):
            dl = []
            for name, v, imp in ds:
                if name == 'marker':
                    dl.append("dmarker %s %s" % (coq_str(v), 'true' if imp else 'false'))
                else:
                    dl.append("dc %s %s %s" % (T.A(name), coq_str(v), 'true' if imp else 'false'))
            for sel in sels:
                rules_coq.append("{| r_sel := %s; r_decls := [%s] |}" % (s_sel_coq(sel), '; '.join(dl)))
                stats['rules'] += 1
                stats['combinators'] += len(sel) - 1
                stats['attribute_selectors'] += sum(1 for _, (_, _, sb) in sel for x in sb if x[0] == 'attr')
                stats['pseudo'] += sum(1 for _, (_, _, sb) in sel for x in sb if x[0] == 'pseudo')
        items = []
        for n in order:
            par = 'None' if n.parent is None else 'Some %d%%nat' % order.index(n.parent)
            info = '{| ei_tag := %s; ei_attrs := [%s] |}' % (coq_str(n.tag), '; '.join('(%s, %s)' % (coq_str(k), coq_str(v)) for k, v in n.attrs))
            attrs = ['(%s, %s)' % (T.A(k), coq_str(v)) for k, v in n.attrs if k in T.aname2ctor]
            sty = ["dc %s %s %s" % (T.A(nm), coq_str(v), 'true' if imp else 'false') for nm, v, imp in n.style]
            items.append('{| si_parent := %s; si_info := %s; si_x := xe %s false [%s] [] [%s]; si_tree := %s |}' % (
                par, info, T.E(n.tag), '; '.join(attrs), '; '.join(sty), 'false' if n.tag == 'style' else 'true'))
        stats['matched_rule_elements'] += sum(1 for _, at in elems for a in at if re.fullmatch(r"r\d+", a[1]))
        ctx.note_case('selector/' + xml + (s_sheet_text(inj) if inj else ''),
                      nontrivial=any(re.fullmatch(r"r\d+", a[1]) for _, at in elems for a in at))
        coq_cases.append("([%s],\n  [%s],\n  %s)" % (';\n    '.join(rules_coq), ';\n    '.join(items), impl_coq(elems, T)))
        idx_map.append(i)
    ctx.cov['selector_cases'] = len(cases)
    ctx.cov['selector_stats'] = stats
    if cases:
        ctx.add_sample(dict(op='selector', doc=cases[0][0], injected_css=s_sheet_text(cases[0][1]) if cases[0][1] else None))
    if not coq_cases:
        return False
    body = ("From Coq Require Import String.\nLocal Open Scope string_scope.\n"
            "Definition cases : list (list rule * list sitem * list (list attr)) := [\n%s\n].\n"
            "Eval vm_compute in (bad_indices sel_case_ok cases).\n" % ";\n".join(coq_cases))
    rc, out = ctx.coq_eval('k_selector', body, ['Model.Base', 'Model.Corr', 'Gen.SvgTables', 'Model.CascadeBase', 'Model.Cascade',
                                                'Model.CascadeSel'])
    bad = ctx.parse_N_list(out) if rc == 0 else None
    if bad is None:
        ctx.log("selector: model evaluation failed:\n" + out[-1500:])
        return False
    ctx.cov['correspondence_cases'] = ctx.cov.get('correspondence_cases', 0) + len(coq_cases)
    for b in bad[:3]:
        i = idx_map[b]
        xml, inj, doc_rules, root = cases[i]
        ctx.violation("selector: the svgtree attribute lists differ from the model's selector matching (sel_matches) + rule order "
                      "(sort_rules) + cascade over the rule list",
                      dict(op='svgtree', doc=xml, injected_css=s_sheet_text(inj) if inj else None,
                           impl=[[t, a] for t, a in parse_dump(json.loads(outs[i])['dump'])], model_items=coq_cases[b][:4000]))
    return True


# ---------------------------------------------------------------------------------------- font-weight (K4 + notation pairs)
FW_ABS = ['normal', '400', 'bold', '700', '100', '200', '300', '500', '600', '800', '900']
FW_SAME = {'normal': '400', '400': 'normal', 'bold': '700', '700': 'bold'}


def fw_doc(chain, spell):
    """svg > g* > text with the chain's font-weight values (root first; '' = not specified); spell[i] in attr/style/css"""
    rules = []

    def decl(i, v):
        if v == '':
            return ''
        if spell[i] == 'style':
            return ' style="font-weight:%s"' % v
        if spell[i] == 'css':
            rules.append('#w%d{font-weight:%s}' % (i, v))
            return ''
        return ' font-weight="%s"' % v
    n = len(chain)
    inner = '<text id="w%d" x="10" y="40"%s>Text</text>' % (n - 1, decl(n - 1, chain[-1]))
    for i in range(n - 2, 0, -1):
        inner = '<g id="w%d"%s>%s</g>' % (i, decl(i, chain[i]), inner)
    d0 = decl(0, chain[0])
    st = ('<style>%s</style>' % ' '.join(rules)) if rules else ''
    return '<svg %s id="w0" width="200" height="100" font-family="Noto Sans" font-size="20"%s>%s%s</svg>' % (NS, d0, st, inner)


def run_font_weight(ctx, binp, T, n):
    """chains of font-weight values over svg > g* > text, fonts loaded, text preserved (`wpt`): the weight of the span vs
    Gen.FontWeight.fw_resolve (compared in Coq), and - the notation clause - the same chain with absolute weights re-spelled
    (normal <-> 400, bold <-> 700) anywhere, in particular above bolder / lighter: same tree, preserved and flattened"""
    rng = ctx.rng
    chains = []
    for k in range(n):
        depth = 2 + rng.below(4)
        c = []
        for i in range(depth):
            r = rng.below(10)
            c.append('' if r < 2 else rng.choice(['bolder', 'lighter']) if r < 5 else rng.choice(FW_ABS[:4]) if r < 8 else rng.choice(FW_ABS))
        if k % 2 == 0:
            # directed: an absolute weight with a second spelling somewhere above a relative keyword
            i = rng.below(depth - 1)
            c[i] = rng.choice(sorted(FW_SAME))
            c[i + 1 + rng.below(depth - 1 - i)] = rng.choice(['bolder', 'lighter'])
        chains.append(c)
    items, meta = [], []
    for c in chains:
        spell = [rng.choice(['attr', 'attr', 'style', 'css']) for _ in c]
        v = [FW_SAME[x] if (x in FW_SAME and rng.below(3) > 0) else x for x in c]
        if v == c:
            idx = [i for i, x in enumerate(c) if x in FW_SAME]
            if idx:
                i = rng.choice(idx)
                v[i] = FW_SAME[c[i]]
        spell2 = [rng.choice(['attr', 'style', 'css']) for _ in c]
        a, b = fw_doc(c, spell), fw_doc(v, spell2)
        items += ["wpt\t" + a, "wpt\t" + b, "-\t" + a, "-\t" + b]
        meta.append((c, v, a, b))
    outs = ctx.rvh_batch(binp, 'tostring', items, per_item_timeout=30)
    coq_cases, idx_map = [], []
    nfail = 0
    for k, (c, v, a, b) in enumerate(meta):
        try:
            js = [json.loads(o) for o in outs[4 * k:4 * k + 4]]
        except (TypeError, ValueError):
            js = [{}] * 4
        replay = dict(op='tostring', opts='wpt', canonical=a, variant=b, chain=c, respelled=v)
        if any('s' not in j for j in js):
            ctx.violation("font-weight: a generated chain document failed to convert: %s" % str(js)[:200], replay)
            continue
        ws = re.findall(r'font-weight="(\d+)"', js[0]['s'])
        if '<text' not in js[0]['s']:
            ctx.violation("font-weight: the text element did not survive conversion (fonts not loaded?)", replay)
            continue
        coq_cases.append("([%s], %s%%Z)" % ('; '.join(coq_str(x) for x in c), ws[-1] if ws else '400'))
        idx_map.append(k)
        ctx.note_case('font-weight/' + a + b, nontrivial=any(x in ('bolder', 'lighter') for x in c))
        for (x, y, what) in ((js[0]['s'], js[1]['s'], 'preserved text'), (js[2]['s'], js[3]['s'], 'flattened text')):
            eq, why, _ = compare_strings(x, y)
            if not eq:
                nfail += 1
                if nfail <= 3:
                    replay2 = dict(replay, difference=why, opts='wpt' if what == 'preserved text' else '-')
                    ctx.violation("spelling: font-weight chains that differ only in the notation of absolute weights (%s vs %s: normal = 400, "
                                  "bold = 700) resolve differently (%s): %s" % (c, v, what, why), replay2)
                break
    ctx.cov['font_weight_chains'] = len(meta)
    if not coq_cases:
        return False
    body = ("From Coq Require Import String.\nLocal Open Scope string_scope.\n"
            "Definition cases : list (list string * Z) := [\n%s\n].\nEval vm_compute in (bad_indices fw_case_ok cases).\n" % ";\n".join(coq_cases))
    rc, out = ctx.coq_eval('k_fontweight', body, ['Model.Base', 'Model.Corr', 'Gen.FontWeight', 'Model.CascadeFont'])
    bad = ctx.parse_N_list(out) if rc == 0 else None
    if bad is None:
        ctx.log("font-weight: model evaluation failed:\n" + out[-1500:])
        return False
    ctx.cov['correspondence_cases'] = ctx.cov.get('correspondence_cases', 0) + len(coq_cases)
    for bi in bad[:3]:
        c, v, a, b = meta[idx_map[bi]]
        ctx.violation("font-weight: the weight of the text span differs from Gen.FontWeight.fw_resolve over the ancestor chain %s "
                      "(model case %s)" % (c, coq_cases[bi]), dict(op='tostring', opts='wpt', canonical=a, variant=a, chain=c))
    return True


# ---------------------------------------------------------------------------------------- find-attr
FA_PROPS = {'fill-rule': ['nonzero', 'evenodd'], 'stroke-linecap': ['butt', 'round', 'square'],
            'stroke-linejoin': ['miter', 'miter-clip', 'round', 'bevel']}
FA_MAP = {'NonZero': 'nonzero', 'EvenOdd': 'evenodd', 'Butt': 'butt', 'Round': 'round', 'Square': 'square',
          'Miter': 'miter', 'MiterClip': 'miter-clip', 'Bevel': 'bevel'}
FA_DEFAULT = {'fill-rule': 'nonzero', 'stroke-linecap': 'butt', 'stroke-linejoin': 'miter'}


def run_find_attr(ctx, binp, T, n):
    rng = ctx.rng
    cases = []
    for _ in range(n):
        chain = []   # (tag, id, fixed attrs, decl sources)
        rules = []
        elems = []
        for lvl, tag in enumerate(['svg', 'g', 'g', 'path']):
            ident = 'e%d' % lvl
            fixed = [('id', ident)]
            if tag == 'svg':
                fixed += [('width', '100'), ('height', '100'), ('stroke', 'black')]
            if tag == 'path':
                fixed += [('d', 'M 10 10 L 50 10 L 50 50 L 20 30 Z')]
            attrs = list(fixed)
            css = []
            style = []
            for p, vals in FA_PROPS.items():
                for _ in range(rng.below(3)):
                    v = rng.choice(vals + ['inherit'])
                    src = rng.below(3)
                    imp = rng.below(4) == 0
                    if src == 0 and p not in [k for k, _ in attrs]:
                        attrs.append((p, v))
                    elif src == 1:
                        css.append((p, v, imp))
                    elif src == 2:
                        style.append((p, v, imp))
            rng.shuffle(attrs)
            if css:
                rules.append("#%s{%s}" % (ident, decl_text(css)))
            elems.append((tag, attrs, css, style))
        doc = ''
        for tag, attrs, css, style in reversed(elems):
            a = ''.join(' %s="%s"' % kv for kv in attrs)
            if style:
                a += ' style="%s"' % decl_text(style)
            if tag == 'svg':
                doc = '<svg %s%s><style>%s</style>%s</svg>' % (NS, a, ' '.join(rules), doc)
            else:
                doc = '<%s%s>%s</%s>' % (tag, a, doc, tag)
        cases.append((doc, elems))
    outs = ctx.rvh_batch(binp, 'dump', ["-\t" + d for d, _ in cases])
    coq_cases = []
    idx_map = []
    for i, ((doc, elems), o) in enumerate(zip(cases, outs)):
        try:
            tree = json.loads(o)
        except (TypeError, ValueError):
            tree = {'error': 'unparsable'}
        paths = []

        def walk(nd):
            if nd.get('t') == 'path':
                paths.append(nd)
            for c in nd.get('children', []):
                walk(c)
        if 'root' in tree:
            walk(tree['root'])
        if len(paths) != 1 or not paths[0].get('fill') or not paths[0].get('stroke'):
            ctx.violation("find-attr: the probe path is missing from the converted tree: %s" % str(tree)[:160],
                          dict(op='dump', doc=doc))
            continue
        pth = paths[0]
        obs = {'fill-rule': FA_MAP.get(pth['fill']['rule']), 'stroke-linecap': FA_MAP.get(pth['stroke']['linecap']),
               'stroke-linejoin': FA_MAP.get(pth['stroke']['linejoin'])}
        xs = []
        for tag, attrs, css, style in elems:
            xs.append("xe %s false [%s] [%s] [%s]" % (
                T.E(tag), '; '.join("(%s, %s)" % (T.A(k), coq_str(v)) for k, v in attrs if k in T.aname2ctor),
                '; '.join("dc %s %s %s" % (T.A(p), coq_str(v), 'true' if im else 'false') for p, v, im in css),
                '; '.join("dc %s %s %s" % (T.A(p), coq_str(v), 'true' if im else 'false') for p, v, im in style)))
        qs = '; '.join("(%s, %s, %s)" % (T.A(p), coq_str(FA_DEFAULT[p]), coq_str(str(obs[p]))) for p in FA_PROPS)
        coq_cases.append("([%s], [%s])" % ('; '.join(xs), qs))
        idx_map.append(i)
        ctx.note_case('find-attr/' + doc, nontrivial='inherit' in doc or '<style>#' in doc)
    ctx.cov['find_attr_cases'] = len(cases)
    if cases:
        ctx.add_sample(dict(op='find-attr', doc=cases[0][0]))
    if not coq_cases:
        return False
    body = ("From Coq Require Import String.\nLocal Open Scope string_scope.\n"
            "Definition cases : list (list xelem * list (AId * string * string)) := [\n%s\n].\n"
            "Eval vm_compute in (bad_indices find_case_ok cases).\n" % ";\n".join(coq_cases))
    rc, out = ctx.coq_eval('k_findattr', body, ['Model.Base', 'Model.Corr', 'Gen.SvgTables', 'Model.CascadeBase', 'Model.Cascade'])
    bad = ctx.parse_N_list(out) if rc == 0 else None
    if bad is None:
        ctx.log("find-attr: model evaluation failed:\n" + out[-1500:])
        return False
    ctx.cov['correspondence_cases'] = ctx.cov.get('correspondence_cases', 0) + len(coq_cases)
    for b in bad[:3]:
        i = idx_map[b]
        ctx.violation("find-attr: fill-rule / stroke-linecap / stroke-linejoin of the converted path differ from the "
                      "model's find_attribute over the resolved attribute lists",
                      dict(op='dump', doc=cases[i][0], model_case=coq_cases[b]))
    return True


# =================================================================================================
# S: spelling oracle
# =================================================================================================
COLORS = {'red': ['#f00', '#ff0000', 'rgb(255,0,0)', 'rgb(100%,0%,0%)', '#FF0000'],
          '#00ff00': ['lime', '#0f0', 'rgb(0,255,0)'],
          'blue': ['#00f', '#0000ff', 'rgb(0, 0, 255)'],
          '#123456': ['rgb(18,52,86)'],
          'black': ['#000', '#000000', 'rgb(0,0,0)'],
          'white': ['#fff', 'rgb(255,255,255)'],
          '#808080': ['gray', 'grey', 'rgb(128,128,128)'],
          # colours that carry alpha (equivalences measured on the unchanged tree: the alpha byte is truncated, so
          # rgba(..,0.5) is 127/255 and NOT #..80)
          'rgba(255,0,0,0.5)': ['rgba(100%,0%,0%,0.5)', 'hsla(0,100%,50%,0.5)', 'rgba(255, 0, 0, 0.5)'],
          '#0000ff44': ['#00f4', '#0000FF44'],
          '#00800040': ['#00800040'],
          'transparent': ['rgba(0,0,0,0)', '#0000', '#00000000', 'hsla(0,0%,0%,0)']}
ALPHA_COLORS = ['rgba(255,0,0,0.5)', '#0000ff44', '#00800040', 'transparent']
GROUP_FORMING = [('opacity', '0.5'), ('opacity', '0.25'), ('transform', 'translate(10 20)'), ('transform', 'scale(2)'),
                 ('clip-path', 'url(#cp1)'), ('mask', 'url(#mk1)'), ('mix-blend-mode', 'multiply'), ('isolation', 'isolate'),
                 ('filter', 'url(#f1)')]
GROUP_DEFAULTS = ['filter', 'clip-path', 'mask', 'opacity', 'display', 'visibility', 'overflow']
# (opacity property, colour property it multiplies with)
OPACITY_OF = {'stop-opacity': 'stop-color', 'flood-opacity': 'flood-color', 'fill-opacity': 'fill', 'stroke-opacity': 'stroke'}
COLOR_LIST = list(COLORS.keys())
PAINTS = COLOR_LIST + ['none', 'url(#lg1)', 'currentColor']
OPAC = ['0', '0.25', '0.5', '1']
NUM_ALT = {'0.25': ['.25', '2.5e-1', '0.250'], '0.5': ['.5', '5e-1', '0.50'], '1': ['1.0', '1e0'], '0': ['0.0', '-0'],
           '2': ['2.0', '+2', '2e0'], '3.5': ['35e-1'], '10': ['1e1', '10.0'], '4': ['4.0']}
OPAC_PCT = {'0.25': '25%', '0.5': '50%', '1': '100%', '0': '0%'}
LENGTH_PROPS = ['stroke-width', 'stroke-dashoffset', 'font-size', 'letter-spacing', 'word-spacing', 'baseline-shift',
                'stroke-dasharray']
POOLS = {
    'fill': PAINTS, 'stroke': PAINTS,
    'fill-opacity': OPAC, 'stroke-opacity': OPAC, 'opacity': OPAC, 'stop-opacity': OPAC, 'flood-opacity': OPAC,
    'fill-rule': ['nonzero', 'evenodd'], 'clip-rule': ['nonzero', 'evenodd'],
    'stroke-width': ['0.5', '2', '3.5', '10', '1.5em', '2%'],
    'stroke-linecap': ['butt', 'round', 'square'], 'stroke-linejoin': ['miter', 'round', 'bevel', 'miter-clip'],
    'stroke-miterlimit': ['1', '4', '10'],
    'stroke-dasharray': ['none', '5 3', '4', '2 1 3'], 'stroke-dashoffset': ['0', '2', '-3'],
    'visibility': ['visible', 'hidden', 'collapse'], 'display': ['inline', 'inline', 'block', 'none'],
    'marker-start': ['none', 'url(#m1)'], 'marker-mid': ['none', 'url(#m1)'], 'marker-end': ['none', 'url(#m1)'],
    'clip-path': ['none', 'url(#cp1)'], 'mask': ['none', 'url(#mk1)'], 'filter': ['none', 'url(#f1)', 'url(#f2)'],
    'paint-order': ['normal', 'stroke', 'markers fill', 'fill stroke markers'],
    'shape-rendering': ['auto', 'optimizeSpeed', 'crispEdges', 'geometricPrecision'],
    'text-rendering': ['auto', 'optimizeSpeed', 'optimizeLegibility', 'geometricPrecision'],
    'image-rendering': ['auto', 'optimizeQuality', 'optimizeSpeed', 'smooth', 'pixelated', 'crisp-edges', 'high-quality'],
    'stop-color': COLOR_LIST, 'flood-color': COLOR_LIST, 'lighting-color': COLOR_LIST, 'color': COLOR_LIST,
    'mix-blend-mode': ['normal', 'multiply', 'screen', 'darken'], 'isolation': ['auto', 'isolate'],
    'transform': ['translate(10 20)', 'scale(2)', 'rotate(30)', 'matrix(1 0 0 1 5 5)', 'translate(5) scale(0.5 2)'],
    'transform-origin': ['0 0', '10 20', 'center'],
    'font-family': ['Noto Sans', 'serif', 'sans-serif', 'monospace'],
    'font-size': ['10', '12', '20', 'medium', 'large', '150%', '2em', 'smaller'],
    'font-style': ['normal', 'italic', 'oblique'], 'font-weight': ['normal', 'bold', '100', '900', 'bolder', 'lighter'],
    'font-stretch': ['normal', 'condensed', 'expanded'], 'font-variant': ['normal', 'small-caps'],
    'font-kerning': ['auto', 'normal', 'none'], 'font-size-adjust': ['none', '0.5'],
    'letter-spacing': ['normal', '2', '-1', '0.1em'], 'word-spacing': ['normal', '5', '0.5em'],
    'text-anchor': ['start', 'middle', 'end'], 'text-decoration': ['none', 'underline', 'overline line-through'],
    'writing-mode': ['lr-tb', 'tb', 'vertical-rl', 'horizontal-tb'], 'direction': ['ltr', 'rtl'],
    'unicode-bidi': ['normal', 'embed', 'bidi-override'],
    'dominant-baseline': ['auto', 'middle', 'central', 'hanging', 'alphabetic'],
    'alignment-baseline': ['auto', 'baseline', 'middle', 'central', 'hanging'],
    'baseline-shift': ['baseline', 'sub', 'super', '5', '-3'],
    'overflow': ['visible', 'hidden', 'auto', 'scroll'], 'color-interpolation-filters': ['sRGB', 'linearRGB'],
    'color-interpolation': ['sRGB', 'linearRGB'], 'color-rendering': ['auto', 'optimizeSpeed'],
    'mask-type': ['luminance', 'alpha'], 'vector-effect': ['none', 'non-scaling-stroke'],
    'text-overflow': ['clip', 'ellipsis'], 'white-space': ['normal', 'pre', 'nowrap'],
    'background-color': ['red', 'none'], 'glyph-orientation-horizontal': ['auto', '90'],
    'glyph-orientation-vertical': ['auto', '90'],
}
GENERIC_POOL = ['auto', 'none']
# SVG 1.1 / CSS: properties that are NOT inherited (independent of usvg's tables)
SPEC_NONINHERITED = {'alignment-baseline', 'baseline-shift', 'clip-path', 'display', 'dominant-baseline', 'filter',
                     'flood-color', 'flood-opacity', 'lighting-color', 'mask', 'opacity', 'overflow', 'stop-color',
                     'stop-opacity', 'text-decoration', 'unicode-bidi', 'transform', 'transform-origin',
                     'mix-blend-mode', 'isolation', 'mask-type', 'vector-effect', 'text-overflow', 'background-color'}
# properties for which `inherit` is exercised (fixed list: an edit of allows_inherit_value must not silently
# shrink the oracle)
INHERIT_PROPS = ['alignment-baseline', 'baseline-shift', 'clip-path', 'clip-rule', 'color', 'color-interpolation-filters',
                 'direction', 'display', 'dominant-baseline', 'fill', 'fill-opacity', 'fill-rule', 'filter',
                 'flood-color', 'flood-opacity', 'font-family', 'font-size', 'font-stretch', 'font-style',
                 'font-variant', 'font-weight', 'image-rendering', 'letter-spacing', 'marker-end', 'marker-mid',
                 'marker-start', 'mask', 'opacity', 'overflow', 'shape-rendering', 'stop-color', 'stop-opacity',
                 'stroke', 'stroke-dasharray', 'stroke-dashoffset', 'stroke-linecap', 'stroke-linejoin',
                 'stroke-miterlimit', 'stroke-opacity', 'stroke-width', 'text-anchor', 'text-decoration',
                 'text-rendering', 'visibility', 'word-spacing', 'writing-mode', 'font-kerning']
# SVG initial values (independent copy; Coq proves the generated table equal to Model.Cascade.spec_initial)
SPEC_INITIAL = {'image-rendering': 'auto', 'shape-rendering': 'auto', 'text-rendering': 'auto', 'clip-path': 'none',
                'filter': 'none', 'marker-end': 'none', 'marker-mid': 'none', 'marker-start': 'none', 'mask': 'none',
                'stroke': 'none', 'stroke-dasharray': 'none', 'text-decoration': 'none', 'font-stretch': 'normal',
                'font-style': 'normal', 'font-variant': 'normal', 'font-weight': 'normal', 'letter-spacing': 'normal',
                'word-spacing': 'normal', 'fill': 'black', 'flood-color': 'black', 'stop-color': 'black',
                'fill-opacity': '1', 'flood-opacity': '1', 'opacity': '1', 'stop-opacity': '1', 'stroke-opacity': '1',
                'clip-rule': 'nonzero', 'fill-rule': 'nonzero', 'baseline-shift': 'baseline',
                'color-interpolation-filters': 'linearRGB', 'direction': 'ltr', 'display': 'inline',
                'font-size': 'medium', 'overflow': 'visible', 'stroke-dashoffset': '0', 'stroke-linecap': 'butt',
                'stroke-linejoin': 'miter', 'stroke-miterlimit': '4', 'stroke-width': '1', 'text-anchor': 'start',
                'visibility': 'visible', 'writing-mode': 'lr-tb'}
# `overflow` has a user-agent default of `hidden` on these (SVG UA style sheet), so `visible` is not a no-op there
SPEC_STYLE_ONLY = ['mix-blend-mode', 'isolation', 'font-kerning']
SPEC_CSS_ONLY_VALUES = ['smooth', 'high-quality', 'crisp-edges', 'pixelated']
OVERFLOW_UA_HIDDEN = {'svg', 'symbol', 'marker', 'pattern', 'image'}
PNG = ('data:image/png;base64,iVBORw0KGgoAAAANSUhEUgAAAAIAAAACCAIAAAD91JpzAAAAFklEQVR4AWP8z8DAwMDAxMDAwMDAAAANHQEDasKb6QAAAABJRU5ErkJggg==')


def context_dependent(p, v):
    """value whose meaning depends on the element it is resolved on (font size, colour, parent font size)"""
    if v == 'currentColor':
        return True
    if re.search(r"\d(em|ex|%)", v):
        return True
    if p == 'font-size' and not re.fullmatch(r"[-+]?[\d.]+(e[-+]?\d+)?(px|in|cm|mm|pt|pc)?|medium", v):
        return True
    if p == 'font-weight' and v in ('bolder', 'lighter'):
        return True
    return False


class El:
    def __init__(self, tag, ident, fixed=(), children=(), text=None):
        self.tag = tag
        self.id = ident
        self.fixed = list(fixed)
        self.children = list(children)
        self.text = text
        self.parent = None
        self.decls = []       # list of dict(p, v, cv, where, sel, imp, sheet, role)
        self.shuffle = None
        for c in self.children:
            c.parent = self

    def ancestors(self):
        p = self.parent
        while p is not None:
            yield p
            p = p.parent

    def winner(self, p):
        for d in self.decls:
            if d['p'] == p and d['role'] == 'win':
                return d
        return None


def template():
    E = El
    return E('svg', 'r', [('width', '200'), ('height', '200'), ('viewBox', '0 0 200 200')], [
        E('defs', 'd', [], [
            E('linearGradient', 'lg1', [('x1', '0'), ('y1', '0'), ('x2', '1'), ('y2', '0')], [
                E('stop', 's1', [('offset', '0.1')]), E('stop', 's2', [('offset', '0.9')])]),
            E('clipPath', 'cp1', [], [E('circle', 'cc', [('cx', '60'), ('cy', '60'), ('r', '50')])]),
            E('mask', 'mk1', [], [E('ellipse', 'me', [('cx', '70'), ('cy', '70'), ('rx', '60'), ('ry', '50')])]),
            E('filter', 'f1', [], [E('feFlood', 'ff', [('result', 'a')]),
                                   E('feImage', 'fi', [('xlink:href', PNG), ('result', 'b')]),
                                   E('feDropShadow', 'fs', [('in', 'a'), ('dx', '1'), ('dy', '2'), ('stdDeviation', '1')])]),
            E('filter', 'f2', [], [E('feDiffuseLighting', 'fl', [('surfaceScale', '1'), ('result', 'a')], [
                E('feDistantLight', 'fd', [('azimuth', '45'), ('elevation', '30')])]),
                E('feSpecularLighting', 'fp', [('in', 'SourceGraphic'), ('specularExponent', '2')], [
                    E('fePointLight', 'fq', [('x', '50'), ('y', '60'), ('z', '20')])])]),
            E('marker', 'm1', [('markerWidth', '6'), ('markerHeight', '6'), ('refX', '3'), ('refY', '3')], [
                E('polygon', 'mp', [('points', '0,0 6,3 0,6')])]),
        ]),
        E('g', 'g1', [], [
            E('g', 'g2', [], [
                E('path', 'p1', [('d', 'M 20 20 L 120 30 L 70 120 L 40 60 Z')]),
                E('rect', 'r1', [('x', '10'), ('y', '130'), ('width', '60'), ('height', '40')]),
                E('line', 'l1', [('x1', '100'), ('y1', '100'), ('x2', '180'), ('y2', '120')]),
                E('polyline', 'pl1', [('points', '100,150 130,170 160,150 180,180')]),
                E('text', 't1', [('x', '20'), ('y', '110')], text='Text'),
                # elements that produce no content: zero-size rect, r=0 circle, one-point polyline
                E('rect', 'z1', [('x', '5'), ('y', '5'), ('width', '0'), ('height', '10')]),
                E('circle', 'z2', [('cx', '30'), ('cy', '30'), ('r', '0')]),
                E('polyline', 'z3', [('points', '5,5')]),
                E('image', 'i1', [('x', '120'), ('y', '20'), ('width', '40'), ('height', '40'), ('xlink:href', PNG)]),
            ]),
        ]),
    ])


PINNED = [('me', 'fill', 'white'), ('r1', 'fill', 'url(#lg1)'), ('pl1', 'filter', 'url(#f1)'), ('l1', 'stroke', 'black'),
          ('l1', 'filter', 'url(#f2)'), ('r1', 'clip-path', 'url(#cp1)'), ('p1', 'mask', 'url(#mk1)'),
          ('p1', 'marker-mid', 'url(#m1)'), ('p1', 'stroke', 'blue'), ('g1', 'color', '#123456')]
RELEVANT = {
    'stop': ['stop-color', 'stop-opacity'], 'feFlood': ['flood-color', 'flood-opacity'],
    'feDropShadow': ['flood-color', 'flood-opacity', 'color-interpolation-filters'],
    'feDiffuseLighting': ['lighting-color', 'color-interpolation-filters'], 'filter': ['color-interpolation-filters'],
    'feSpecularLighting': ['lighting-color', 'color-interpolation-filters'], 'feImage': ['image-rendering'],
    'circle': ['clip-rule', 'fill-rule'], 'text': ['font-family', 'font-size', 'font-style', 'font-weight', 'font-stretch',
                                                    'font-variant', 'letter-spacing', 'word-spacing', 'text-anchor',
                                                    'text-decoration', 'writing-mode', 'text-rendering',
                                                    'dominant-baseline', 'baseline-shift', 'fill', 'stroke'],
    'image': ['image-rendering', 'opacity', 'visibility'],
    'path': ['fill', 'stroke', 'stroke-width', 'stroke-linecap', 'stroke-linejoin', 'stroke-miterlimit',
             'stroke-dasharray', 'stroke-dashoffset', 'fill-rule', 'fill-opacity', 'stroke-opacity', 'marker-start',
             'marker-mid', 'marker-end', 'paint-order', 'shape-rendering', 'opacity', 'transform'],
    'g': ['fill', 'stroke', 'stroke-width', 'opacity', 'transform', 'mix-blend-mode', 'isolation', 'font-size', 'color',
          'font-family', 'font-weight', 'visibility', 'filter', 'clip-path', 'mask', 'fill-rule'],
    'svg': ['fill', 'stroke', 'font-size', 'color', 'stroke-width'],
}


def els(root):
    yield root
    for c in root.children:
        for x in els(c):
            yield x


def by_id(root, ident):
    for e in els(root):
        if e.id == ident:
            return e
    return None


class Oracle:
    def __init__(self, T, rng):
        self.T = T
        self.rng = rng
        self.props = list(T.presentation)
        self.generic = [p for p in self.props if p not in POOLS]
        # every property at every element kind that reads it: the hand table RELEVANT is completed from the converter's
        # read sites (filter primitive dispatch), so a new reading primitive is exercised without an edit here
        self.relevant = {k: list(v) for k, v in RELEVANT.items()}
        tags = set(e.tag for e in els(template()))
        self.uncovered_kinds = []
        for kind, p in T.read_kinds():
            if kind in tags:
                if p not in self.relevant.setdefault(kind, []):
                    self.relevant[kind].append(p)
            elif (kind, p) not in self.uncovered_kinds:
                self.uncovered_kinds.append((kind, p))

    def pool(self, p):
        return POOLS.get(p, GENERIC_POOL)

    def attr_ok(self, p, v):
        """can (p, v) be spelled as a presentation attribute?"""
        if p in self.T.style_only:
            return False
        if p == self.T.css_only_attr and v in self.T.css_only_values:
            return False
        return True

    def new_decl(self, p, v, role='win', cv='same'):
        return dict(p=p, v=v, cv=(v if cv == 'same' else cv), where='attr' if self.attr_ok(p, v) else 'style',
                    sel='id', imp=False, sheet='doc', role=role)

    def base(self):
        rng = self.rng
        root = template()
        for ident, p, v in PINNED:
            if rng.below(5) > 0:
                by_id(root, ident).decls.append(self.new_decl(p, v))
        # the content-less elements often carry a group-forming property
        for ident in ('z1', 'z2', 'z3'):
            e = by_id(root, ident)
            for _ in range(rng.choice([0, 1, 1, 2])):
                p, v = rng.choice(GROUP_FORMING)
                if e.winner(p) is None:
                    e.decls.append(self.new_decl(p, v))
        for ident, p in (('s1', 'stop-color'), ('s2', 'stop-color'), ('ff', 'flood-color'), ('fs', 'flood-color'), ('p1', 'fill'),
                         ('l1', 'stroke'), ('t1', 'fill')):
            e = by_id(root, ident)
            if rng.below(3) == 0 and e.winner(p) is None:
                e.decls.append(self.new_decl(p, rng.choice(ALPHA_COLORS)))
        for e in els(root):
            k = rng.choice([0, 0, 1, 1, 2, 3, 5])
            for _ in range(k):
                rel = self.relevant.get(e.tag)
                p = rng.choice(rel) if rel and rng.below(3) > 0 else rng.choice(self.props)
                if e.winner(p) is not None:
                    continue
                v = rng.choice(self.pool(p))
                if p == 'display' and v == 'none' and e.tag in ('svg', 'g', 'defs'):
                    continue
                e.decls.append(self.new_decl(p, v))
        return root

    # ----------------------------------------------------------------- precedence bookkeeping
    @staticmethod
    def rank(d):
        if d['where'] == 'attr':
            return 0
        if d['where'] == 'style':
            return 9
        return {'univ': 1, 'type': 2, 'class': 3, 'id': 4}[d['sel']] * 2 + (0 if d['sheet'] == 'inj' else 1)

    def valid(self, root):
        tags = {}
        for e in els(root):
            tags.setdefault(e.tag, []).append(e)
        for e in els(root):
            ps = set(d['p'] for d in e.decls)
            for p in ps:
                ds = [d for d in e.decls if d['p'] == p]
                if any(d['role'] == 'ignored' for d in ds):
                    if len(ds) != 1:
                        return False
                    continue
                ws = [d for d in ds if d['role'] == 'win']
                if len(ws) != 1:
                    return False
                w = ws[0]
                if w['where'] == 'attr' and (w['imp'] or not self.attr_ok(p, w['v'])):
                    return False
                # preconditions of the no-op rewrites must still hold after later rewrites touched the ancestors
                if w.get('kind') == 'default' and p not in SPEC_NONINHERITED and any(a.winner(p) is not None for a in e.ancestors()):
                    return False
                if w.get('kind') == 'inherit':
                    src = self.inherit_source(e, p)
                    if p in SPEC_NONINHERITED:
                        if w['cv'] != (src['cv'] if src is not None else None):
                            return False
                    elif src is not None and (context_dependent(p, src['v']) or src['v'] == 'inherit' or src['cv'] is None):
                        return False
                seen = set()
                for d in ds:
                    key = (d['where'], d['sel'], d['sheet']) if d['where'] == 'css' else d['where']
                    if key in seen:
                        return False       # one declaration per source
                    seen.add(key)
                    if d['where'] == 'attr' and not self.attr_ok(p, d['v']):
                        return False
                    if d is w:
                        continue
                    if d['imp']:
                        return False
                    if not (w['imp'] or self.rank(d) < self.rank(w)):
                        return False
            for d in e.decls:
                if d['where'] == 'css' and d['sel'] in ('type', 'univ'):
                    group = tags[e.tag] if d['sel'] == 'type' else list(els(root))
                    for o in group:
                        if not any(x['p'] == d['p'] and x['v'] == d['v'] and x['where'] == 'css' and x['sel'] == d['sel']
                                   and x['imp'] == d['imp'] and x['sheet'] == d['sheet'] and x['role'] == d['role']
                                   for x in o.decls):
                            return False
        return True

    def inherit_source(self, e, p):
        """declaration an explicit `inherit` of p on e takes its value from (spec semantics), or None"""
        if p in SPEC_NONINHERITED:
            return e.parent.winner(p) if e.parent is not None else None
        for a in e.ancestors():
            w = a.winner(p)
            if w is not None:
                return w
        return None

    # ----------------------------------------------------------------- rewrites: each returns a tag or None
    def rw_move(self, root, only=None):
        rng = self.rng
        cands = [(e, d) for e in els(root) for d in e.decls if d['role'] == 'win' and d['sel'] not in ('type', 'univ')]
        if not cands:
            return None
        e, d = rng.choice(cands)
        kind = only or rng.choice(['attr', 'style', 'css-id', 'css-class', 'css-type'])
        if kind == 'attr':
            d.update(where='attr', imp=False)
        elif kind == 'style':
            d.update(where='style')
        else:
            sel = kind[4:]
            if sel == 'type' and sum(1 for o in els(root) if o.tag == e.tag) != 1:
                return None
            d.update(where='css', sel=sel, sheet=rng.choice(['doc', 'doc', 'inj']))
        return 'move-' + kind

    def rw_important(self, root):
        cands = [(e, d) for e in els(root) for d in e.decls if d['role'] == 'win' and d['where'] != 'attr' and not d['imp']
                 and d['sel'] not in ('type', 'univ')]
        if not cands:
            return None
        e, d = self.rng.choice(cands)
        d['imp'] = True
        return 'important'

    def rw_group(self, root, sel):
        """a new declaration on every element (universal) / every element of one tag (type)"""
        rng = self.rng
        allv = list(els(root))
        if sel == 'univ':
            group = allv
        else:
            tag = rng.choice(sorted(set(e.tag for e in allv)))
            group = [e for e in allv if e.tag == tag]
        ps = [p for p in self.props if all(not any(d['p'] == p for d in e.decls) for e in group)]
        if not ps:
            return None
        p = rng.choice(ps)
        v = rng.choice(self.pool(p))
        if p == 'display' and v == 'none':
            return None
        imp = rng.below(4) == 0
        sheet = rng.choice(['doc', 'inj'])
        for e in group:
            d = self.new_decl(p, v)
            d.update(where='css', sel=sel, imp=imp, sheet=sheet)
            e.decls.append(d)
        return 'css-' + sel

    def rw_shadow(self, root):
        """add a declaration of another value that loses against the element's winner"""
        rng = self.rng
        cands = [(e, d) for e in els(root) for d in e.decls if d['role'] == 'win']
        if not cands:
            return None
        e, w = rng.choice(cands)
        p = w['p']
        if w['where'] == 'attr' and w['sel'] not in ('type', 'univ'):
            w['where'] = rng.choice(['style', 'css'])       # make room below the winner
            w['sel'] = rng.choice(['id', 'class'])
        others = [v for v in self.pool(p) if v != w['v']]
        if p in INHERIT_PROPS and rng.below(3) == 0:
            others = ['inherit']
        if not others:
            return None
        tag = None
        for _ in range(1 + rng.below(2)):
            lo = self.new_decl(p, rng.choice(others), role='lose', cv=None)
            spots = [('attr', 'id', 'doc'), ('css', 'class', 'inj'), ('css', 'class', 'doc'), ('css', 'id', 'inj'),
                     ('css', 'id', 'doc'), ('style', 'id', 'doc')]
            spots = [sp for sp in spots if (sp[0] != 'attr' or self.attr_ok(p, lo['v']))]
            used = set((d['where'], d['sel'] if d['where'] == 'css' else 'id', d['sheet'] if d['where'] == 'css' else 'doc')
                       for d in e.decls if d['p'] == p)
            ok = []
            for sp in spots:
                lo.update(where=sp[0], sel=sp[1], sheet=sp[2])
                if sp not in used and (w['imp'] or self.rank(lo) < self.rank(w)):
                    ok.append(sp)
            if not ok:
                break
            sp = rng.choice(ok)
            lo.update(where=sp[0], sel=sp[1], sheet=sp[2])
            e.decls.append(lo)
            tag = 'shadow' + ('-inherit' if lo['v'] == 'inherit' else '')
        return tag

    def rw_pile(self, root):
        """3-5 declarations of one property on one element: the winner plus 2-4 losers on both sides of it in cascade
        order (an !important winner in the middle of the cascade, or a plain winner on top)"""
        rng = self.rng
        cands = [(e, d) for e in els(root) for d in e.decls if d['role'] == 'win' and d['sel'] not in ('type', 'univ')
                 and sum(1 for x in e.decls if x['p'] == d['p']) == 1]
        if not cands:
            return None
        e, w = rng.choice(cands)
        p = w['p']
        spots = [('attr', 'id', 'doc'), ('css', 'class', 'inj'), ('css', 'class', 'doc'), ('css', 'id', 'inj'),
                 ('css', 'id', 'doc'), ('style', 'id', 'doc')]
        others = [v for v in self.pool(p) if v != w['v']]
        if not others:
            return None
        important = rng.below(3) > 0
        if important:
            wi = 1 + rng.below(4)                      # never the attribute, often in the middle
        else:
            wi = rng.choice([4, 5, 5])
        w.update(where=spots[wi][0], sel=spots[wi][1], sheet=spots[wi][2], imp=important)
        below = [i for i in range(len(spots)) if i < wi and (spots[i][0] != 'attr' or True)]
        above = [i for i in range(len(spots)) if i > wi]
        chosen = []
        if below:
            chosen.append(rng.choice(below))
        if important and above:
            chosen.append(rng.choice(above))
        pool_ = [i for i in (below + (above if important else [])) if i not in chosen]
        rng.shuffle(pool_)
        chosen += pool_[:rng.below(3)]
        for i in chosen:
            v = rng.choice(others)
            if spots[i][0] == 'attr' and not self.attr_ok(p, v):
                continue
            lo = self.new_decl(p, v, role='lose', cv=None)
            lo.update(where=spots[i][0], sel=spots[i][1], sheet=spots[i][2])
            e.decls.append(lo)
        return 'pile-important' if important else 'pile'

    def rw_inherit(self, root):
        rng = self.rng
        want_source = rng.below(3) > 0
        allv = list(els(root))
        for _ in range(60):
            e = rng.choice(allv)
            p = rng.choice(INHERIT_PROPS)
            if want_source:
                # pick a property some ancestor (or the parent) declares
                if rng.below(2) and e.parent is not None:
                    ps = sorted(set(d['p'] for d in e.parent.decls if d['p'] in INHERIT_PROPS and d['p'] in SPEC_NONINHERITED))
                else:
                    ps = sorted(set(d['p'] for a in e.ancestors() for d in a.decls if d['p'] in INHERIT_PROPS))
                if not ps:
                    continue
                p = rng.choice(ps)
            if any(d['p'] == p for d in e.decls):
                continue
            src = self.inherit_source(e, p)
            if want_source and src is None:
                continue
            if src is not None and (src['v'] == 'inherit' or src['cv'] is None):
                continue
            if p not in SPEC_NONINHERITED:
                if src is not None and context_dependent(p, src['v']):
                    continue             # known class inherit-relative-value: dedicated scenario
                cv = None                # == saying nothing
            else:
                cv = src['cv'] if src is not None else None
                if src is None and p == 'overflow' and e.tag in OVERFLOW_UA_HIDDEN:
                    continue
            d = self.new_decl(p, 'inherit', cv=cv)
            d['kind'] = 'inherit'
            d['where'] = rng.choice(['attr', 'style', 'css']) if self.attr_ok(p, 'inherit') else rng.choice(['style', 'css'])
            d['sel'] = rng.choice(['id', 'class'])
            d['imp'] = d['where'] != 'attr' and rng.below(4) == 0
            e.decls.append(d)
            return 'inherit-' + ('parent' if p in SPEC_NONINHERITED else 'ancestor') + ('' if src is not None else '-default')
        return None

    def rw_default(self, root):
        rng = self.rng
        # half of the time: the default of an opacity property on an element whose own colour carries alpha
        # (stop-opacity next to stop-color: rgba(), fill-opacity next to fill: #rrggbbaa, ...)
        directed = []
        if rng.below(2):
            for e in els(root):
                for po, pc in OPACITY_OF.items():
                    w = e.winner(pc)
                    if w is not None and w['cv'] in ALPHA_COLORS and not any(d['p'] == po for d in e.decls):
                        directed.append((e, po))
        if not directed and rng.below(3) == 0:
            # ... or: a default of a group-level property on an element that produces no content but has a
            # group-forming property (must not leave an empty group behind)
            for ident in ('z1', 'z2', 'z3'):
                e = by_id(root, ident)
                if e is not None and any((d['p'], d['cv']) in GROUP_FORMING for d in e.decls):
                    for p in GROUP_DEFAULTS:
                        if not any(d['p'] == p for d in e.decls):
                            directed.append((e, p))
        for _ in range(20):
            e = rng.choice(list(els(root)))
            p = rng.choice(sorted(SPEC_INITIAL))
            if directed:
                e, p = rng.choice(directed)
                directed = []
            if any(d['p'] == p for d in e.decls):
                continue
            if p not in SPEC_NONINHERITED and any(a.winner(p) is not None for a in e.ancestors()):
                continue
            if p == 'overflow' and e.tag in OVERFLOW_UA_HIDDEN:
                continue
            v = SPEC_INITIAL[p]
            if v == '1' and p.endswith('opacity') and rng.below(2):
                v = rng.choice(['1.0', '100%', '1e0'])
            d = self.new_decl(p, v, cv=None)
            d['where'] = rng.choice(['attr', 'style', 'css'])
            d['sel'] = rng.choice(['id', 'class'])
            d['kind'] = 'default'
            e.decls.append(d)
            return 'default' + ('-on-empty-element' if e.id in ('z1', 'z2', 'z3') else '') + ('-opacity-on-alpha-colour' if p in OPACITY_OF and e.winner(OPACITY_OF[p]) is not None
                                and e.winner(OPACITY_OF[p])['cv'] in ALPHA_COLORS else '')
        return None

    def rw_ignored_attr(self, root):
        """a style-only property (or a CSS-only image-rendering value) written as an XML attribute is ignored"""
        rng = self.rng
        for _ in range(20):
            e = rng.choice(list(els(root)))
            if rng.below(3) == 0:
                p, v = 'image-rendering', rng.choice(SPEC_CSS_ONLY_VALUES)
            else:
                p = rng.choice(SPEC_STYLE_ONLY)
                v = rng.choice([x for x in self.pool(p) if x not in ('normal', 'auto')] or self.pool(p))
            if any(d['p'] == p for d in e.decls):
                continue
            d = dict(p=p, v=v, cv=None, where='attr', sel='id', imp=False, sheet='doc', role='ignored')
            e.decls.append(d)
            return 'ignored-attr'
        return None

    def rw_unit(self, root, dpi):
        rng = self.rng
        cands = [(e, d) for e in els(root) for d in e.decls
                 if d['p'] in LENGTH_PROPS and re.fullmatch(r"(-?[\d.]+)( -?[\d.]+)*", d['v']) and d['v'] == d['cv']]
        if not cands:
            return None
        e, d = rng.choice(cands)
        fac = {'in': float(dpi), 'cm': dpi / 2.54, 'mm': dpi / 25.4, 'pt': dpi / 72.0, 'pc': dpi / 6.0, 'px': 1.0}
        out = []
        for tok in d['v'].split():
            u = rng.choice(list(fac))
            out.append("%s%s" % (repr(float(tok) / fac[u]), u))
        d['v'] = ' '.join(out)
        return 'unit'

    def rw_notation(self, root):
        rng = self.rng
        cands = []
        for e in els(root):
            for d in e.decls:
                if d['v'] != d['cv']:
                    continue
                if d['v'] in COLORS:
                    cands.append((d, COLORS[d['v']]))
                elif d['v'] in NUM_ALT and d['p'] not in ('font-weight',):
                    alts = list(NUM_ALT[d['v']])
                    if d['p'].endswith('opacity') and d['v'] in OPAC_PCT:
                        alts.append(OPAC_PCT[d['v']])
                    cands.append((d, alts))
        if not cands:
            return None
        d, alts = rng.choice(cands)
        d['v'] = rng.choice(alts)
        return 'notation'

    def rw_order(self, root):
        for e in els(root):
            e.shuffle = self.rng.next()
        return 'attr-order'

    REWRITES = ['move-attr', 'move-style', 'move-css-id', 'move-css-class', 'move-css-type', 'important', 'css-univ',
                'css-type-all', 'shadow', 'inherit', 'default', 'unit', 'notation', 'attr-order', 'injected', 'ignored-attr', 'pile', 'pile']

    def apply(self, root, name, dpi):
        if name.startswith('move-'):
            return self.rw_move(root, name[5:])
        if name == 'important':
            return self.rw_important(root)
        if name == 'css-univ':
            return self.rw_group(root, 'univ')
        if name == 'css-type-all':
            return self.rw_group(root, 'type')
        if name == 'shadow':
            return self.rw_shadow(root)
        if name == 'inherit':
            return self.rw_inherit(root)
        if name == 'default':
            return self.rw_default(root)
        if name == 'unit':
            return self.rw_unit(root, dpi)
        if name == 'ignored-attr':
            return self.rw_ignored_attr(root)
        if name == 'pile':
            return self.rw_pile(root)
        if name == 'notation':
            return self.rw_notation(root)
        if name == 'attr-order':
            return self.rw_order(root)
        if name == 'injected':
            cands = [d for e in els(root) for d in e.decls if d['where'] == 'css' and d['sheet'] == 'doc'
                     and d['sel'] in ('id', 'class')]
            if not cands:
                r = self.rw_move(root, 'css-id')
                if r is None:
                    return None
                cands = [d for e in els(root) for d in e.decls if d['where'] == 'css' and d['sel'] in ('id', 'class')]
            self.rng.choice(cands)['sheet'] = 'inj'
            return 'injected'
        return None

    def variant(self, base, names, dpi):
        """apply the named rewrites (each retried a few times); returns (root, applied tags)"""
        root = base
        applied = []
        for nm in names:
            for _ in range(6):
                trial = copy.deepcopy(root)
                tag = self.apply(trial, nm, dpi)
                if tag is not None and self.valid(trial):
                    root = trial
                    applied.append(tag)
                    break
        return root, applied

    # ----------------------------------------------------------------- rendering
    def render(self, root, canonical):
        """-> (svg text, injected css text or None)"""
        rules = {'doc': [], 'inj': []}
        seen_groups = set()

        def one(e):
            attrs = list(e.fixed) + [('id', e.id)]
            style = []
            cls = False
            for d in e.decls:
                if canonical:
                    if d['role'] != 'win' or d['cv'] is None:
                        continue
                    if self.attr_ok(d['p'], d['cv']):
                        attrs.append((d['p'], d['cv']))
                    else:
                        style.append((d['p'], d['cv'], False))
                    continue
                if d['where'] == 'attr':
                    attrs.append((d['p'], d['v']))
                elif d['where'] == 'style':
                    style.append((d['p'], d['v'], d['imp']))
                else:
                    if d['sel'] == 'id':
                        sel = '#' + e.id
                    elif d['sel'] == 'class':
                        sel = '.c_' + e.id
                        cls = True
                    elif d['sel'] == 'type':
                        sel = e.tag
                    else:
                        sel = '*'
                    key = (sel, d['p'], d['v'], d['imp'], d['sheet'])
                    if d['sel'] in ('type', 'univ'):
                        if key in seen_groups:
                            continue
                        seen_groups.add(key)
                    rules[d['sheet']].append("%s{%s}" % (sel, decl_text([(d['p'], d['v'], d['imp'])])))
            if cls:
                attrs.append(('class', 'zz c_' + e.id))
            if style:
                if e.shuffle is not None and not canonical:
                    vlib.SplitMix64(e.shuffle ^ 7).shuffle(style)
                attrs.append(('style', decl_text(style)))
            if e.shuffle is not None and not canonical:
                vlib.SplitMix64(e.shuffle).shuffle(attrs)
            a = ''.join(' %s="%s"' % kv for kv in attrs)
            inner = (e.text or '') + ''.join(one(c) for c in e.children)
            if e.parent is None:
                return '<svg %s%s>@STYLE@%s</svg>' % (NS, a, inner)
            return '<%s%s>%s</%s>' % (e.tag, a, inner, e.tag)
        text = one(root)
        for k in rules:
            vlib.SplitMix64(len(text) + len(rules[k])).shuffle(rules[k])
        st = ('<style%s>%s</style>' % (' type="text/css"' if len(text) % 2 else '', ' '.join(rules['doc']))) if rules['doc'] else ''
        return text.replace('@STYLE@', st), (' '.join(rules['inj']) if rules['inj'] else None)


TOKEN_RE = re.compile(r'"data:[^"]*"|#[0-9a-fA-F]{6}\b|[A-Za-z_][\w:.-]*|[-+]?(?:\d+\.?\d*|\.\d+)(?:[eE][-+]?\d+)?|\s+|.', re.S)
NUM_RE = re.compile(r'[-+]?(?:\d+\.?\d*|\.\d+)(?:[eE][-+]?\d+)?$')


def tokens(s):
    return [t for t in TOKEN_RE.findall(s) if not t.isspace()]


def compare_strings(a, b, tol=1e-4):
    """-> (equal?, description of first difference, largest relative numeric difference)"""
    ta, tb = tokens(a), tokens(b)
    worst = 0.0
    for i, (x, y) in enumerate(zip(ta, tb)):
        if x == y:
            continue
        if NUM_RE.match(x) and NUM_RE.match(y):
            fx, fy = float(x), float(y)
            rel = abs(fx - fy) / max(1.0, abs(fx), abs(fy))
            worst = max(worst, rel)
            if rel <= tol:
                continue
        return False, "token %d: %r vs %r (context: ...%s...)" % (i, x, y, ' '.join(ta[max(0, i - 8):i + 3])), worst
    if len(ta) != len(tb):
        return False, "different number of tokens: %d vs %d" % (len(ta), len(tb)), worst
    return True, '', worst


def known_scenarios(orc, dpi):
    """dedicated pairs for the two known classes; -> list of (class, canonical root, variant root, description)"""
    rng = orc.rng
    out = []
    # inherit-copies-important: ancestor's declaration important (CSS), the element's own winner in CSS/style,
    # plus a losing presentation attribute `inherit`
    root = template()
    g1, p1 = by_id(root, 'g1'), by_id(root, 'p1')
    p = rng.choice(['fill', 'stroke', 'fill-rule', 'stroke-linecap'])
    va, vb = orc.pool(p)[0], orc.pool(p)[1]
    d = orc.new_decl(p, va)
    d.update(where='css', sel='id', imp=True)
    g1.decls.append(d)
    w = orc.new_decl(p, vb)
    w.update(where=rng.choice(['css', 'style']), sel='id')
    p1.decls.append(w)
    if p != 'stroke':
        p1.decls.append(orc.new_decl('stroke', 'blue'))
    lo = orc.new_decl(p, 'inherit', role='lose', cv=None)
    p1.decls.append(lo)
    out.append((None, root, "regression 7ac03db - %s: important on the ancestor, own CSS/style value %s, losing attribute %s=\"inherit\"" % (p, vb, p)))
    # the same class the other way round: `p: inherit !important` takes the (plain) flag of its source and is then
    # replaced by a later plain declaration
    root = template()
    g1, p1 = by_id(root, 'g1'), by_id(root, 'p1')
    p = rng.choice(['fill', 'fill-rule', 'stroke-linejoin'])
    va, vb = orc.pool(p)[0], orc.pool(p)[1]
    g1.decls.append(orc.new_decl(p, va))
    p1.decls.append(orc.new_decl('stroke', 'blue'))
    w = orc.new_decl(p, 'inherit', cv=None)
    w.update(where='css', sel='class', imp=True)
    p1.decls.append(w)
    lo = orc.new_decl(p, vb, role='lose', cv=None)
    lo.update(where='style')
    p1.decls.append(lo)
    out.append((None, root, "regression 7ac03db - %s: `inherit !important` by a CSS rule, then a plain style declaration %s" % (p, vb)))
    # inherit-relative-value: inherit of a context-dependent value
    root = template()
    g1, g2, t1, p1 = by_id(root, 'g1'), by_id(root, 'g2'), by_id(root, 't1'), by_id(root, 'p1')
    k = rng.below(3)
    if k == 0:
        g1.decls.append(orc.new_decl('font-size', '20'))
        g2.decls.append(orc.new_decl('font-size', rng.choice(['150%', '2em', 'larger'])))
        t1.decls.append(orc.new_decl('font-size', 'inherit', cv=None))
        desc = 'font-size: inherit of a relative font-size'
    elif k == 1:
        g1.decls.append(orc.new_decl('font-size', '20'))
        g1.decls.append(orc.new_decl('stroke-width', '0.2em'))
        g1.decls.append(orc.new_decl('stroke', 'black'))
        g2.decls.append(orc.new_decl('font-size', '40'))
        p1.decls.append(orc.new_decl('stroke-width', 'inherit', cv=None))
        desc = 'stroke-width: inherit of an em length across a font-size change'
    else:
        g1.decls.append(orc.new_decl('color', 'red'))
        g1.decls.append(orc.new_decl('fill', 'currentColor'))
        g2.decls.append(orc.new_decl('color', 'blue'))
        p1.decls.append(orc.new_decl('fill', 'inherit', cv=None))
        desc = 'fill: inherit of currentColor across a color change'
    out.append(('inherit-relative-value', root, desc))
    return out


def inherit_triples(orc, rng, n_per_prop):
    """For every inherited property alone: (a) value on the element, (b) `inherit` on the element + value on the parent,
    (c) value only on an ancestor 1-3 levels up; the element is the only leaf of a chain g > g > g.  -> (canon, variant, tag)"""
    out = []
    defs = ('<defs><marker id="m1" markerWidth="6" markerHeight="6" refX="3" refY="3"><circle cx="3" cy="3" r="2"/></marker>'
            '<linearGradient id="lg1"><stop offset="0" stop-color="red"/><stop offset="1" stop-color="blue"/></linearGradient></defs>')
    leaves = {'path': '<path id="e"%s d="M 20 20 L 120 30 L 70 120 L 40 60"/>',
              'polyline': '<polyline id="e"%s points="20,150 60,170 100,150 140,180"/>',
              'text': '<text id="e"%s x="20" y="100">Text</text>',
              'image': '<image id="e"%s x="20" y="20" width="40" height="40" xlink:href="' + PNG + '"/>'}
    props = [p for p in INHERIT_PROPS if p not in SPEC_NONINHERITED and p not in orc.T.style_only]
    for p in props:
        for _ in range(n_per_prop):
            vals = [v for v in orc.pool(p) if v not in ('inherit',)]
            v = rng.choice(vals)
            if p.startswith('marker-'):
                v = 'url(#m1)'
            kind = rng.choice(['path', 'polyline'] if (p.startswith('marker') or p.startswith('stroke') or p in ('fill-rule', 'shape-rendering'))
                              else ['text'] if (p.startswith('font') or p.startswith('text') or p in ('letter-spacing', 'word-spacing', 'writing-mode', 'direction'))
                              else ['image'] if p == 'image-rendering' else ['path', 'polyline', 'text'])
            other = ' stroke="black"' if p not in ('stroke',) else ''
            if p == 'color':
                other += ' fill="currentColor"'
            if p == 'clip-rule':
                continue

            def doc(on_leaf, on_g):
                # on_g: dict level (0 = outermost g) -> attribute text
                leaf = leaves[kind] % (other + on_leaf)
                inner = leaf
                for lvl in (2, 1, 0):
                    inner = '<g id="g%d"%s>%s</g>' % (lvl, on_g.get(lvl, ''), inner)
                return '<svg %s width="200" height="200">%s%s</svg>' % (NS, defs, inner)
            decl = ' %s="%s"' % (p, v)
            a = doc(decl, {})
            lvl = rng.below(3)
            out.append((a, doc('', {lvl: decl}), 'inherit-triple-ancestor-%d:%s' % (3 - lvl, p)))
            if p in orc.T.allows_inherit and not context_dependent(p, v):
                out.append((a, doc(' %s="inherit"' % p, {2: decl}), 'inherit-triple-keyword:%s' % p))
                out.append((a, doc(' style="%s:inherit"' % p, {rng.below(3): decl}), 'inherit-triple-keyword-style:%s' % p))
    return out


def notation_alternatives(p, v, dpi):
    """other spellings of value v of property p that must resolve to the same thing: [(kind, text)]"""
    alts = []
    if v in COLORS:
        alts += [('colour', a) for a in COLORS[v] if a != v]
    if v in NUM_ALT and p != 'font-weight':
        alts += [('number', a) for a in NUM_ALT[v]]
    if p.endswith('opacity') and v in OPAC_PCT:
        alts.append(('percent', OPAC_PCT[v]))
    if p in LENGTH_PROPS and re.fullmatch(r"(-?[\d.]+)( -?[\d.]+)*", v):
        fac = {'in': float(dpi), 'cm': dpi / 2.54, 'mm': dpi / 25.4, 'pt': dpi / 72.0, 'pc': dpi / 6.0, 'px': 1.0}
        for u in sorted(fac):
            alts.append(('unit', ' '.join("%s%s" % (repr(float(tok) / fac[u]), u) for tok in v.split())))
    return alts


def notation_sweep(orc, rng, full):
    """Every property at every element kind of the template that reads it (RELEVANT completed from the source-derived
    read-site table), every pool value that has another notation, in every notation (quick tier: the percentage
    always, plus one other notation per value): the value written canonically vs re-spelled, alone on the element,
    everything of the template referenced.  -> [(dpi, canonical, variant, injected css, [tag])]"""
    out = []
    root0 = template()
    for ident, p, v in PINNED:
        by_id(root0, ident).decls.append(orc.new_decl(p, v))
    seen = set()
    k = 0
    for e0 in list(els(root0)):
        for p in orc.relevant.get(e0.tag, []):
            if (e0.tag, p) in seen or e0.winner(p) is not None or p not in orc.props:
                continue
            seen.add((e0.tag, p))
            for v in orc.pool(p):
                dpi = (72, 96, 300)[k % 3]
                alts = notation_alternatives(p, v, dpi)
                if not full and len(alts) > 1:
                    must = [a for a in alts if a[0] == 'percent']
                    rest = [a for a in alts if a[0] != 'percent']
                    alts = must + [rng.choice(rest)]
                for kind, alt in alts:
                    k += 1
                    root = copy.deepcopy(root0)
                    e = by_id(root, e0.id)
                    d = orc.new_decl(p, alt, cv=v)
                    where = ('attr', 'style', 'css')[k % 3]
                    if where == 'attr' and not orc.attr_ok(p, alt):
                        where = 'style'
                    d.update(where=where, sel=('id', 'class')[k % 2])
                    e.decls.append(d)
                    cd, _ = orc.render(root, True)
                    vd, inj = orc.render(root, False)
                    out.append((dpi, cd, vd, inj, ['notation-sweep-%s:%s@%s %s -> %s' % (kind, p, e0.tag, v, alt)]))
    return out


def run_spelling(ctx, binp, T, n_base, n_comp, search=False):
    rng = ctx.rng
    orc = Oracle(T, rng)
    pairs = []       # (dpi, canon doc, variant doc, inj css, tags, known class or None)
    # the directed families first (a failing read site is looked up among the first reported differences)
    for cd, vd, tag in inherit_triples(orc, rng, 1 if n_base <= 70 else 4):
        pairs.append((96, cd, vd, None, [tag], None))
    sweep = notation_sweep(orc, rng, full=(n_base > 70))
    for dpi, cd, vd, inj, tags in sweep:
        pairs.append((dpi, cd, vd, inj, tags, None))
    ctx.cov['notation_sweep_pairs'] = len(sweep)
    ctx.cov['read_site_kinds'] = dict(exercised=sorted("%s@%s" % (p, k) for k, ps in orc.relevant.items() for p in ps),
                                      not_in_template=["%s@%s" % (p, k) for k, p in orc.uncovered_kinds])
    for b in range(n_base):
        base = orc.base()
        dpi = rng.choice([72, 96, 300])
        plans = [[nm] for nm in Oracle.REWRITES]
        for _ in range(n_comp):
            plans.append([rng.choice(Oracle.REWRITES) for _ in range(2 + rng.below(5))])
        for names in plans:
            v, applied = orc.variant(base, names, dpi)
            if not applied:
                continue
            cd, _ = orc.render(v, True)
            vd, inj = orc.render(v, False)
            pairs.append((dpi, cd, vd, inj, applied, None))
    for _ in range(max(2, n_base // 4)):
        dpi = rng.choice([72, 96, 300])
        for cls, root, desc in known_scenarios(orc, dpi):
            cd, _ = orc.render(root, True)
            vd, inj = orc.render(root, False)
            pairs.append((dpi, cd, vd, inj, [desc], cls))
    items = []
    for dpi, cd, vd, inj, tags, cls in pairs:
        items.append("dpi=%d\t%s" % (dpi, cd))
        items.append("dpi=%d%s\t%s" % (dpi, (';css=' + hexs(inj)) if inj else '', vd))
    outs = ctx.rvh_batch(binp, 'tostring', items, per_item_timeout=30)
    hist = {}
    worst = 0.0
    nfail = 0
    known_seen = {}
    for k, (dpi, cd, vd, inj, tags, cls) in enumerate(pairs):
        ra, rb = outs[2 * k], outs[2 * k + 1]
        try:
            ja, jb = json.loads(ra), json.loads(rb)
        except (TypeError, ValueError):
            ja, jb = {'error': 'unparsable'}, {'error': 'unparsable'}
        replay = dict(op='tostring', dpi=dpi, canonical=cd, variant=vd, injected_css=inj, rewrites=tags)
        for t in ([cls] if cls else tags):
            t = t.split(':')[0] if (t.startswith('notation-sweep') or t.startswith('inherit-triple')) else t
            hist[t] = hist.get(t, 0) + 1
        if 's' not in ja or 's' not in jb:
            if ja.get('error') and ja.get('error') == jb.get('error'):
                ctx.note_case('spelling/' + vd, nontrivial=False)
                continue
            ctx.violation("spelling: a generated document failed to parse or crashed: %s / %s" % (str(ja)[:120], str(jb)[:120]), replay)
            nfail += 1
            continue
        eq, why, w = compare_strings(ja['s'], jb['s'])
        worst = max(worst, w if eq else 0.0)
        ctx.note_case('spelling/' + vd + (inj or '') + str(dpi), nontrivial=('<path' in ja['s'] or '<g' in ja['s']))
        if cls is not None:
            known_seen.setdefault(cls, [0, 0])
            known_seen[cls][0] += 1
            if not eq:
                known_seen[cls][1] += 1
                replay['difference'] = why
                ctx.known_or_violation(cls, "spelling (%s): %s -> %s" % (cls, tags[0], why), replay)
            continue
        if not eq:
            nfail += 1
            if nfail <= 4:
                replay['difference'] = why
                ctx.violation("spelling: documents that differ only in how properties are spelled (%s, dpi %d) "
                              "produce different trees: %s" % ('+'.join(tags), dpi, why), replay)
    ctx.cov['spelling_pairs'] = len(pairs)
    ctx.cov['spelling_rewrites'] = hist
    ctx.cov['spelling_max_rel_diff'] = worst
    ctx.cov['known_class_pairs'] = {k: dict(run=v[0], differing=v[1]) for k, v in known_seen.items()}
    ctx.cov['presentation_properties'] = dict(total=len(orc.props), with_value_pool=len(orc.props) - len(orc.generic),
                                              generic_pool=orc.generic)
    if pairs:
        ctx.add_sample(dict(op='spelling', rewrites=pairs[0][4], canonical=pairs[0][1][:600], variant=pairs[0][2][:600]))
        ctx.add_sample(dict(op='spelling', rewrites=pairs[-1][4], variant=pairs[-1][2][:600]))
    return nfail


# =================================================================================================
def model_search(ctx, T):
    """When a proof or a tie broke: evaluate the boolean checkers of the table theorems on every attribute and turn a
    failing attribute into a document pair."""
    body = ("Eval vm_compute in (map AId_idx (filter (fun a => negb (noninherit_entry_ok a && initial_entry_ok a && style_only_entry_ok a && "
            "default_entry_ok a && class_entry_ok a)) all_AId)).\n")
    rc, out = ctx.coq_eval('search_tables', body, ['Model.Base', 'Gen.SvgTables', 'Model.Cascade', 'Proofs.Cascade'])
    bad = ctx.parse_N_list(out) if rc == 0 else None
    if not bad:
        # Proofs.Cascade itself may be what broke: use the model only
        body = ("Eval vm_compute in (map AId_idx (filter (fun a => negb (noninherit_entry_ok a && initial_entry_ok a && style_only_entry_ok a)) all_AId)).\n")
        rc, out = ctx.coq_eval('search_tables2', body, ['Model.Base', 'Gen.SvgTables', 'Model.Cascade'])
        bad = ctx.parse_N_list(out) if rc == 0 else None
    names = []
    for i in bad or []:
        if i < len(T.t['aids']):
            names.append(T.ctor2aname[T.t['aids'][i]])
    return names


def site_search(ctx, T):
    """read sites that fail Model.CascadeSites.site_ok (C09_read_sites_notation / _uniform / C09_opacity_family_reader)"""
    rc, out = ctx.coq_eval('search_sites', "Eval vm_compute in bad_sites.\n",
                           ['Model.Base', 'Gen.SvgTables', 'Gen.ReadSites', 'Model.CascadeSites'])
    bad = ctx.parse_N_list(out) if rc == 0 else None
    res = []
    for i in bad or []:
        if i < len(T.sites):
            f, fn, a, how, reader, walk = T.sites[i]
            res.append(dict(file=f, function=fn, attribute=T.ctor2aname.get(a, a), method=how, reader=reader, lookup=walk,
                            element_kinds=T.site_kinds.get(fn, [])))
    return res


def table_witness_pairs(names):
    """document pairs exhibiting a wrong class / default of property p"""
    out = []
    for p in names:
        vals = POOLS.get(p, GENERIC_POOL)
        v = [x for x in vals if x not in ('none', 'auto', 'normal', 'inherit')]
        v = v[0] if v else vals[0]
        shape = '<path id="p" %s d="M 10 10 L 90 10 L 50 80 Z" stroke="blue"/>'
        if p in SPEC_STYLE_ONLY:
            # the attribute spelling must be ignored
            for val in POOLS.get(p, GENERIC_POOL):
                a = '<svg %s width="100" height="100"><g id="a"><path id="q" d="M 0 0 L 50 50 L 0 50 Z"/><g id="b">%s</g></g></svg>' % (NS, shape % '')
                b = a.replace('<g id="b">', '<g id="b" %s="%s">' % (p, val))
                out.append((p, a, b))
        for outer, inner in ((' %s="%s"' % (p, v), ''), ('', ' %s="%s"' % (p, v)), ('', '')):
            a = '<svg %s width="100" height="100"><g id="a"%s><g id="b"%s>%s</g></g></svg>' % (NS, outer, inner, shape % '')
            b = '<svg %s width="100" height="100"><g id="a"%s><g id="b"%s>%s</g></g></svg>' % (
                NS, outer, inner, shape % ('%s="inherit"' % p))
            # expected: `inherit` == the parent's value (non-inherited) / the nearest ancestor's (inherited); written out
            if p in SPEC_NONINHERITED:
                exp = (' %s="%s"' % (p, v)) if inner else ((' %s="%s"' % (p, SPEC_INITIAL[p])) if p in SPEC_INITIAL else '')
            else:
                exp = (' %s="%s"' % (p, v)) if (inner or outer) else ((' %s="%s"' % (p, SPEC_INITIAL[p])) if p in SPEC_INITIAL else '')
            c = '<svg %s width="100" height="100"><g id="a"%s><g id="b"%s>%s</g></g></svg>' % (NS, outer, inner, shape % exp.strip())
            out.append((p, c, b))
    return out


def run(ctx):
    quick = ctx.tier == 'quick'
    ctx.cov['trusted_base'] = vlib.BASE_TRUSTED + [
        "CSS tokenisation and selector PARSING (simplecss), XML (roxmltree), value grammars (svgtypes): unmodelled; selector "
        "MATCHING, specificity and the rule order are Model/CascadeSel.v (transcribed from simplecss 0.2.1 + usvg's Element impl, "
        "anchored by gen_svgtree) and tied by the `selector` correspondence; the `cascade` correspondence still uses the "
        "generator's own matcher for type/id/class selectors",
        "read sites: the value type of a read is inferred syntactically by tools/gen_readsites.py (turbofish, let annotation, "
        "fallback value, literal comparison, helper bodies); an undeterminable site is a broken tie; spec_classes (notation set "
        "per property) is hand-transcribed",
        "Model/Cascade.v control flow (copy loop, insert_attribute, resolve_inherit, find_attribute) is hand-written: tied by the "
        "`cascade` / `find-attr` correspondences; all tables and the has_precedence expression are source-derived",
        "spec_noninherited / spec_initial (SVG 1.1 property index) are hand-transcribed",
        "Tree::to_string as the observation of the tree",
    ]
    ctx.assumptions = ["the `font` shorthand is not modelled (never generated)",
                       "equal trees = equal Tree::to_string token-wise, numbers within 1e-4 relative",
                       "known class: inherit-relative-value (refuted in Coq, guarded theorem proved); inherit-copies-important was fixed "
                       "by 7ac03db and its scenarios are must-pass regressions"]
    broken = [b for b in ctx.translate() if b['name'] in MY_TIES or b['kind'] in ('translator',)]
    for b in broken:
        ctx.log("broken tie relevant to C09: %s" % b)
    res = ctx.coq_props(extra_targets=['Model/Corr.v'])
    proof_ok = res['ok'] and not broken
    if not quick and res['ok'] and hasattr(ctx, 'coqchk'):
        if not ctx.coqchk():
            ctx.violation("coqchk rejects the compiled C09 development or reports an unexpected axiom",
                          dict(coqchk=ctx.cov.get('coqchk')), found_input=False)
    binp, blog = ctx.harness('release')
    if binp is None:
        ctx.violation("harness does not build against the current tree (correspondence cannot run)",
                      dict(build_log=blog[-2000:]), found_input=False)
        return
    try:
        T = Tables()
    except (gen_svgtree.Missing, OSError, KeyError) as e:
        ctx.violation("C09 tables cannot be read from the source (%s): the tie is broken and the correspondence cannot run" % e,
                      dict(error=str(e)), found_input=False)
        return

    model_ok = True
    if res['ok'] or 'Model/Cascade.v' not in res['failed']:
        model_ok = run_cascade(ctx, binp, T, 400 if quick else 2500)
        model_ok = run_find_attr(ctx, binp, T, 250 if quick else 1500) and model_ok
        model_ok = run_selector(ctx, binp, T, 300 if quick else 2000) and model_ok
    run_font_weight(ctx, binp, T, 120 if quick else 800)
    nviol_before = len(ctx.violations)
    if quick and proof_ok:
        run_spelling(ctx, binp, T, 70, 8)
    else:
        run_spelling(ctx, binp, T, 600 if proof_ok else 150, 15)

    if not model_ok and not ctx.violations:
        ctx.violation("the cascade / find-attr correspondence could not be evaluated (model does not compile or the harness "
                      "output is unusable): the hand model is no longer tied to the implementation",
                      dict(failed_files=res['failed'], log_tail=res['log'][-2000:]), found_input=False)
    if not proof_ok:
        found = bool(ctx.violations)
        bad_sites = site_search(ctx, T)
        for b in bad_sites:
            ctx.log("read site fails C09_read_sites_notation / C09_read_sites_uniform / C09_opacity_family_reader: %s" % b)
        if bad_sites:
            ctx.cov['bad_read_sites'] = bad_sites
        for b in bad_sites[:4]:
            # the notation sweep wrote this property at the element kinds of the site in every notation: name the site
            # next to the concrete pair it exhibited
            keys = ["%s@%s " % (b['attribute'], k) for k in b['element_kinds']] or [b['attribute'] + '@']
            keys.append("inherit-triple-ancestor-1:%s," % b['attribute'])
            keys.append("inherit-triple-ancestor-2:%s," % b['attribute'])
            keys.append("inherit-triple-ancestor-3:%s," % b['attribute'])
            wit = [v for v in ctx.violations if any(k in v[0] for k in keys)]
            text = ("read site %s::%s reads `%s` as `%s` (%s, lookup: %s): C09_read_sites_notation / C09_read_sites_uniform / "
                    "C09_opacity_family_reader / C09_inherited_read_through_ancestors / C09_noninherited_read_from_element / C09_length_sites_converted no longer "
                    "hold for the source-derived site table"
                    % (b['file'], b['function'], b['attribute'], b['reader'], b['method'], b['lookup']))
            if wit:
                try:
                    w = json.load(open(wit[0][1]))
                    ctx.violation(text + "; failing input: " + wit[0][0][:300], dict(site=b, witness=w.get('replay')))
                    found = True
                    continue
                except (OSError, ValueError):
                    pass
            ctx.violation(text, dict(site=b, failed=res['failed']), found_input=False)
            found = True
        names = model_search(ctx, T)
        if names:
            ctx.log("table theorems fail for: %s" % names)
            prs = table_witness_pairs(names)
            items = []
            for p, c, b in prs:
                items += ["-\t" + c, "-\t" + b]
            outs = ctx.rvh_batch(binp, 'tostring', items)
            for k, (p, c, b) in enumerate(prs):
                try:
                    ja, jb = json.loads(outs[2 * k]), json.loads(outs[2 * k + 1])
                except (TypeError, ValueError):
                    continue
                if 's' in ja and 's' in jb:
                    eq, why, _ = compare_strings(ja['s'], jb['s'])
                    if not eq:
                        ctx.violation("the class / default / style-only table entry of `%s` contradicts the property table the theorems are "
                                      "stated against; the witness documents (inherit vs the value written out, or an attribute "
                                      "spelling that must be ignored) differ: %s" % (p, why),
                                      dict(op='tostring', canonical=c, variant=b, property=p, failed=res['failed'], ties=broken))
                        found = True
                        break
        if not found:
            ctx.violation("C09 proof obligations no longer check: %s %s" % (res['failed'] + res['audit'], [b['name'] for b in broken]),
                          dict(failed_files=res['failed'], audit=res['audit'], broken_ties=broken, table_theorem_fails_for=names,
                               bad_read_sites=bad_sites, log_tail=res['log'][-3000:]), found_input=False)
    ctx.cov['rule'] = (
        "cascade: random documents of 3-9 elements (22 element kinds, text/tspan, one use expansion; two thirds with a pile of 3-5 "
        "declarations of one property on one element from attribute / 1-4 CSS rules of differing specificity, sheet and order / style, "
        "all !important patterns) with random attributes "
        "(presentation, non-presentation, unknown, foreign namespace), style attributes and 0-3 style sheets + injected sheet with "
        "universal/type/id/class/compound/descendant/child selectors, `inherit` and !important; non-trivial = some CSS or style "
        "declaration applies.  find-attr: svg>g>g>path chains with 3 enumerated properties from attribute/CSS/style/inherit.  "
        "font-weight: chains svg > g* > text (fonts loaded, text preserved) of absent / absolute / bolder / lighter weights in attribute, style or "
        "CSS spelling: span weight vs Gen.FontWeight.fw_resolve, and the same chain with normal<->400 / bold<->700 re-spelled anywhere (half of the "
        "chains have such a weight above a relative keyword), compared preserved and flattened.  "
        "selector: the style element sits at a random position among the children of the root / a g / defs (it is a previous sibling).  "
        "selector: random trees of 4-10 elements with id / class (multi-word) / foo / data-k / lang attributes and 2-8 rules whose "
        "selectors are drawn from the whole supported grammar (1-3 components, descendant / child / adjacent combinators, type or "
        "universal, up to 3 of #id .class [a] [a=v] [a~=v] [a|=v] :first-child :hover :link :lang()), half derived from an element of "
        "the tree, groups, injected sheet, !important; matching, specificity sort and cascade done by the model.  "
        "spelling: the notation sweep writes every property at every element kind of the template that reads it (hand table completed "
        "from the source-derived read-site table: flood-* on feFlood and feDropShadow, lighting-color on both lighting primitives, "
        "image-rendering on image and feImage, ...) in every notation (percentage, number forms, colour forms, units at dpi 72/96/300).  "
        "spelling: random base documents over all presentation properties (template with gradient, clipPath, mask, two filters, "
        "marker, shapes, content-less shapes with group-forming properties, text, image) x {move to attribute/style/CSS by id/class/type, !important, universal and type-wide rules, "
        "injected sheet, shadowed lower-precedence declarations, piles of 3-5 declarations around an (important) winner, explicit inherit (parent / ancestor / default), explicit default, "
        "equivalent units at dpi 72/96/300, colour (incl. alpha: rgba(), #rrggbbaa, #rgba, hsla(), transparent) and number notation, attribute order; explicit opacity defaults next to alpha colours} singly and in random compositions of 2-6; "
        "plus, for every inherited property alone on a g>g>g>leaf chain: value on the element vs `inherit` + value on the parent vs value only on an ancestor 1-3 levels up; distinct by document text.")


def replay(ctx, path):
    r = json.load(open(path))
    rp = r.get('replay', {})
    print("what: %s" % r.get('what'))
    binp, _ = ctx.harness('release')
    if binp is None:
        print("harness does not build")
        return 1
    if rp.get('op') == 'tostring' and 'canonical' in rp:
        opts = rp.get('opts') or ("dpi=%s" % rp.get('dpi', 96))
        inj = rp.get('injected_css')
        outs = ctx.rvh_batch(binp, 'tostring', ["%s\t%s" % (opts, rp['canonical']),
                                                "%s%s\t%s" % (opts, (';css=' + hexs(inj)) if inj else '', rp['variant'])])
        ja, jb = json.loads(outs[0]), json.loads(outs[1])
        print("canonical document:\n%s\n" % rp['canonical'])
        print("variant document (rewrites %s; injected css %r):\n%s\n" % (rp.get('rewrites'), inj, rp['variant']))
        print("to_string(canonical):\n%s\n" % ja.get('s', ja))
        print("to_string(variant):\n%s\n" % jb.get('s', jb))
        if 's' in ja and 's' in jb:
            eq, why, _ = compare_strings(ja['s'], jb['s'])
            print("equal" if eq else "DIFFERENT: " + why)
            return 0 if eq else 1
        return 1
    if rp.get('op') == 'svgtree':
        inj = rp.get('injected_css')
        outs = ctx.rvh_batch(binp, 'svgtree', ["%s\t%s" % (('css=' + hexs(inj)) if inj else '-', rp['doc'])])
        print("document:\n%s\ninjected css: %r\n" % (rp['doc'], inj))
        print("svgtree now:\n%s" % json.loads(outs[0]).get('dump', outs[0]))
        print("model input (Model.Cascade.build_doc): %s" % rp.get('model_items'))
        return 1
    if rp.get('op') == 'dump':
        outs = ctx.rvh_batch(binp, 'dump', ["-\t" + rp['doc']])
        print("document:\n%s\n" % rp['doc'])
        print(outs[0][:3000])
        print("model case: %s" % rp.get('model_case'))
        return 1
    print(json.dumps(r, indent=1))
    return 1
