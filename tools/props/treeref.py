"""Helpers shared by the C05 / C07 / C08 checks: conversion of a harness `dump` (harness/src/dump.rs) into a
Coq term of Model/Tree.v's `tree`, and an independent field-by-field walk of the dump in Python."""
import re

FE_KINDS = ['Blend', 'ColorMatrix', 'ComponentTransfer', 'Composite', 'ConvolveMatrix', 'DiffuseLighting',
            'DisplacementMap', 'DropShadow', 'Flood', 'GaussianBlur', 'Image', 'Merge', 'Morphology', 'Offset',
            'SpecularLighting', 'Tile', 'Turbulence']
FE_TAGS = {'Blend': 'feBlend', 'ColorMatrix': 'feColorMatrix', 'ComponentTransfer': 'feComponentTransfer',
           'Composite': 'feComposite', 'ConvolveMatrix': 'feConvolveMatrix', 'DiffuseLighting': 'feDiffuseLighting',
           'DisplacementMap': 'feDisplacementMap', 'DropShadow': 'feDropShadow', 'Flood': 'feFlood',
           'GaussianBlur': 'feGaussianBlur', 'Image': 'feImage', 'Merge': 'feMerge', 'Morphology': 'feMorphology',
           'Offset': 'feOffset', 'SpecularLighting': 'feSpecularLighting', 'Tile': 'feTile',
           'Turbulence': 'feTurbulence'}


class Intern:
    """strings -> N tokens; the empty string is 0."""

    def __init__(self):
        self.m = {'': 0}
        self.back = ['']

    def __call__(self, s):
        if s not in self.m:
            self.m[s] = len(self.back)
            self.back.append(s)
        return self.m[s]


def prim_inputs(kind):
    """inputs of a primitive in the order the writer emits them (in, in2 / feMergeNode in)."""
    k = kind['k']
    if k in ('Blend', 'Composite', 'DisplacementMap'):
        return [kind['in1'], kind['in2']]
    if k == 'Merge':
        return list(kind['inputs'])
    if 'in' in kind:
        return [kind['in']]
    return []


class CoqTree:
    """Builds the Coq term; ptrs and strings are interned per document."""

    def __init__(self, strings=None):
        self.s = strings or Intern()
        self.p = {}

    def ptr(self, v):
        if v not in self.p:
            self.p[v] = len(self.p) + 1
        return self.p[v]

    def inp(self, i):
        if i == 'SourceGraphic':
            return 'ISourceGraphic'
        if i == 'SourceAlpha':
            return 'ISourceAlpha'
        return '(IRef %d)' % self.s(i['ref'])

    def paint(self, fs):
        if fs is None:
            return 'PNone'
        p = fs['paint']
        k = p['k']
        if k == 'color':
            return 'PColor'
        if k == 'lg':
            return '(PLin %d %d)' % (self.ptr(p['ptr']), self.s(p['def']['id']))
        if k == 'rg':
            return '(PRad %d %d)' % (self.ptr(p['ptr']), self.s(p['def']['id']))
        return '(PPat %d %d %s)' % (self.ptr(p['ptr']), self.s(p['def']['id']), self.group(p['def']['root']))

    def coll_paint(self, d, k):
        if k == 'lg':
            return '(PLin %d %d)' % (self.ptr(d['ptr']), self.s(d['id']))
        if k == 'rg':
            return '(PRad %d %d)' % (self.ptr(d['ptr']), self.s(d['id']))
        return '(PPat %d %d %s)' % (self.ptr(d['ptr']), self.s(d['id']), self.group(d['root']))

    def clip(self, c):
        if c is None:
            return 'None'
        return '(Some %s)' % self.clipd(c)

    def clipd(self, c):
        return '(CD %d %d %s %s)' % (self.ptr(c['ptr']), self.s(c['id']), self.clip(c['clip']), self.group(c['root']))

    def mask(self, m):
        if m is None:
            return 'None'
        return '(Some %s)' % self.maskd(m)

    def maskd(self, m):
        return '(MD %d %d %s %s)' % (self.ptr(m['ptr']), self.s(m['id']), self.mask(m['mask']), self.group(m['root']))

    def filt(self, f):
        ps = []
        for p in f['primitives']:
            k = p['kind']
            img = '(Some %s)' % self.group(k['root']) if k['k'] == 'Image' else 'None'
            sub = sum(bit for bit, a, b in zip((1, 2, 4, 8), p['rect'], f['rect']) if a != b)
            ps.append('(PR %d %d %d [%s] %s)' % (FE_KINDS.index(k['k']) + 1, sub, self.s(p['result']),
                                              '; '.join(self.inp(i) for i in prim_inputs(k)), img))
        return '(FD %d %d [%s])' % (self.ptr(f['ptr']), self.s(f['id']), '; '.join(ps))

    def group(self, g):
        styled = 'true' if (g.get('blend', 'Normal') != 'Normal' or g.get('isolate')) else 'false'
        return '(G %d %s %s %s [%s] [%s])' % (self.s(g['id']), styled, self.clip(g['clip']), self.mask(g['mask']),
                                           '; '.join(self.filt(f) for f in g['filters']),
                                           '; '.join(self.node(n) for n in g['children']))

    def node(self, n):
        t = n['t']
        if t == 'g':
            return '(NGroup %s)' % self.group(n)
        if t == 'path':
            return '(NPath %d %s %s %s)' % (self.s(n['id']), 'true' if n.get('visible', True) else 'false',
                                            self.paint(n['fill']), self.paint(n['stroke']))
        if t == 'image':
            sub = '(Some %s)' % self.group(n['svg']['root']) if n.get('svg') else 'None'
            return '(NImage %d %s)' % (self.s(n['id']), sub)
        chunks = []
        for c in n['chunks']:
            fl = c['flow']
            tp = 'None' if fl == 'Linear' else '(Some (%d, %d))' % (self.ptr(fl['path_ptr']), self.s(fl['id']))
            pps = []
            for sp in c['spans']:
                for key in ('underline', 'line_through', 'overline'):
                    d = sp['decoration'].get(key)
                    if d is not None:
                        pps.append('PP %s %s' % (self.paint(d['fill']), self.paint(d['stroke'])))
                pps.append('PP %s %s' % (self.paint(sp['fill']), self.paint(sp['stroke'])))
            chunks.append('(CH %s [%s])' % (tp, '; '.join(pps)))
        return '(NText %d %s [%s])' % (self.s(n['id']), self.group(n['flattened']), '; '.join(chunks))

    def tree(self, d):
        return ('(T %s [%s] [%s] [%s] [%s] [%s] [%s])' % (
            self.group(d['root']),
            '; '.join(self.coll_paint(x, 'lg') for x in d['linear_gradients']),
            '; '.join(self.coll_paint(x, 'rg') for x in d['radial_gradients']),
            '; '.join(self.coll_paint(x, 'pat') for x in d['patterns']),
            '; '.join(self.clipd(x) for x in d['clip_paths']),
            '; '.join(self.maskd(x) for x in d['masks']),
            '; '.join(self.filt(x) for x in d['filters'])))


# ------------------------------------------------------------------------------------------------
# independent walk (Python): every node and every definition object a dump holds, field by field.
# ------------------------------------------------------------------------------------------------
class Walk:
    """Collects, for one dumped tree: every node (with the context it was found in) and every definition
    use (kind, ptr, id, where).  Contexts: 'root' = reachable from the root through children only,
    otherwise the chain of sub-root kinds that leads to the node."""

    def __init__(self, d, include_nested=True):
        self.nodes = []          # (node, ctx)
        self.defs = []           # (kind, ptr, id, ctx, via)   via in {'group','path','span','chain','textpath'}
        self.include_nested = include_nested
        self.group_kids(d['root'], ('root',))

    def group_kids(self, g, ctx):
        for n in g['children']:
            self.node(n, ctx)

    def paint(self, fs, ctx, via):
        if fs is None:
            return
        p = fs['paint']
        if p['k'] == 'color':
            return
        self.defs.append((p['k'], p['ptr'], p['def']['id'], ctx, via))
        if p['k'] == 'pattern' and via == 'path':
            self.group_kids(p['def']['root'], ctx + ('pattern',))

    def node(self, n, ctx):
        self.nodes.append((n, ctx))
        t = n['t']
        if t == 'g':
            c = n['clip']
            first = True
            while c is not None:
                self.defs.append(('clip', c['ptr'], c['id'], ctx, 'group' if first else 'chain'))
                self.group_kids(c['root'], ctx + ('clip',))
                c = c['clip']
                first = False
            m = n['mask']
            first = True
            while m is not None:
                self.defs.append(('mask', m['ptr'], m['id'], ctx, 'group' if first else 'chain'))
                self.group_kids(m['root'], ctx + ('mask',))
                m = m['mask']
                first = False
            for f in n['filters']:
                self.defs.append(('filter', f['ptr'], f['id'], ctx, 'group'))
                for p in f['primitives']:
                    if p['kind']['k'] == 'Image':
                        self.group_kids(p['kind']['root'], ctx + ('feimage',))
            self.group_kids(n, ctx)
        elif t == 'path':
            self.paint(n['fill'], ctx, 'path')
            self.paint(n['stroke'], ctx, 'path')
        elif t == 'image':
            if n.get('svg') and self.include_nested:
                self.group_kids(n['svg']['root'], ctx + ('image',))
        elif t == 'text':
            for c in n['chunks']:
                fl = c['flow']
                if fl != 'Linear':
                    self.defs.append(('textpath', fl['path_ptr'], fl['id'], ctx, 'textpath'))
                for sp in c['spans']:
                    for key in ('underline', 'line_through', 'overline'):
                        dd = sp['decoration'].get(key)
                        if dd is not None:
                            self.paint(dd['fill'], ctx, 'span')
                            self.paint(dd['stroke'], ctx, 'span')
                    self.paint(sp['fill'], ctx, 'span')
                    self.paint(sp['stroke'], ctx, 'span')
            self.group_kids(n['flattened'], ctx + ('text',))


def is_gen_result(name):
    m = re.fullmatch(r"result(0|[1-9][0-9]*)", name)
    return int(m.group(1)) if m else None
