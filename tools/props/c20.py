"""C20  The command-line tool is a faithful, fail-safe wrapper of the library.   (label: PARTIAL)

Proof: Coq theorems over the SOURCE-DERIVED FitTo::fit_to_size / fit_to_transform / -w -h -z decision /
parse_* ranges / fit_to_rect / order of the steps of `process` (Gen/C20Cli.v from crates/resvg/src/main.rs),
with the tiny-skia-path IntSize arithmetic hand-modelled (Model/CliPrims.v).
Correspondence: `c20-fit` (real IntSize methods vs the hand model), `cli-dims` (the REAL binaries built from
the current tree: exit status / output presence / PNG IHDR dimensions vs the model's `process`, compared inside Coq).
System oracle e2e-C20 (independent of the model): exit status in {0,1}, stderr on failure, no output on failure,
dimension rules recomputed with exact fractions, PNG bytes == library rendering with the same options,
usvg output == Tree::to_string.

Numeric domain: f32 arithmetic of IntSize is modelled over Q; it is exact in the implementation when the
products stay below 2^24 and zoom factors are dyadic - the generated cases stay inside that domain.
Outside any model: pico-args, the file system, PNG encoder, partial writes, allocation failure for huge targets.
"""
import json
import os
import re
import shutil
import struct
import subprocess
import zlib
from fractions import Fraction

import vlib
from vlib import qstr

NS = 'xmlns="http://www.w3.org/2000/svg" xmlns:xlink="http://www.w3.org/1999/xlink"'
PNG_SIG = b'\x89PNG\r\n\x1a\n'
PNG_END = b'\x00\x00\x00\x00IEND\xaeB`\x82'
# a pre-existing output file, longer than anything the generated cases write (corpus outputs are checked by their IEND trailer)
JUNK = (b'stale bytes of a previous output file\n' * 20000)
COQ_IMPORTS = ['Model.Base', 'Model.GeomPrims', 'Model.CliPrims', 'Gen.C20Cli', 'Model.Cli', 'Model.Corr']
MAX_PIXMAP_W = 536870911
I32_MAX = 2147483647


def fonts_args():
    fd = os.path.join(vlib.REPO, 'crates/resvg/tests/fonts')
    return ['--skip-system-fonts', '--use-fonts-dir', fd, '--serif-family', 'Noto Serif', '--sans-serif-family', 'Noto Sans',
            '--cursive-family', 'Yellowtail', '--fantasy-family', 'Sedgwick Ave Display', '--monospace-family', 'Noto Mono']


def build_cli(ctx):
    """Build the real resvg / usvg binaries from the current tree (hooks OFF) into harness/target/cli."""
    target = os.path.join(vlib.HARNESS, 'target', 'cli')
    with vlib.Lock('cargo-cli'):
        rc, out = vlib.run(['cargo', 'build', '--release', '--offline', '--locked', '-p', 'resvg', '-p', 'usvg', '--bins'],
                           cwd=vlib.REPO, timeout=1500, env={'CARGO_TARGET_DIR': target, 'RUSTFLAGS': '-Awarnings'})
    rb = os.path.join(target, 'release', 'resvg')
    ub = os.path.join(target, 'release', 'usvg')
    if rc != 0 or not (os.path.exists(rb) and os.path.exists(ub)):
        return None, None, out
    return rb, ub, out


def png_dims(data):
    if len(data) >= 24 and data[:8] == PNG_SIG and data[12:16] == b'IHDR':
        return struct.unpack('>II', data[16:24])
    return None


def round_haz(fr):
    """f32::round on a non-negative exact value: half away from zero"""
    return int(fr + Fraction(1, 2)) if fr >= 0 else -int(-fr + Fraction(1, 2))


def ceil_fr(fr):
    return -((-fr.numerator) // fr.denominator)


def int_size(w, h):
    return max(1, round_haz(Fraction(w))), max(1, round_haz(Fraction(h)))


# ------------------------------------------------------------------------------------------------
# cases
# ------------------------------------------------------------------------------------------------
class Case:
    def __init__(self, doc, **kw):
        self.doc = doc              # bytes of the input, or None (missing file)
        self.w = kw.get('w')        # raw strings as given on the command line
        self.h = kw.get('h')
        self.z = kw.get('z')
        self.dpi = kw.get('dpi')
        self.bg = kw.get('bg')      # (argument string, (r,g,b,a))
        self.export_id = kw.get('export_id')
        self.area_page = kw.get('area_page', False)
        self.area_drawing = kw.get('area_drawing', False)
        self.query_all = kw.get('query_all', False)
        self.extra = kw.get('extra', [])          # other options (shape-rendering ...), list of strings
        self.lib_opts = kw.get('lib_opts', '')    # the same options in harness syntax
        self.stdin = kw.get('stdin', False)
        self.stdout = kw.get('stdout', False)
        self.no_output_arg = kw.get('no_output_arg', False)
        self.bad_out_dir = kw.get('bad_out_dir', False)
        self.syntax_ok = kw.get('syntax_ok', True)
        self.kind = kw.get('kind', 'gen')
        self.corpus_path = kw.get('corpus_path')
        self.stdout_full = kw.get('stdout_full', False)
        self.text = kw.get('text', False)
        self.res_dir = kw.get('res_dir')            # explicit --resources-dir (file or stdin input)
        self.stdin_no_res = kw.get('stdin_no_res', False)   # stdin without --resources-dir
        self.prefill = kw.get('prefill', False)   # the output path already holds a LONGER junk file
        self.expect = kw.get('expect')      # documented exit status (HELP text ranges), independent of the model

    # numeric views (None if absent / not a number the model knows)
    def num(self, s):
        try:
            return int(s)
        except (TypeError, ValueError):
            return None

    def zq(self):
        if self.z is None:
            return None
        try:
            f = struct.unpack('f', struct.pack('f', float(self.z)))[0]
            if f != f or f in (float('inf'), float('-inf')):
                return None
            return Fraction(f)
        except (ValueError, OverflowError, struct.error):
            return None

    def default_size(self):
        w, h = self.num(self.w), self.num(self.h)
        if w is not None and h is not None:
            return (w, h)
        if w is not None:
            return (w, 100)
        if h is not None:
            return (100, h)
        return (100, 100)

    def fit_spec(self):
        w, h = self.num(self.w), self.num(self.h)
        if self.w is not None and self.h is not None:
            return "wh:%s:%s" % (w, h)
        if self.w is not None:
            return "w:%s" % w
        if self.h is not None:
            return "h:%s" % h
        if self.z is not None:
            return "z:%s" % self.z
        return "o"


def small_doc(rng, text=False):
    """-> (svg text, description)"""
    r = rng.below(10)
    wv = rng.choice([20, 40, 64, 100, 33, 7, 150, 20.5, 10.4, 99.5, 1])
    hv = rng.choice([10, 40, 64, 100, 25, 9, 80, 30.5, 1, 100])
    if r < 6:
        size = ' width="%s" height="%s"' % (wv, hv)
    elif r == 6:
        size = ' width="%smm" height="%spt"' % (rng.choice([10, 20]), rng.choice([30, 72]))     # dpi dependent
    elif r == 7:
        size = ' viewBox="0 0 %s %s"' % (int(wv) + 1, int(hv) + 1)                               # size from the viewBox
    elif r == 8:
        size = ''                                                                               # size from default_size / content
    else:
        size = ' width="50%" height="100%"'
    off = rng.choice([0, 0, 0, 1])        # content off-canvas sometimes
    x0 = 500 if off else rng.choice([0, 2, 5, 12])
    y0 = 500 if off else rng.choice([0, 2, 3, 8])
    body = ('<rect id="r" x="%d" y="%d" width="%d" height="%d" fill="#c02040"/>' % (x0, y0, rng.choice([5, 10, 16, 3]), rng.choice([5, 8, 4, 11]))
            + '<g id="g"><circle cx="%d" cy="%d" r="%d" fill="blue" fill-opacity="0.5"/></g>' % (rng.choice([8, 15, 30]), rng.choice([6, 12, 20]), rng.choice([3, 5, 9]))
            + '<path id="z0" d="M 2 3 L 9 3" fill="red"/>')
    if text:
        body += '<text id="t" x="2" y="%d" font-family="%s" font-size="%d">Ag</text>' % (rng.choice([9, 14, 20]), rng.choice(['Noto Sans', 'serif', 'Noto Mono']), rng.choice([8, 12]))
    return '<svg %s%s>%s</svg>' % (NS, size, body)


MALFORMED = [
    (b'', 'empty'),
    (b'not xml at all', 'text'),
    (b'<svg xmlns="http://www.w3.org/2000/svg" width="10" height="10"><rect', 'truncated'),
    (b'<html><body/></html>', 'non-svg root'),
    (b'<svg xmlns="http://www.w3.org/2000/svg" width="10" height="10">\xff\xfe</svg>', 'bad utf-8'),
    (b'\x1f\x8b\x08\x00garbage-not-gzip', 'bad gzip'),
    (b'<svg xmlns="http://www.w3.org/2000/svg" width="0" height="10"/>', 'zero size'),
    (b'<svg xmlns="http://www.w3.org/2000/svg" width="-5" height="10"><rect width="3" height="3"/></svg>', 'negative size'),
    (b'\x00\x01\x02\x03' * 30, 'binary'),
]


def tiny_inputs():
    """empty, 1- to 4-byte inputs incl. gzip magic prefixes, and a valid svgz truncated at every length up to 24 bytes (+ a few longer)"""
    import gzip
    full = gzip.compress(('<svg %s width="20" height="10"><rect width="5" height="5"/></svg>' % NS).encode(), mtime=0)
    out = [(b'', 'empty'), (b'\x1f', '1f'), (b'\x1f\x8b', 'gzip magic only'), (b'\x1f\x8b\x08', 'magic+cm'), (b'\x1f\x8b\x08\x00', 'magic+cm+flg'),
           (b'\x1f\x8b\x07', 'magic+bad cm'), (b'\x1f\x8b\x08\x08', 'magic+cm+fname flag'), (b'\x8b\x1f', 'swapped magic'),
           (b'\x00', 'nul'), (b'<', '<'), (b'<s', '<s'), (b'<sv', '<sv'), (b'<svg', '<svg'), (b'\xef\xbb\xbf', 'BOM only'), (b'\xff', 'ff')]
    for n in list(range(1, 25)) + [len(full) // 2, len(full) - 9, len(full) - 1]:
        if 0 < n < len(full):
            out.append((full[:n], 'svgz truncated at %d' % n))
    return out


def disguised_text_docs():
    """documents WITH text whose raw bytes do not contain the literal `<text`: namespace-prefixed elements (prefix bound to the SVG
    namespace) and gzip-compressed input; also with an image and a filter.  -> list of (bytes, description)"""
    import gzip
    png = ('iVBORw0KGgoAAAANSUhEUgAAAAIAAAACCAYAAABytg0kAAAAFklEQVR4nGP8z8Dwn4GBgYGJAQoYGBgAJAICAbkcg/oAAAAASUVORK5CYII=')
    ns = ('<s:svg xmlns:s="http://www.w3.org/2000/svg" xmlns:xlink="http://www.w3.org/1999/xlink" width="120" height="60">'
          '<s:defs><s:filter id="f"><s:feGaussianBlur stdDeviation="1"/></s:filter></s:defs>'
          '<s:rect id="r" x="2" y="2" width="30" height="20" fill="#c02040" filter="url(#f)"/>'
          '<s:image x="40" y="4" width="8" height="8" xlink:href="data:image/png;base64,%s"/>'
          '<s:text id="t" x="6" y="48" font-family="Noto Sans" font-size="18">Ag <s:tspan font-family="Noto Mono">q1</s:tspan></s:text></s:svg>' % png)
    plain = ('<svg %s width="120" height="60"><rect id="r" x="2" y="2" width="30" height="20" fill="#2040c0"/>'
             '<text id="t" x="6" y="48" font-family="Noto Serif" font-size="20">Text gj</text></svg>' % NS)
    ent = ('<!DOCTYPE svg [<!ENTITY T "text">]><svg %s width="120" height="60"><rect width="10" height="10"/>'
           '<&T; x="6" y="48" font-family="Noto Sans" font-size="18">entity</&T;></svg>' % NS)     # not well-formed XML: must fail cleanly
    out = [(ns.encode(), 'prefixed namespace'), (gzip.compress(plain.encode(), mtime=0), 'svgz'),
           (gzip.compress(ns.encode(), mtime=0), 'svgz + prefixed namespace'), (ent.encode(), 'entity in tag name (malformed)')]
    for d, _ in out[:3]:
        assert b'<text' not in d
    return out


def tiny_png(w, h, rgba):
    def chunk(t, d):
        return struct.pack('>I', len(d)) + t + d + struct.pack('>I', zlib.crc32(t + d) & 0xffffffff)
    raw = b''.join(b'\x00' + bytes(rgba) * w for _ in range(h))
    return PNG_SIG + chunk(b'IHDR', struct.pack('>IIBBBBB', w, h, 8, 6, 0, 0, 0)) + chunk(b'IDAT', zlib.compress(raw)) + chunk(b'IEND', b'')


def resource_dirs(wd):
    """two directories holding a DIFFERENT picture under the same relative name, and a document in the first one that refers to it
    by a relative href.  -> (document path, dirA = the input's directory, dirB)"""
    da, db = os.path.join(wd, 'resA'), os.path.join(wd, 'resB')
    for d, col in ((da, (220, 30, 30, 255)), (db, (30, 60, 220, 255))):
        os.makedirs(os.path.join(d, 'img'), exist_ok=True)
        with open(os.path.join(d, 'img', 'pic.png'), 'wb') as f:
            f.write(tiny_png(6, 4, col))
    doc = os.path.join(da, 'in.svg')
    with open(doc, 'w') as f:
        f.write('<svg %s width="30" height="20"><rect width="30" height="20" fill="#dddddd"/>'
                '<image id="i" x="3" y="2" width="24" height="16" xlink:href="img/pic.png"/></svg>' % NS)
    return doc, da, db


def resource_cases(wd):
    """Options::resources_dir as the tool must set it: explicit --resources-dir wins, else the input file's directory, else none."""
    doc, da, db = resource_dirs(wd)
    out = []
    for kw in (dict(), dict(res_dir=db), dict(res_dir=da), dict(stdin=True, res_dir=db), dict(stdin=True, res_dir=da),
               dict(stdin=True, stdin_no_res=True), dict(res_dir=db, z='2'), dict(res_dir=db, export_id='i'),
               dict(res_dir=db, stdout=True), dict(res_dir=os.path.join(wd, 'no-such-dir'))):
        out.append(Case(None, kind='resources-dir', corpus_path=doc, expect=0, **kw))
    return out


def gen_cases(rng, quick):
    cases = []
    n = 150 if quick else 1200
    for i in range(n):
        text = rng.below(8) == 0
        doc = small_doc(rng, text).encode()
        kw = dict(text=text)
        f = rng.below(12)
        W = rng.choice([1, 2, 7, 33, 64, 100, 250, 640, 1000])
        H = rng.choice([1, 3, 9, 50, 64, 101, 300, 480])
        Z = rng.choice(['2', '0.5', '1.5', '3', '0.25', '4', '0.001', '1', '0.125', '2.5'])
        if f in (0, 1):
            kw['w'] = str(W)
        elif f in (2, 3):
            kw['h'] = str(H)
        elif f in (4, 5):
            kw['w'], kw['h'] = str(W), str(H)
        elif f in (6, 7):
            kw['z'] = Z
        elif f == 8:
            kw['w'], kw['z'] = str(W), Z          # -z is ignored when -w is given
        # 9..11: no fit option
        if rng.below(6) == 0:
            kw['dpi'] = rng.choice(['72', '300', '10', '4000', '96'])
        if rng.below(4) == 0:
            kw['bg'] = rng.choice([('red', (255, 0, 0, 255)), ('#10a0f0', (16, 160, 240, 255)), ('#10203080', (16, 32, 48, 128)),
                                   ('white', (255, 255, 255, 255))])
        m = rng.below(10)
        if m in (0, 1):
            kw['export_id'] = rng.choice(['r', 'g', 'r', 'nope', 'z0', 't'])
            if rng.below(3) == 0:
                kw['area_page'] = True
        elif m == 2:
            kw['area_drawing'] = True
        elif m == 3 and rng.below(2) == 0:
            kw['query_all'] = True
        elif m == 4 and rng.below(3) == 0:
            kw['area_page'] = True     # without --export-id: warning only
        if rng.below(7) == 0:
            sr = rng.choice(['optimizeSpeed', 'crispEdges', 'geometricPrecision'])
            kw['extra'] = ['--shape-rendering', sr]
            kw['lib_opts'] = 'sr=%s' % sr
        io = rng.below(10)
        if io == 0:
            kw['stdin'] = True
        elif io == 1:
            kw['stdout'] = True
        elif io == 2:
            kw['stdin'] = kw['stdout'] = True
        if rng.below(3) == 0:
            kw['prefill'] = True
        cases.append(Case(doc, **kw))
    # argument validation and syntax errors
    d0 = ('<svg %s width="20" height="10"><rect id="r" x="2" y="2" width="5" height="5" fill="red"/>'
          '<path id="z0" d="M 2 3 L 9 3" fill="red"/></svg>' % NS).encode()
    for kw in [dict(w='0', syntax_ok=True, expect=1), dict(h='0', expect=1), dict(z='0', expect=1), dict(z='-1', syntax_ok=True, expect=1),
               dict(dpi='9', expect=1), dict(dpi='4001', expect=1), dict(dpi='10', expect=0), dict(dpi='4000', expect=0),
               dict(w='1', expect=0), dict(h='1', expect=0), dict(w='abc', syntax_ok=False, expect=1), dict(w='-5', syntax_ok=False, expect=1),
               dict(w='4294967296', syntax_ok=False), dict(w='4294967295', h='4294967295', query_all=True),
               dict(extra=['--shape-rendering', 'foo'], syntax_ok=False), dict(extra=['--background', 'nocolor'], syntax_ok=False),
               dict(extra=['--font-size', '0'], syntax_ok=False, expect=1), dict(extra=['--font-size', '193'], syntax_ok=False, expect=1),
               dict(extra=['--font-size', '192'], lib_opts='fs=192', expect=0), dict(extra=['--font-size', '1'], lib_opts='fs=1', expect=0), dict(extra=['--languages', 'en,ru'], lib_opts='lang=en,ru'),
               dict(extra=['--export-id='], syntax_ok=False), dict(no_output_arg=True, expect=1), dict(no_output_arg=True, query_all=True, expect=0),
               dict(bad_out_dir=True), dict(z='0.001'), dict(z='0.0001', export_id='r'), dict(export_id='nope'), dict(export_id='z0'),
               dict(query_all=True), dict(extra=['--quiet'], query_all=True)]:
        cases.append(Case(d0, kind='args', **kw))
    cases.append(Case(None, kind='missing-input'))
    cases.append(Case(b'<svg %s width="10" height="10"><g/></svg>' % NS.encode(), query_all=True, kind='no-ids'))
    for data, what in MALFORMED:
        for kw in (dict(), dict(stdin=True), dict(w='10'), dict(query_all=True)):
            cases.append(Case(data, kind='malformed:' + what, **kw))
    for data, what in tiny_inputs():
        cases.append(Case(data, kind='malformed:tiny', expect=1, prefill=True))
        cases.append(Case(data, kind='malformed:tiny', stdin=True, expect=1))
    for data, what in disguised_text_docs():
        bad = 'malformed' in what
        for kw in (dict(), dict(stdin=True), dict(export_id='t'), dict(z='2', stdout=True), dict(w='200', prefill=True)):
            cases.append(Case(data, kind='disguised-text:' + what, text=True, expect=(1 if bad else 0), **kw))
    # svgz
    import gzip
    cases.append(Case(gzip.compress(d0, mtime=0), kind='svgz', w='30'))
    # regression inputs of the FIXED classes (925640f, 57970e3, 71df1bd, dd6e054): must pass with the documented behaviour
    probe = b'<svg %s width="20" height="10"><rect id="r" x="2" y="2" width="5" height="5" fill="red"/></svg>' % NS.encode()
    far = b'<svg %s width="20" height="10"><rect id="r" x="2000000000" y="2" width="300000000" height="5" fill="red"/></svg>' % NS.encode()
    cases.append(Case(probe, kind='fixed:target-width-overflow', w='1000000000', expect=1))
    cases.append(Case(probe, kind='fixed:target-width-overflow', z='134217728', expect=1))          # 2^27 * 20 > i32::MAX/4
    cases.append(Case(probe, kind='fixed:target-width-overflow', z='inf', expect=1))
    cases.append(Case(probe, kind='fixed:target-width-overflow', h='1000000000', export_id='r', expect=1))
    cases.append(Case(probe, kind='fixed:target-width-overflow', z='134217728', export_id='r', area_page=True, expect=1))
    cases.append(Case(far, kind='fixed:area-drawing-box-overflow', area_drawing=True, expect=0))
    cases.append(Case(far, kind='fixed:area-drawing-box-overflow', area_drawing=True, z='0.5', expect=0))
    # (F32.svg itself needs a 6 GB node canvas with --export-id: outside the exercised memory range; F32b.svg has the same offset overflow with a 1000x5 node)
    far_small = b'<svg %s width="20" height="10"><rect id="r" x="2147483000" y="2" width="1000" height="5" fill="red"/></svg>' % NS.encode()
    cases.append(Case(far_small, kind='fixed:area-page-offset-overflow', export_id='r', area_page=True, expect=0))
    cases.append(Case(far_small, kind='fixed:area-page-offset-overflow', export_id='r', area_page=True, bg=('white', (255, 255, 255, 255)), expect=0))
    cases.append(Case(probe, kind='fixed:stdout-write-panic', stdout=True, stdout_full=True, expect=1))
    # the remaining known classes (one deliberate probe each)
    cases.append(Case(b'<svg %s width="40" height="30"><rect width="5" height="5"/></svg>' % NS.encode(),
                      kind='fixed:target-alloc-abort', z='100000', expect=1))          # 4e6 x 3e6 pixels = 48 TB (943ffd6)
    cases.append(Case(b'<svg %s width="40" height="30"><rect id="r" width="5" height="5"/></svg>' % NS.encode(),
                      kind='fixed:target-alloc-abort', w='500000000', export_id='r', expect=1))     # 5e8 x 5e8
    cases.append(Case(b'<svg %s width="1" height="100"><rect width="1" height="100" fill="red"/></svg>' % NS.encode(),
                      kind='probe:wh-box-exceeded', w='1', h='1'))
    cases.append(Case(b'<svg %s width="100" height="101"><rect width="100" height="101" fill="red"/></svg>' % NS.encode(),
                      kind='probe:wh-box-exceeded', w='100', h='100'))
    ap = b'<svg %s width="40" height="40"><rect width="5" height="5" fill="blue"/><rect id="r" x="20" y="10" width="10" height="10" fill="red"/></svg>' % NS.encode()
    cases.append(Case(ap, kind='fixed:area-page-scaled-offset', export_id='r', area_page=True, z='2', expect=0))
    cases.append(Case(ap, kind='fixed:area-page-scaled-offset', export_id='r', area_page=True, w='100', bg=('#10203080', (16, 32, 48, 128)), expect=0))
    cases.append(Case(ap, kind='fixed:export-id-fit-scale', export_id='r', w='80', expect=0))
    cases.append(Case(ap, kind='fixed:export-id-fit-scale', export_id='r', w='33', h='70', expect=0))
    cases.append(Case(ap, kind='fixed:export-id-fit-scale', export_id='r', h='25', expect=0))
    return cases


def corpus_cases(ctx, quick):
    rng = ctx.rng
    files = vlib.corpus_files()
    k = 40 if quick else 400
    groups = {}
    for f in files:
        groups.setdefault(f.split('/tests/tests/')[1].split('/')[0], []).append(f)
    sel = []
    for g in sorted(groups):
        sel += rng.sample(groups[g], min(len(groups[g]), max(3, k // len(groups))))
    out = []
    for f in sel[:k]:
        kw = {}
        r = rng.below(5)
        if r == 0:
            kw['z'] = rng.choice(['2', '0.5'])
        elif r == 1:
            kw['w'] = str(rng.choice([64, 150, 333]))
        if rng.below(3) == 0:
            kw['prefill'] = True
        out.append(Case(None, kind='corpus', corpus_path=f, text=('/text/' in f), **kw))
    return out


# ------------------------------------------------------------------------------------------------
# running the real binary
# ------------------------------------------------------------------------------------------------
def run_case(rb, c, idx, wd):
    base = os.path.join(wd, 'c%05d' % idx)
    inp = base + '.svg'
    outp = base + '.png'
    if c.bad_out_dir:
        outp = os.path.join(wd, 'no-such-dir-%d' % idx, 'o.png')
    if c.corpus_path:
        inp = c.corpus_path
    elif c.doc is not None:
        with open(inp, 'wb') as f:
            f.write(c.doc)
    junk = None
    if c.prefill and not c.stdout and not c.bad_out_dir and not c.no_output_arg:
        junk = JUNK
        with open(outp, 'wb') as f:
            f.write(junk)
    argv = [rb]
    if c.w is not None:
        argv += ['-w', c.w]
    if c.h is not None:
        argv += ['-h', c.h]
    if c.z is not None:
        argv += ['-z', c.z]
    if c.dpi is not None:
        argv += ['--dpi', c.dpi]
    if c.bg is not None:
        argv += ['--background', c.bg[0]]
    if c.export_id is not None:
        argv += ['--export-id', c.export_id]
    if c.area_page:
        argv.append('--export-area-page')
    if c.area_drawing:
        argv.append('--export-area-drawing')
    if c.query_all:
        argv.append('--query-all')
    argv += c.extra
    argv += fonts_args()
    if c.res_dir:
        argv += ['--resources-dir', c.res_dir]
    if c.stdin:
        if not c.res_dir and not c.stdin_no_res:
            argv += ['--resources-dir', wd]
        argv.append('-')
    else:
        argv.append(inp)
    if not c.no_output_arg:
        argv.append('-c' if c.stdout else outp)
    stdin_data = ((open(c.corpus_path, 'rb').read() if c.corpus_path else c.doc) or b'') if c.stdin else None
    stdout_target = subprocess.PIPE
    fh = None
    if c.stdout_full:
        fh = open('/dev/full', 'wb')
        stdout_target = fh
    try:
        p = subprocess.run(argv, input=stdin_data, stdout=stdout_target, stderr=subprocess.PIPE, timeout=120,
                           cwd=wd, stdin=None if c.stdin else subprocess.DEVNULL)
        rc, so, se = p.returncode, p.stdout or b'', p.stderr
    except subprocess.TimeoutExpired:
        rc, so, se = 'timeout', b'', b''
    finally:
        if fh:
            fh.close()
    file_data = None
    untouched = None
    if os.path.exists(outp) and not c.stdout:
        with open(outp, 'rb') as f:
            file_data = f.read()
        if junk is not None:
            untouched = (file_data == junk)
            if untouched:
                file_data = None        # nothing was produced: the pre-existing file is as it was
    elif junk is not None:
        untouched = False               # the pre-existing file was removed
    if c.stdout and so[:8] == PNG_SIG:
        with open(outp, 'wb') as f:
            f.write(so)
    return dict(argv=argv[1:], rc=rc, stdout=so, stderr=se, file=file_data, outp=outp, inp=inp, prefilled=junk is not None, untouched=untouched)


def lib_payload(c, r, with_png):
    dw, dh = c.default_size()
    opts = "dw=%s;dh=%s" % (dw, dh)
    if c.dpi is not None and c.num(c.dpi) is not None:
        opts += ";dpi=%s" % c.dpi
    if c.lib_opts:
        opts += ";" + c.lib_opts
    if c.res_dir:
        opts += ";res=" + c.res_dir          # the property: Options.resources_dir = the explicit directory
    elif c.stdin and not c.stdin_no_res:
        opts += ";res=" + os.path.dirname(r['outp'])
    if c.corpus_path and c.stdin:
        doc = 'hex:' + open(c.corpus_path, 'rb').read().hex()      # stdin: no input directory
    elif c.corpus_path:
        doc = '@' + c.corpus_path
    else:
        doc = 'hex:' + (c.doc or b'').hex()
    bg = ','.join(map(str, c.bg[1])) if c.bg else '-'
    return "\t".join([opts, doc, bg, c.export_id or '-', '1' if c.area_page else '0', '1' if c.area_drawing else '0',
                      c.fit_spec(), r['outp'] if with_png else '-'])


def coq_opt_z(v):
    return "None" if v is None else "(Some (%d))" % v


def coq_case(c, r, lib, observed_dims, produced, alloc_ok=True):
    """-> Coq tuple (args, env, code, dims, produced) or None when the case is outside the model"""
    w, h = c.num(c.w), c.num(c.h)
    syntax_ok = c.syntax_ok
    # values that u32::parse rejects (non-numeric) are syntax errors for the model
    for s, v in ((c.w, w), (c.h, h), (c.dpi, c.num(c.dpi))):
        if s is not None and v is None:
            syntax_ok = False
    zq = c.zq()
    if c.z is not None and zq is None:
        return None
    az = "None" if zq is None else "(Some (%d # %d)%%Q)" % (zq.numerator, zq.denominator)
    b = lambda x: 'true' if x else 'false'
    args = "(mk_args %s %s %s %s %s %s %s %s %s %s %s)" % (
        coq_opt_z(w), coq_opt_z(h), az, coq_opt_z(c.num(c.dpi)), b(syntax_ok), b(not c.no_output_arg), b(c.stdout),
        b(c.query_all), b(c.export_id is not None), b(c.area_page), b(c.area_drawing))
    read_ok = (c.doc is not None or c.corpus_path is not None)
    write_ok = not (c.bad_out_dir or c.stdout_full)
    if lib is None or 'size' not in lib:
        tree = "None"
        ids = 0
        node = "NodeMissing"
        content = "(0, 0, 1, 1)%Q"
    else:
        tree = "(Some (%s, %s)%%Q)" % (qstr(lib['size'][0]), qstr(lib['size'][1]))
        ids = lib['ids']
        nd = lib.get('node')
        if nd is None or nd == 'missing':
            node = "NodeMissing"
        elif nd == 'zero':
            node = "NodeZero"
        else:
            node = "(NodeBox %s %s %s %s)" % tuple(qstr(v) for v in nd)
        content = "(%s, %s, %s, %s)%%Q" % tuple(qstr(v) for v in lib['content'])
    env = ("{| e_read_ok := %s; e_gunzip_ok := true; e_utf8_ok := true; e_xml_ok := true; e_tree := %s; e_ids := %d%%nat; "
           "e_node := %s; e_content := %s; e_alloc_ok := %s; e_encode_ok := true; e_write_ok := %s |}" % (b(read_ok), tree, ids, node, content, b(alloc_ok), b(write_ok)))
    dims = "None" if observed_dims is None else "(Some {| is_w := %d; is_h := %d |})" % observed_dims
    dw, dh = c.default_size()
    return "(%s, %s, (%d)%%Z, %s, %s, ((%d # 1)%%Q, (%d # 1)%%Q))" % (args, env, r['rc'] if isinstance(r['rc'], int) else -1, dims, b(produced), dw, dh)


def spec_dims(c, lib, dims):
    """The documented -w/-h/-z rules recomputed with exact fractions from the library's document size
    (independent of the Coq model).  -> (list of violated clause names, known class or None)"""
    if c.export_id is not None or c.area_drawing or c.query_all or lib is None or 'size' not in lib:
        return [], None
    dw, dh = int_size(lib['size'][0], lib['size'][1])
    w, h, z = c.num(c.w), c.num(c.h), c.zq()
    bad = []
    cls = None
    if w is not None and h is not None:
        tight_w = dims[0] == w and dims[1] == ceil_fr(Fraction(w * dh, dw))
        tight_h = dims[1] == h and dims[0] == ceil_fr(Fraction(h * dw, dh))
        if not (tight_w or tight_h):
            bad.append('wh: one side requested, the other ceil(aspect)')
        if dims[0] > w or dims[1] > h:
            q = Fraction(h * dw, dh)
            if w - 1 < q < w:
                cls = 'wh-box-exceeded'
            bad.append('wh: fits inside the requested box')
    elif w is not None:
        if dims != (w, ceil_fr(Fraction(w * dh, dw))):
            bad.append('w: width = W and height = ceil(H*W/width)')
    elif h is not None:
        if dims != (ceil_fr(Fraction(h * dw, dh)), h):
            bad.append('h: height = H and width = ceil(W*H/height)')
    elif z is not None:
        if dims != (round_haz(dw * z), round_haz(dh * z)):
            bad.append('z: round(w*z) x round(h*z)')
    else:
        if dims != (dw, dh):
            bad.append('original size')
    return bad, cls


def describe(c, r):
    d = dict(argv=r['argv'], exit=r['rc'], stderr=r['stderr'][:300].decode('utf-8', 'replace'), kind=c.kind)
    if c.corpus_path:
        d['input'] = c.corpus_path
    elif c.doc is not None:
        d['input_hex' if not c.doc.isascii() else 'input'] = c.doc.hex() if not c.doc.isascii() else c.doc.decode()
    d['stdin'] = c.stdin
    d['prefill'] = bool(c.prefill)
    return d


def coqchk(ctx):
    """thorough tier: re-check the compiled closure of Props/C20.vo with the independent checker"""
    rc, out = vlib.run(['coqchk', '-o', '-silent', '-Q', vlib.COQ, 'RV', 'RV.Props.C20'], timeout=1500)
    ok = rc == 0 and re.search(r"Axioms:\s*<none>", out) is not None
    ctx.cov['coqchk'] = 'ok' if ok else 'FAILED'
    if not ok:
        ctx.violation("coqchk rejects the compiled proofs of C20 (or reports axioms)", dict(log=out[-2000:]), found_input=False)


def run(ctx):
    quick = ctx.tier == 'quick'
    rng = ctx.rng
    ctx.cov['trusted_base'] = vlib.BASE_TRUSTED + [
        "tools/gen_c20.py: regex/rs2coq transcription of parse_* conditions, FitTo arms, fit_to_transform, the -w/-h/-z chain, "
        "fit_to_rect, the step order of `process` (shape mismatches are reported as broken ties)",
        "Model/CliPrims.v: hand model of tiny-skia-path 0.11.4 IntSize::{from_wh, scale_to_width, scale_to_height, scale_by, scale_to}, "
        "Size::to_int_size, Rect::to_int_rect, Pixmap::new size limit (tied by c20-fit / cli-dims only)",
        "control flow of render_svg / trim_pixmap / process in Model/Cli.v is hand-written (tied by cli-dims on the real binary)",
        "pico-args, file system, PNG encoder/decoder, partial writes on I/O errors, allocation failure: outside any model",
    ]
    ctx.assumptions = [
        "PARTIAL: argument syntax handling (pico-args), I/O and the PNG codec are observed only",
        "f32 arithmetic in IntSize is exact rational arithmetic: true when a*b < 2^24 and zoom factors are dyadic (the generated domain)",
        "an output write is atomic in the model (a failing save_png leaves no file); stdout write failure is a modelled panic site",
        "target canvases above 64 MiB are not exercised (allocation failure aborts are machine dependent)"]
    broken = ctx.translate()
    res = ctx.coq_props(extra_targets=['Model/Corr.v'])     # Corr.v (shared helpers) is used by the coq_eval comparisons
    proof_ok = res['ok'] and not broken
    if proof_ok and ctx.tier == 'thorough':
        coqchk(ctx)
    deep = (not quick) or (not proof_ok)

    binp, blog = ctx.harness('release')
    if binp is None:
        ctx.violation("harness does not build against the current tree", dict(build_log=blog[-2000:]), found_input=False)
        return
    rb, ub, clog = build_cli(ctx)
    if rb is None:
        ctx.violation("the resvg/usvg binaries do not build from the current tree", dict(build_log=clog[-2500:]), found_input=False)
        return
    wd = os.path.join(ctx.workdir, 'run-%d-%s' % (ctx.seed, ctx.tier))
    shutil.rmtree(wd, ignore_errors=True)
    os.makedirs(wd)
    try:
        _run(ctx, rng, not deep, binp, rb, ub, wd, proof_ok, res, broken)
    finally:
        shutil.rmtree(wd, ignore_errors=True)


def _run(ctx, rng, quick, binp, rb, ub, wd, proof_ok, res, broken):
    import concurrent.futures as cf
    # ------------------------------------------------------------------ K: c20-fit (hand model of IntSize vs the real methods)
    fit_items = []
    fit_coq = []
    nfit = 300 if quick else 3000
    for _ in range(nfit):
        w = rng.choice([1, 2, 3, 7, 20, 33, 64, 100, 101, 255, 640, 1000, 4095])
        h = rng.choice([1, 2, 5, 9, 10, 50, 64, 100, 101, 300, 768, 4095])
        k = rng.below(5)
        if k == 0:
            a = rng.choice([1, 2, 7, 64, 100, 333, 1000, 4000])
            fit_items.append("w %d %d %d" % (w, h, a))
            fit_coq.append("(fit_to_size (FitWidth %d) {| is_w := %d; is_h := %d |}" % (a, w, h))
        elif k == 1:
            a = rng.choice([1, 3, 9, 64, 100, 480, 1000, 4000])
            fit_items.append("h %d %d %d" % (w, h, a))
            fit_coq.append("(fit_to_size (FitHeight %d) {| is_w := %d; is_h := %d |}" % (a, w, h))
        elif k == 2:
            a = rng.choice([1, 2, 7, 64, 100, 101, 333, 1000])
            b = rng.choice([1, 3, 9, 64, 100, 101, 480, 1000])
            fit_items.append("wh %d %d %d %d" % (w, h, a, b))
            fit_coq.append("(fit_to_size (FitSize %d %d) {| is_w := %d; is_h := %d |}" % (a, b, w, h))
        elif k == 3:
            z = rng.choice([Fraction(1, 2), Fraction(3, 2), Fraction(2), Fraction(1, 4), Fraction(5, 2), Fraction(1, 1024), Fraction(3), Fraction(1, 8), Fraction(7, 4)])
            fit_items.append("z %d %d %s" % (w, h, float(z)))
            fit_coq.append("(fit_to_size (FitZoom (%d # %d)) {| is_w := %d; is_h := %d |}" % (z.numerator, z.denominator, w, h))
        else:
            fw = Fraction(rng.below(4000) + 1, rng.choice([1, 2, 4, 8]))
            fh = Fraction(rng.below(4000) + 1, rng.choice([1, 2, 4, 8]))
            fit_items.append("ints %s %s x" % (float(fw), float(fh)))
            fit_coq.append("(Some (to_int_size (%d # %d) (%d # %d))" % (fw.numerator, fw.denominator, fh.numerator, fh.denominator))
    outs = ctx.rvh_batch(binp, 'c20-fit', fit_items)
    rows = []
    for it, cq, o in zip(fit_items, fit_coq, outs):
        try:
            j = json.loads(o)
        except (TypeError, ValueError):
            j = {}
        if 'r' not in j:
            ctx.violation("c20-fit: IntSize arithmetic failed: %s" % str(o)[:200], dict(case=it))
            continue
        obs = "None" if j['r'] is None else "(Some {| is_w := %d; is_h := %d |})" % tuple(j['r'])
        rows.append("%s, %s)" % (cq, obs))
        ctx.note_case("fit/" + it)
    body = ("Local Open Scope Z_scope.\nDefinition cases : list (option isize * option isize) := [\n%s\n].\n"
            "Eval vm_compute in (bad_indices (fun p => opt_isize_eqb (fst p) (snd p)) cases).\n" % ";\n".join(rows))
    rc, out = ctx.coq_eval('k_fit', body, COQ_IMPORTS)
    badl = ctx.parse_N_list(out) if rc == 0 else None
    if badl is None:
        ctx.log("c20-fit model evaluation failed:\n" + out[-1200:])
        if proof_ok:
            ctx.violation("c20-fit: the model could not be evaluated", dict(log=out[-1500:]), found_input=False)
    else:
        ctx.cov['correspondence_fit_cases'] = len(rows)
        for b in badl[:3]:
            ctx.violation("c20-fit: model of IntSize arithmetic / source-derived fit_to_size disagrees with the implementation on `%s` (impl %s)"
                          % (fit_items[b], outs[b]), dict(op='c20-fit', payload=fit_items[b], impl=outs[b], model_expr=fit_coq[b]))

    # ------------------------------------------------------------------ the real binary on the option grid
    cases = gen_cases(rng, quick) + corpus_cases(ctx, quick) + resource_cases(wd)
    with cf.ThreadPoolExecutor(max_workers=12) as ex:
        runs = list(ex.map(lambda ic: run_case(rb, ic[1], ic[0], wd), enumerate(cases)))
    # library facts (+ pixel comparison when a PNG was produced)
    payloads = []
    for c, r in zip(cases, runs):
        produced = (r['file'] is not None) or (c.stdout and r['stdout'][:8] == PNG_SIG)
        payloads.append(lib_payload(c, r, produced and r['rc'] == 0))
    louts = ctx.rvh_batch(binp, 'c20-lib', payloads, per_item_timeout=60)
    libs = []
    for o in louts:
        try:
            libs.append(json.loads(o))
        except (TypeError, ValueError):
            libs.append({'crash': str(o)[:200]})

    hist = {}
    pix = dict(compared=0, bytes_equal=0, export_id=0, area_drawing=0, area_page=0, text=0, stdin=0, stdout=0, nonblank=0)
    coq_rows = []
    coq_idx = []
    known_probe_hits = set()
    for i, (c, r, lib) in enumerate(zip(cases, runs, libs)):
        hist[c.kind.split(':')[0]] = hist.get(c.kind.split(':')[0], 0) + 1
        rc = r['rc']
        data = r['file'] if not c.stdout else (r['stdout'] if r['stdout'][:8] == PNG_SIG else None)
        dims = png_dims(data) if data else None
        produced = data is not None
        nontrivial = rc == 0
        ctx.note_case("cli/" + " ".join(r['argv'][:8]) + (c.corpus_path or (c.doc or b'')[:200].hex()), nontrivial=nontrivial)
        rep = describe(c, r)
        rep['lib_payload'] = payloads[i].rsplit('\t', 1)[0]      # for replay: rvh c20-lib with the output path appended
        if c.expect is not None and rc != c.expect:
            ctx.violation("exit status %s but the documented option ranges require %s: %s" % (rc, c.expect, " ".join(r['argv'][:6])), rep)
        # ---- S1: never crashes or hangs; failure => message and no output
        if rc == 'timeout':
            ctx.violation("resvg hangs (> 120 s): %s" % " ".join(r['argv'][:10]), rep)
            continue
        if rc not in (0, 1):
            cls = crash_class(c, lib, rc, r['stderr'])
            text = "resvg crashed with exit status %s (%s): %s" % (rc, r['stderr'][:120].decode('utf-8', 'replace').strip().replace('\n', ' '), " ".join(r['argv'][:10]))
            if cls:
                known_probe_hits.add(cls)
                ctx.known_or_violation(cls, text, rep)
            else:
                ctx.violation(text, rep)
        if r['prefilled']:
            rep['output_path_prefilled'] = '%d junk bytes' % len(JUNK)
            if rc != 0 and not r['untouched']:
                ctx.violation("resvg failed (exit status %s) but modified or removed the pre-existing output file" % rc, rep)
            if rc == 0 and not c.query_all and r['file'] is not None and r['file'][-12:] != PNG_END:
                ctx.violation("resvg wrote over a pre-existing longer file without truncating it: %d bytes, stale tail after the PNG" % len(r['file']), rep)
            if rc == 0 and c.query_all and not r['untouched']:
                ctx.violation("--query-all modified the pre-existing output file", rep)
        if rc != 0:
            if not r['stderr'].strip():
                ctx.violation("resvg failed with exit status %s without a message on stderr" % rc, rep)
            if produced or (r['file'] is not None):
                ctx.violation("resvg failed with exit status %s but produced an output image" % rc, rep)
        else:
            if c.query_all:
                if produced:
                    ctx.violation("--query-all wrote an image", rep)
                n = len([l for l in r['stdout'].decode('utf-8', 'replace').splitlines() if l.strip()])
                if 'ids' in lib and n != lib['ids']:
                    ctx.violation("--query-all printed %d ids but the tree has %d" % (n, lib['ids']), rep)
            elif not produced or dims is None:
                ctx.violation("resvg exited 0 without writing a valid PNG", rep)
        # ---- S2: dimension rules (exact fractions, independent of the model)
        if rc == 0 and dims is not None:
            bad, cls = spec_dims(c, lib, dims)
            if bad:
                text = "PNG dimensions %sx%s violate: %s (%s)" % (dims[0], dims[1], "; ".join(bad), " ".join(r['argv'][:8]))
                rep2 = dict(rep, dims=list(dims), document_size=lib.get('size'))
                if cls and bad == ['wh: fits inside the requested box']:
                    known_probe_hits.add(cls)
                    ctx.known_or_violation(cls, text, rep2)
                else:
                    ctx.violation(text, rep2)
        # ---- S3: pixels == library rendering with the same options
        if rc == 0 and dims is not None and not c.query_all:
            png = lib.get('png')
            if 'crash' in lib or 'panic' in lib or png is None or 'error' in (png or {}) or 'expected_error' in (png or {}):
                ctx.violation("library reference rendering failed where the tool succeeded: %s" % str(lib)[:200], rep)
            else:
                notes = " ".join(png.get('notes', []))
                pix['compared'] += 1
                pix['bytes_equal'] += 1 if png['bytes_equal'] else 0
                pix['nonblank'] += 1 if png.get('nonblank', 0) > 0 else 0
                for k_, v_ in (('export_id', c.export_id), ('area_drawing', c.area_drawing), ('area_page', c.area_page), ('text', c.text or c.corpus_path and '/text/' in c.corpus_path), ('stdin', c.stdin), ('stdout', c.stdout)):
                    pix[k_] += 1 if v_ else 0
                same = png['bytes_equal'] or (png['w'] == png['ew'] and png['h'] == png['eh'] and png['ndiff'] == 0)
                if 'node-does-not-fill-canvas' in notes:
                    ctx.violation("--export-id with %s: the exported node does not fill the canvas that was sized from it (%s)" % (c.fit_spec(), notes),
                                  dict(rep, lib=png))
                if not same:
                    text = ("PNG differs from the library rendering with the same options: %d pixels, max delta %d, tool %dx%d vs library %dx%d (%s)"
                            % (png['ndiff'], png['max'], png['w'], png['h'], png['ew'], png['eh'], " ".join(r['argv'][:8])))
                    ctx.violation(text, dict(rep, lib=png))
        # ---- K: cli-dims (model of `process`), compared inside Coq
        # canvases of >= 1 TiB cannot be reserved anywhere (e_alloc_ok := false); between 2 GiB and 1 TiB it depends on the machine: skipped
        t_ = target_size(c, lib)
        nbytes = t_[0] * t_[1] * 4 if (t_ is not None and 0 < t_[0] <= MAX_PIXMAP_W) else 0
        if isinstance(rc, int) and not ((1 << 31) <= nbytes < ALLOC_CLASS_BYTES):
            row = coq_case(c, r, lib if ('size' in lib) else None, dims if produced else None, produced, alloc_ok=(nbytes < ALLOC_CLASS_BYTES))
            if row is not None:
                coq_rows.append(row)
                coq_idx.append(i)
    ctx.cov['cli_runs'] = len(cases)
    ctx.cov['pixel_comparisons'] = pix
    ctx.cov['cli_case_kinds'] = hist
    ctx.cov['exit_status_hist'] = {str(k): sum(1 for r in runs if r['rc'] == k) for k in set(r['rc'] for r in runs)}
    body = ("Local Open Scope Z_scope.\n"
            "Definition cases : list (cli_args * env * Z * option isize * bool * (Q * Q)) := [\n%s\n].\n"
            "Definition chk (c : cli_args * env * Z * option isize * bool * (Q * Q)) : bool :=\n"
            "  let '(a, e, code, dims, produced, ds) := c in\n"
            "  obs_matches a e code dims produced && Qeqb (fst (the_default_size a)) (fst ds) && Qeqb (snd (the_default_size a)) (snd ds).\n"
            "Eval vm_compute in (bad_indices chk cases).\n" % ";\n".join(coq_rows))
    rc_, out = ctx.coq_eval('k_cli_dims', body, COQ_IMPORTS, timeout=900)
    badl = ctx.parse_N_list(out) if rc_ == 0 else None
    if badl is None:
        ctx.log("cli-dims model evaluation failed:\n" + out[-1500:])
        if proof_ok:
            ctx.violation("cli-dims: the model could not be evaluated", dict(log=out[-1500:]), found_input=False)
    else:
        ctx.cov['correspondence_cli_cases'] = len(coq_rows)
        for b in badl[:4]:
            i = coq_idx[b]
            c, r = cases[i], runs[i]
            data = r['file'] if not c.stdout else r['stdout']
            ctx.violation("cli-dims: model of `process` and the real binary disagree (exit %s, dims %s, output %s): %s"
                          % (r['rc'], png_dims(data) if data else None, data is not None, " ".join(r['argv'][:10])),
                          dict(describe(c, r), library_facts={k: v for k, v in libs[i].items() if k != 'png'}, model_case=coq_rows[b][:1500]))

    # ------------------------------------------------------------------ usvg binary == Tree::to_string
    usvg_oracle(ctx, rng, quick, binp, ub, wd)
    stdin_chunk_oracle(ctx, rb, ub, wd, quick)

    ctx.add_sample(dict(op='cli-dims', argv=runs[0]['argv'][:12], exit=runs[0]['rc']))
    ctx.add_sample(dict(op='cli-dims', argv=runs[len(runs) // 2]['argv'][:12], exit=runs[len(runs) // 2]['rc']))
    ctx.cov['rule'] = ("generated small documents (sizes incl. fractional / units / viewBox-only / missing / percent; ids r, g, z0(zero-size), t(text); "
                       "content on and off canvas) x {-w, -h, both, -z(dyadic), -w with -z, none} x {--dpi} x {--background} x {--export-id existing/"
                       "missing/zero-sized, --export-area-page} x {--export-area-drawing} x {--query-all} x {--shape-rendering} x {file, stdin, stdout}; "
                       "argument validation boundary values; malformed inputs (9 kinds x 4 modes); svgz; one probe per known class; corpus sample with "
                       "fonts.  Non-trivial = exit status 0; distinct by argv + input.")
    ctx.cov['e2e_cases'] = len(cases)

    # ------------------------------------------------------------------ verdict on proofs / ties (DESIGN 1.5)
    if not proof_ok:
        found = [v for v in ctx.violations if v[2]]
        text = ("C20 obligations no longer check: failed=%s audit=%s broken_ties=%s"
                % (res['failed'], res['audit'], [b['name'] + ': ' + b['err'][:200] for b in broken]))
        if found:
            ctx.violation(text + " -- a concrete failing command line was found (see the other replay files)",
                          dict(failed_files=res['failed'], audit=res['audit'], broken_ties=broken, witness_replays=[v[1] for v in found][:3]))
        else:
            ctx.violation(text, dict(failed_files=res['failed'], audit=res['audit'], broken_ties=broken, log_tail=res['log'][-2500:],
                                     searched=dict(cli_runs=len(cases))), found_input=False)


ALLOC_CLASS_BYTES = 1 << 40      # 1 TiB: no machine this runs on can back such a canvas


def target_size(c, lib):
    """the fitted target (w, h) of the canvas the tool allocates first, with exact fractions (None if unknown)"""
    if 'size' not in lib:
        return None
    w, h, z = c.num(c.w), c.num(c.h), c.zq()
    if c.export_id is not None:
        nd = lib.get('node')
        if not isinstance(nd, list):
            return None
        sw, sh = int_size(nd[2], nd[3])
    else:
        sw, sh = int_size(lib['size'][0], lib['size'][1])
    if w is not None and h is not None:
        rw = ceil_fr(Fraction(h * sw, sh))
        return (w, ceil_fr(Fraction(w * sh, sw))) if rw >= w else (rw, h)
    if w is not None:
        return (w, ceil_fr(Fraction(w * sh, sw)))
    if h is not None:
        return (ceil_fr(Fraction(h * sw, sh)), h)
    if z is not None:
        return (round_haz(sw * z), round_haz(sh * z))
    return (sw, sh)


def crash_class(c, lib, rc=None, stderr=b''):
    """No crash of the tool is a known finding (all panic / abort classes are fixed in /repo): every crash is reported."""
    return None


def usvg_oracle(ctx, rng, quick, binp, ub, wd):
    import concurrent.futures as cf
    files = vlib.corpus_files()
    k = 60 if quick else 600
    sel = rng.sample(files, k)
    jobs = []
    for i, f in enumerate(sel):
        argv = []
        lopts = []
        wopts = []
        r = rng.below(8)
        if r == 0:
            argv += ['--dpi', '300']; lopts.append('dpi=300')
        if r == 1:
            argv += ['--default-width', '300', '--default-height', '150']; lopts += ['dw=300', 'dh=150']
        if r == 2:
            argv += ['--indent', '2', '--attrs-indent', '1']; wopts += ['indent=2', 'attrs_indent=1']
        if r == 3:
            argv += ['--coordinates-precision', '3', '--transforms-precision', '4']; wopts += ['cp=3', 'tp=4']
        if r == 4:
            argv += ['--id-prefix', 'px_']; wopts.append('prefix=px_')
        if r == 5:
            argv += ['--preserve-text']; wopts.append('preserve_text')
        if r == 6:
            argv += ['--indent', 'tabs', '--shape-rendering', 'crispEdges']; wopts.append('indent=tabs'); lopts.append('sr=crispEdges')
        jobs.append(dict(path=f, argv=argv, lopts=';'.join(lopts) or '-', wopts=';'.join(wopts) or '-', mode=rng.below(6), idx=i,
                         prefill=(rng.below(2) == 0)))
    # precision grid: {none, coordinates only, transforms only, both} x {0, 1, 3, 5, 8, 12} on documents with rotations / scales.
    # The expected WriteOptions come from the DOCUMENTED defaults (8 / 8 = usvg::WriteOptions::default(), only the given option is
    # overridden); the documented range is 2..8, anything else must be rejected.
    tdocs = []
    for k, body in enumerate([
            '<g transform="rotate(33.3) scale(1.37 0.77)"><rect x="10.123456" y="7.654321" width="31.41592" height="12.71828" fill="green"/></g>'
            '<path transform="matrix(0.59077936 0.3885612 -0.3885612 0.59077936 20.5 10.25)" d="M 1.234567 2.345678 L 30.98765 4.56789 L 12.3456 28.7654 Z"/>',
            '<g transform="skewX(12.5) translate(3.14159 2.71828)"><circle cx="25.55555" cy="30.33333" r="11.11111" fill="blue" transform="scale(0.333333)"/></g>'
            '<linearGradient id="lg" gradientTransform="rotate(17.77)"><stop offset="0" stop-color="red"/><stop offset="1" stop-color="blue"/></linearGradient>'
            '<rect x="5" y="50" width="60.606" height="20.202" fill="url(#lg)" transform="rotate(-7.5 30 60)"/>']):
        pth = os.path.join(wd, 'u-prec-%d.svg' % k)
        with open(pth, 'w') as f:
            f.write('<svg %s width="100" height="100">%s</svg>' % (NS, body))
        tdocs.append(pth)
    tdocs += [f for f in files if '/structure/transform/' in f][:2]
    gi = 0
    for pth in tdocs:
        for which in ('none', 'c', 't', 'both'):
            for pv in ((None,) if which == 'none' else (0, 1, 3, 5, 8, 12)):
                argv, wopts = [], []
                if which in ('c', 'both'):
                    argv += ['--coordinates-precision', str(pv)]
                    wopts.append('cp=%d' % pv)
                if which in ('t', 'both'):
                    tv = pv if which == 't' else (pv if pv in (0, 1, 12) else 10 - pv if 2 <= 10 - pv <= 8 else pv)
                    argv += ['--transforms-precision', str(tv)]
                    wopts.append('tp=%d' % tv)
                bad = which != 'none' and not (2 <= pv <= 8)
                jobs.append(dict(path=pth, argv=argv, lopts='-', wopts=';'.join(wopts) or '-', mode=0, idx=5000 + gi, must_fail=bad,
                                 prefill=(gi % 5 == 0)))
                gi += 1
    # documents with text whose raw bytes lack the literal `<text` (prefixed namespace, svgz), file and stdin, a few option sets
    for j, (data, what) in enumerate(disguised_text_docs()):
        pth = os.path.join(wd, 'u-dis-%d.%s' % (j, 'svgz' if data[:2] == b'\x1f\x8b' else 'svg'))
        with open(pth, 'wb') as f:
            f.write(data)
        bad = 'malformed' in what
        for m_, (argv_, wo_) in enumerate([([], []), ([], []), (['--preserve-text'], ['preserve_text']), (['--indent', '2'], ['indent=2'])]):
            jobs.append(dict(path=pth, argv=list(argv_), lopts='-', wopts=';'.join(wo_) or '-', mode=(1 if m_ == 1 else 0), idx=6000 + 10 * j + m_,
                             must_fail=bad, prefill=(m_ == 3)))
    # resources_dir: explicit --resources-dir wins over the input's directory; stdin has none unless given
    rdoc, rda, rdb = resource_dirs(wd)
    for m_, (mode_, res_) in enumerate([(0, None), (0, rdb), (0, rda), (1, rdb), (1, None), (2, rdb)]):
        jobs.append(dict(path=rdoc, argv=(['--resources-dir', res_] if res_ else []), lopts=('res=' + res_ if res_ else '-'), wopts='-',
                         mode=mode_, idx=7000 + m_, res_explicit=res_, stdin_no_res=(mode_ == 1 and res_ is None)))
    # --languages (round 5, missed seed C20-16): <switch>/systemLanguage in mixed case x language lists in mixed case, with
    # duplicates and blanks after commas.  Expected library option: the comma-separated items as written, blanks around an item removed.
    ldocs = []
    for k_, tags in enumerate([('en-US', 'de-DE', 'EN'), ('pt-BR', 'zh-Hant', 'ru-RU, en-GB'), ('en', 'EN-us', 'De')]):
        body = '<switch>' + ''.join('<rect id="l%d" systemLanguage="%s" x="%d" width="10" height="10" fill="#%02x3050"/>' % (i_, t_, 12 * i_, 40 * i_ + 20)
                                    for i_, t_ in enumerate(tags)) + '<rect id="fallback" y="20" width="10" height="10"/></switch>'
        pth = os.path.join(wd, 'u-lang-%d.svg' % k_)
        with open(pth, 'w') as f:
            f.write('<svg %s width="60" height="40">%s</svg>' % (NS, body))
        ldocs.append(pth)
    lsets = ['en-US', 'EN-us', 'de-DE,de-DE', 'pt-BR, en', 'zh-Hant', 'ru-RU,  EN', 'De, en-GB,De', 'xx, en']
    li = 0
    for pth in ldocs:
        for ls in lsets:
            want = ','.join(x.strip() for x in ls.split(','))
            for mode_ in ((0, 1, 2) if not quick else (li % 3,)):
                jobs.append(dict(path=pth, argv=['--languages', ls], lopts='lang=' + want, wopts='-', mode=mode_, idx=8000 + li,
                                 prefill=(li % 4 == 0)))
                li += 1
    # failure behaviour
    for j, (data, what) in enumerate(MALFORMED):
        p = os.path.join(wd, 'u-bad-%d.svg' % j)
        with open(p, 'wb') as f:
            f.write(data)
        jobs.append(dict(path=p, argv=[], lopts='-', wopts='-', mode=0, idx=1000 + j, expect_fail_ok=True, prefill=(j % 2 == 0)))
    for j, (data, what) in enumerate(tiny_inputs()):
        p = os.path.join(wd, 'u-tiny-%d.svg' % j)
        with open(p, 'wb') as f:
            f.write(data)
        jobs.append(dict(path=p, argv=[], lopts='-', wopts='-', mode=0, idx=3000 + 2 * j, must_fail=True, prefill=True))
        jobs.append(dict(path=p, argv=[], lopts='-', wopts='-', mode=1, idx=3001 + 2 * j, must_fail=True))
    jobs.append(dict(path=os.path.join(wd, 'u-missing.svg'), argv=[], lopts='-', wopts='-', mode=0, idx=2000, missing=True))
    jobs.append(dict(path=sel[0], argv=['--dpi', '9'], lopts='-', wopts='-', mode=0, idx=2001, must_fail=True))
    jobs.append(dict(path=sel[0], argv=['--coordinates-precision', '9'], lopts='-', wopts='-', mode=0, idx=2002, must_fail=True))

    def runj(j):
        outp = os.path.join(wd, 'u%05d.svg' % j['idx'])
        pre = bool(j.get('prefill')) and j['mode'] != 2
        if pre:
            with open(outp, 'wb') as f:
                f.write(JUNK * 4)
        argv = [ub] + j['argv'] + fonts_args()
        stdin_data = None
        if j['mode'] == 1 and not j.get('missing'):      # stdin -> file
            stdin_data = open(j['path'], 'rb').read()
            if not j.get('res_explicit') and not j.get('stdin_no_res'):
                argv += ['--resources-dir', os.path.dirname(j['path'])]
            argv += ['-', outp]
        elif j['mode'] == 2:                              # file -> stdout
            argv += [j['path'], '-c']
        else:
            argv += [j['path'], outp]
        try:
            p = subprocess.run(argv, input=stdin_data, stdout=subprocess.PIPE, stderr=subprocess.PIPE, timeout=120, cwd=wd,
                               stdin=None if stdin_data is not None else subprocess.DEVNULL)
            rc, so, se = p.returncode, p.stdout, p.stderr
        except subprocess.TimeoutExpired:
            rc, so, se = 'timeout', b'', b''
        if j['mode'] == 2 and rc == 0:
            with open(outp, 'wb') as f:
                f.write(so)
        untouched = None
        if pre:
            untouched = os.path.exists(outp) and os.path.getsize(outp) == 4 * len(JUNK) and open(outp, 'rb').read() == JUNK * 4
        return dict(rc=rc, stderr=se, outp=outp, argv=argv[1:], exists=os.path.exists(outp) and not untouched, prefilled=pre, untouched=untouched)
    with cf.ThreadPoolExecutor(max_workers=12) as ex:
        rs = list(ex.map(runj, jobs))
    payloads = []
    for j, r in zip(jobs, rs):
        lo = j['lopts']
        if j['mode'] == 1 and not j.get('res_explicit') and not j.get('stdin_no_res'):
            lo = (lo + ';' if lo != '-' else '') + 'res=' + os.path.dirname(j['path'])
        docref = '@' + j['path']
        if j['mode'] == 1 and j.get('stdin_no_res'):
            docref = 'hex:' + open(j['path'], 'rb').read().hex()      # stdin without --resources-dir: no directory at all
        payloads.append("\t".join([lo, docref, j['wopts'], r['outp']]))
    outs = ctx.rvh_batch(binp, 'c20-usvg', payloads, per_item_timeout=60)
    nok = 0
    for j, r, o in zip(jobs, rs, outs):
        rep = dict(tool='usvg', argv=r['argv'], exit=r['rc'], stderr=r['stderr'][:300].decode('utf-8', 'replace'), input=j['path'],
                   prefill=r['prefilled'], stdin=(j['mode'] == 1))
        if not j['path'].startswith(vlib.REPO) and os.path.exists(j['path']):
            rep['input_hex'] = open(j['path'], 'rb').read().hex()
        if r['prefilled'] and r['rc'] != 0 and not r['untouched']:
            ctx.violation("usvg failed (exit status %s) but modified or removed the pre-existing output file" % r['rc'], rep)
        try:
            lib = json.loads(o)
        except (TypeError, ValueError):
            lib = {'crash': str(o)[:200]}
        ctx.note_case("usvg/" + " ".join(j['argv']) + j['path'] + str(j['mode']), nontrivial=(r['rc'] == 0))
        if r['rc'] not in (0, 1):
            ctx.violation("usvg crashed or hung (exit status %s): %s" % (r['rc'], " ".join(r['argv'][-3:])), rep)
            continue
        lib_fails = 'error' in lib or j.get('missing')
        if j.get('must_fail') and r['rc'] == 0:
            ctx.violation("usvg accepted an out-of-range option value", rep)
            continue
        if r['rc'] != 0:
            if not r['stderr'].strip():
                ctx.violation("usvg failed without a message on stderr", rep)
            if r['exists']:
                ctx.violation("usvg failed (exit status %s) but left an output file" % r['rc'], rep)
            if not lib_fails and not j.get('must_fail'):
                ctx.violation("usvg failed on an input the library parses: %s" % rep['stderr'][:120], rep)
            continue
        if lib_fails:
            ctx.violation("usvg succeeded on an input the library rejects (%s)" % str(lib)[:100], rep)
            continue
        if not lib.get('equal'):
            ctx.violation("usvg output differs from Tree::to_string with the same options (first difference at byte %s, %s vs %s bytes%s)"
                          % (lib.get('first_diff'), lib.get('file_len'), lib.get('lib_len'),
                             '; the output path held a longer file before the run' if r['prefilled'] else ''), dict(rep, lib=lib))
        else:
            nok += 1
    ctx.cov['usvg_runs'] = len(jobs)
    ctx.cov['usvg_equal'] = nok


# ------------------------------------------------------------------------------------------------
# stdin through a pipe whose writer delivers the bytes in several chunks ("stdin/stdout modes"; also part of C06's
# "separate processes give the same bytes"): the result must equal the run on the same bytes given as a file
# ------------------------------------------------------------------------------------------------
BLOCK = 64 * 1024


def chunk_doc(size):
    """deterministic valid SVG of exactly `size` bytes (size >= 400): many small rects + a padding comment"""
    head = '<svg %s width="64" height="48">' % NS
    tail = '</svg>'
    body = []
    n = len(head) + len(tail)
    i = 0
    while True:
        r = '<rect x="%d" y="%d" width="3" height="2" fill="#%06x"/>' % (i * 7 % 60, i * 5 % 44, (i * 2654435761) & 0xffffff)
        if n + len(r) + 7 > size:
            break
        body.append(r)
        n += len(r)
        i += 1
    pad = size - n
    doc = head + ''.join(body) + ('<!--' + 'x' * (pad - 7) + '-->' if pad >= 7 else ' ' * pad) + tail
    assert len(doc) == size, (len(doc), size)
    return doc.encode()


def chunkings(size, rng, k):
    """lists of chunk lengths summing to size: first-byte split, last-byte split, around the 64 KiB block boundaries, small
    pieces, random pieces"""
    out = [[1, size - 1], [size - 1, 1], [size // 2, size - size // 2]]
    for b in (BLOCK - 1, BLOCK, BLOCK + 1, 2 * BLOCK, 2 * BLOCK + 1):
        if 0 < b < size:
            out.append([b, size - b])
    if size > BLOCK + 10:
        out.append([BLOCK, 5, size - BLOCK - 5])
    if size <= 3000:
        out.append([1] * 3 + [size - 3])
    for _ in range(k):
        cuts = sorted(set(1 + rng.below(size - 1) for _ in range(1 + rng.below(4))))
        out.append([b - a for a, b in zip([0] + cuts, cuts + [size])])
    return out


def run_chunked(binp, args, data, chunks, wd, outp, pause=0.03):
    import threading
    import time
    p = subprocess.Popen([binp] + args, stdin=subprocess.PIPE, stdout=subprocess.PIPE, stderr=subprocess.PIPE, cwd=wd)

    def writer():
        pos = 0
        try:
            for n in chunks:
                p.stdin.write(data[pos:pos + n])
                p.stdin.flush()
                pos += n
                time.sleep(pause)
            p.stdin.close()
        except (BrokenPipeError, OSError):
            pass
    t = threading.Thread(target=writer)
    t.start()
    try:
        so = p.stdout.read()
        se = p.stderr.read()
        rc = p.wait(timeout=120)
    except subprocess.TimeoutExpired:
        p.kill()
        rc, so, se = 'timeout', b'', b''
    t.join(10)
    out = open(outp, 'rb').read() if os.path.exists(outp) else None
    return rc, out, se


def stdin_chunk_oracle(ctx, rb, ub, wd, quick, only=None):
    """-> number of chunked runs.  Reports a violation (with tool, argv, document size and chunk lengths) when a run with
    chunked stdin differs from the run on the same bytes given as a file."""
    import concurrent.futures as cf
    rng = ctx.rng
    sizes = [420, 4096, BLOCK - 1, BLOCK, BLOCK + 1, 70000, 2 * BLOCK, 2 * BLOCK + 77, 200000] if not quick else \
            [420, BLOCK, BLOCK + 1, 70000, 2 * BLOCK + 77]
    jobs = []
    for tool, binp, ext in (('resvg', rb, 'png'), ('usvg', ub, 'svg')):
        for size in sizes:
            data = chunk_doc(size)
            inp = os.path.join(wd, 'chunk-%d.svg' % size)
            if not os.path.exists(inp):
                with open(inp, 'wb') as f:
                    f.write(data)
            ref_out = os.path.join(wd, 'chunk-%s-%d-ref.%s' % (tool, size, ext))
            p = subprocess.run([binp, inp, ref_out], stdout=subprocess.PIPE, stderr=subprocess.PIPE, timeout=120, cwd=wd)
            ref = (p.returncode, open(ref_out, 'rb').read() if os.path.exists(ref_out) else None)
            for ci, ch in enumerate(chunkings(size, rng, 1 if quick else 4)):
                jobs.append((tool, binp, ext, size, data, ch, ref, ci))
    if only:
        jobs = [j for j in jobs if only(j)]

    def work(j):
        tool, binp, ext, size, data, ch, ref, ci = j
        outp = os.path.join(wd, 'chunk-%s-%d-%d.%s' % (tool, size, ci, ext))
        rc, out, se = run_chunked(binp, ['--resources-dir', wd, '-', outp], data, ch, wd, outp)
        return rc, out, se
    with cf.ThreadPoolExecutor(max_workers=12) as ex:
        results = list(ex.map(work, jobs))
    nbad = 0
    for j, (rc, out, se) in zip(jobs, results):
        tool, binp, ext, size, data, ch, ref, ci = j
        ctx.note_case("stdin-chunks/%s/%d/%s" % (tool, size, ch), nontrivial=(rc == 0))
        if ref[0] != 0 or ref[1] is None:
            if nbad < 3:
                ctx.violation("%s fails on a valid %d-byte document given as a file (exit %s)" % (tool, size, ref[0]),
                              dict(kind='stdin-chunks', tool=tool, doc_size=size, chunks=None))
            nbad += 1
            continue
        if (rc, out) != ref:
            nbad += 1
            if nbad <= 3:
                ctx.violation("%s reading stdin from a pipe that delivers a %d-byte document in chunks %s differs from the run on the same bytes "
                              "as a file: exit %s vs %s, output %s vs %s bytes (%s)"
                              % (tool, size, ch if len(ch) < 8 else ch[:8] + ['...'], rc, ref[0], None if out is None else len(out), len(ref[1]),
                                 se[:100].decode('utf-8', 'replace').strip()),
                              dict(kind='stdin-chunks', tool=tool, argv=['--resources-dir', '<wd>', '-', '<out>'], doc_size=size, chunks=ch,
                                   pause_s=0.03, document='chunk_doc(%d) of tools/props/c20.py' % size, exit=rc, expected_exit=ref[0],
                                   stderr=se[:300].decode('utf-8', 'replace')))
    ctx.cov['stdin_chunk_runs'] = len(jobs)
    return len(jobs)


def replay(ctx, path):
    r = json.load(open(path))
    print(json.dumps({k: v for k, v in r.items() if k != 'replay'}, indent=1))
    rp = r.get('replay', {})
    if rp.get('kind') == 'stdin-chunks' and rp.get('chunks'):
        return replay_chunks(ctx, rp)
    if 'argv' not in rp:
        print(json.dumps(rp, indent=1)[:6000])
        return 0
    rb, ub, log = build_cli(ctx)
    if rb is None:
        print("binaries do not build:\n" + log[-1500:])
        return 1
    wd = os.path.join(ctx.workdir, 'replay')
    shutil.rmtree(wd, ignore_errors=True)
    os.makedirs(wd)
    try:
        tool = ub if rp.get('tool') == 'usvg' else rb
        argv = list(rp['argv'])
        data = None
        if 'input_hex' in rp:
            data = bytes.fromhex(rp['input_hex'])
        elif 'input' in rp and not os.path.exists(rp['input']) and rp['input'].lstrip().startswith('<'):
            data = rp['input'].encode()
        inp = os.path.join(wd, 'in.svg')
        if data is not None:
            with open(inp, 'wb') as f:
                f.write(data)
        outp = os.path.join(wd, 'out.png')
        # re-target the recorded scratch paths
        new = []
        for a in argv:
            if re.search(r"/c\d{5}\.svg$|/u-(tiny|bad|missing|dis|prec)(-\d+)?\.svgz?$", a):
                new.append(inp)
            elif re.search(r"/c\d{5}\.png$|/o\.png$|/u\d{5}\.svg$", a):
                new.append(outp)
            elif a.startswith(os.path.dirname(os.path.dirname(ctx.workdir))) and '/run-' in a:
                new.append(wd)
            else:
                new.append(a)
        if rp.get('prefill'):
            with open(outp, 'wb') as f:
                f.write(JUNK * 4)
            print("output path pre-filled with %d junk bytes" % (4 * len(JUNK)))
        p = subprocess.run([tool] + new, input=data if rp.get('stdin') else None, stdout=subprocess.PIPE, stderr=subprocess.PIPE, timeout=300, cwd=wd)
        print("command: %s %s" % (os.path.basename(tool), " ".join(new)))
        print("exit status: %s" % p.returncode)
        print("stderr: %s" % p.stderr[:600].decode('utf-8', 'replace'))
        if os.path.exists(outp):
            d = open(outp, 'rb').read()
            print("output file: %d bytes, PNG dims %s, ends with IEND: %s, still the junk: %s" % (len(d), png_dims(d), d[-12:] == PNG_END, d == JUNK * 4))
        else:
            print("output file: none; stdout %d bytes, PNG dims %s" % (len(p.stdout), png_dims(p.stdout)))
        if rp.get('lib_payload') and rp.get('tool') != 'usvg':
            binp, _ = ctx.harness('release')
            if p.stdout[:8] == PNG_SIG and not os.path.exists(outp):
                with open(outp, 'wb') as f:
                    f.write(p.stdout)
            if binp and os.path.exists(outp):
                rc2, out2 = ctx.rvh(binp, ['c20-lib'], inp="0\t%s\t%s\n" % (rp['lib_payload'], outp))
                print("library comparison (rvh c20-lib): %s" % out2.strip()[:900])
        print("recorded: %s" % r.get('what'))
    finally:
        shutil.rmtree(wd, ignore_errors=True)
    return 0


def replay_chunks(ctx, rp):
    rb, ub, log = build_cli(ctx)
    if rb is None:
        print("binaries do not build:\n" + log[-1500:])
        return 1
    wd = os.path.join(ctx.workdir, 'replay-chunks')
    shutil.rmtree(wd, ignore_errors=True)
    os.makedirs(wd)
    try:
        tool = ub if rp.get('tool') == 'usvg' else rb
        ext = 'svg' if rp.get('tool') == 'usvg' else 'png'
        data = chunk_doc(rp['doc_size'])
        inp = os.path.join(wd, 'in.svg')
        with open(inp, 'wb') as f:
            f.write(data)
        ref_out = os.path.join(wd, 'ref.' + ext)
        p = subprocess.run([tool, inp, ref_out], stdout=subprocess.PIPE, stderr=subprocess.PIPE, timeout=120, cwd=wd)
        ref = open(ref_out, 'rb').read() if os.path.exists(ref_out) else None
        print("%s in.svg ref.%s   (document: chunk_doc(%d)): exit %s, %s bytes" % (rp.get('tool'), ext, rp['doc_size'], p.returncode, None if ref is None else len(ref)))
        bad = 0
        for k in range(5):
            outp = os.path.join(wd, 'out%d.%s' % (k, ext))
            rc, out, se = run_chunked(tool, ['--resources-dir', wd, '-', outp], data, rp['chunks'], wd, outp, rp.get('pause_s', 0.03))
            same = (rc == p.returncode and out == ref)
            bad += 0 if same else 1
            print("run %d: %s --resources-dir <wd> - out.%s with stdin written in chunks %s: exit %s, %s bytes, %s %s"
                  % (k, rp.get('tool'), ext, rp['chunks'], rc, None if out is None else len(out), 'same as file input' if same else 'DIFFERS',
                     se[:120].decode('utf-8', 'replace').strip()))
        print("REPRODUCED" if bad else "not reproduced")
        return 1 if bad else 0
    finally:
        shutil.rmtree(wd, ignore_errors=True)
