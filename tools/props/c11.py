"""C11  Content that SVG says is not rendered never influences the result.

proof      coq/Props/C11.v over Model/Converter.v evaluated on the source-derived Gen/ConvTables.v
tie        tools/gen_converter.py (tables cut out of converter.rs / switch.rs / shapes.rs / svgtree)
K1         svgtree-filter: usvg::verif_hooks::svgtree_dump identical after inserting what svgtree itself drops
K2         convert-skel: generated documents -> real tree skeleton == model (sim instance), compared inside Coq
K3         gen-id: documents whose elements occupy generated ids -> generated clipPath id == model gen_id
S          e2e-C11: 1..8 insertions of every kind at random structural positions of corpus files and generated
           documents -> Tree::to_string identical and pixels bit-identical (measured floor: 0 differences)
"""
import json
import os
import re

import vlib

NS = 'xmlns="http://www.w3.org/2000/svg" xmlns:xlink="http://www.w3.org/1999/xlink"'
SVGNS = 'http://www.w3.org/2000/svg'
CONTAINERS = {'svg', 'g', 'defs', 'symbol', 'marker', 'mask', 'pattern', 'clipPath', 'a'}
IMPORTS = ['Model.Base', 'Model.ConvBase', 'Gen.ConvTables', 'Model.Converter', 'Model.ConvCache', 'Model.Corr']


# ------------------------------------------------------------------------------------------------
# XML scanning: structural insertion points and start tags of the main document text
# ------------------------------------------------------------------------------------------------
# insertion points of the last scanned text that lie inside definition content: an inserted element that REFERENCES a definition of
# the document is not placed there (it could close a reference cycle, which svgtree::parse fix_recursive_links breaks by removing
# clip-path / mask / filter attributes of rendered content: a document error whoever carries the reference)
DEF_CONTAINERS = {'defs', 'symbol', 'marker', 'mask', 'pattern', 'clipPath'}
IN_DEFS = set()


def scan(text):
    """-> (points, tags): points = offsets where a node may be inserted (all ancestors are container
    elements), tags = offsets just before the closing `>` / `/>` of start tags (attribute insertion)."""
    points = []
    tags = []
    stack = []
    i = 0
    n = len(text)
    IN_DEFS.clear()

    def ok():
        return bool(stack) and all(s in CONTAINERS for s in stack)
    while i < n:
        j = text.find('<', i)
        if j < 0:
            break
        if text.startswith('<!--', j):
            e = text.find('-->', j + 4)
            if e < 0:
                return [], []
            i = e + 3
        elif text.startswith('<![CDATA[', j):
            e = text.find(']]>', j)
            if e < 0:
                return [], []
            i = e + 3
            continue
        elif text.startswith('<?', j):
            e = text.find('?>', j)
            if e < 0:
                return [], []
            i = e + 2
        elif text.startswith('<!', j):
            # DOCTYPE with optional internal subset
            k = j + 2
            depth = 0
            q = None
            while k < n:
                ch = text[k]
                if q:
                    if ch == q:
                        q = None
                elif ch in '"\'':
                    q = ch
                elif ch == '[':
                    depth += 1
                elif ch == ']':
                    depth -= 1
                elif ch == '>' and depth <= 0:
                    break
                k += 1
            i = k + 1
            continue
        elif text.startswith('</', j):
            e = text.find('>', j)
            if e < 0:
                return [], []
            if stack:
                stack.pop()
            i = e + 1
        else:
            m = re.compile(r"<([A-Za-z_][\w.\-]*:)?([A-Za-z_][\w.\-]*)").match(text, j)
            if not m:
                i = j + 1
                continue
            k = m.end()
            q = None
            while k < n:
                ch = text[k]
                if q:
                    if ch == q:
                        q = None
                elif ch in '"\'':
                    q = ch
                elif ch == '>':
                    break
                k += 1
            if k >= n:
                return [], []
            empty = text[k - 1] == '/'
            tags.append(k - 1 if empty else k)
            if not empty:
                stack.append(m.group(2))
            i = k + 1
        if ok():
            points.append(i)
            if any(x in DEF_CONTAINERS for x in stack):
                IN_DEFS.add(i)
    return points, tags


def positional_css(text):
    for m in re.finditer(r"<(?:\w+:)?style\b[^>]*>(.*?)</(?:\w+:)?style>", text, re.S):
        body = m.group(1)
        if 'first-child' in body or re.search(r"[\w\])*]\s*[+~]\s*[\w.#\[*:]", body):
            return True
    return False


# ------------------------------------------------------------------------------------------------
# non-rendered content
# ------------------------------------------------------------------------------------------------
SHAPE = ['<rect x="5" y="5" width="60" height="40" fill="red" stroke="black"/>',
         '<circle cx="30" cy="30" r="25" fill="#00f"/>',
         '<path d="M 10 10 L 90 90 L 10 90 Z" fill="green" stroke="red" stroke-width="4"/>',
         '<g><rect width="30" height="30"/><g opacity="0.5"><circle r="9"/></g></g>',
         '<text x="10" y="40" font-size="20">junk</text>']

SVGTREE_KINDS = ['comment', 'pi', 'ws', 'unknown_elem', 'foreign_elem', 'foreign_style_elem']
CONV_KINDS = ['display_none', 'def', 'cond', 'zero', 'badts', 'singular']
ALL_KINDS = SVGTREE_KINDS + CONV_KINDS + ['attr']


class Junk:
    def __init__(self, rng, text='', langs=('en',)):
        self.rng = rng
        self.n = 0
        self.langs = list(langs)        # the `languages` option the document is parsed with
        # names the document itself uses: class selectors and referenced ids (a foreign-namespace `class` / `id` attribute
        # that were honoured would then change something)
        self.classes = sorted(set(re.findall(r"\.([A-Za-z_][\w-]*)\s*[{,:\[>+~ ]", ' '.join(re.findall(r"<(?:\w+:)?style\b[^>]*>(.*?)</", text, re.S))))) or ['a']
        self.ref_ids = sorted(set(re.findall(r"url\(#([^)\s\"']+)\)", text) + re.findall(r"href=\"#([^\"]+)\"", text))) or ['vf_none']

    def nid(self):
        self.n += 1
        return "vf_%d" % self.n

    def shape(self):
        return self.rng.choice(SHAPE)

    def make(self, kind):
        r = self.rng
        if kind == 'comment':
            return "<!-- vf %d %s -->" % (r.below(1000), r.choice(['', '<rect/>', 'x > y & z']))
        if kind == 'pi':
            return "<?vf-junk %s?>" % r.choice(['', 'a="1"', 'display none'])
        if kind == 'ws':
            return r.choice([' ', '\n', '\t \n  ', '\r\n', '    '])
        if kind == 'unknown_elem':
            return r.choice(['<vfunknown a="1">%s</vfunknown>' % self.shape(),
                             '<vfunknown/>',
                             '<metadata><vfx>%s</vfx></metadata>' % self.shape(),
                             '<title>vf title</title>', '<desc>vf <b>desc</b></desc>',
                             '<foreignObject width="50" height="50"><p xmlns="http://www.w3.org/1999/xhtml">x</p></foreignObject>',
                             '<animate attributeName="x" from="0" to="9" dur="1s"/>',
                             '<set attributeName="fill" to="red"/>'])
        if kind == 'foreign_elem':
            return r.choice(['<vf:junk xmlns:vf="urn:x-vf"><vf:inner k="v"/><rect xmlns="%s" width="50" height="50" fill="red"/></vf:junk>' % SVGNS,
                             '<rect xmlns="urn:x-vf" width="50" height="50" fill="red"/>',
                             '<g xmlns="urn:x-other">%s</g>' % self.shape(),
                             # foreign-namespace elements whose LOCAL names are real SVG element names
                             '<vq:rect xmlns:vq="urn:x-q" x="5" y="5" width="150" height="150" fill="red"/>',
                             '<vq:g xmlns:vq="urn:x-q"><rect xmlns="%s" width="90" height="90" fill="red"/>%s</vq:g>' % (SVGNS, self.shape()),
                             '<vq:linearGradient xmlns:vq="urn:x-q" id="%s"><vq:stop offset="0" stop-color="red"/></vq:linearGradient>' % self.nid(),
                             '<vq:use xmlns:vq="urn:x-q" href="#%s" x="10" y="10"/>' % r.choice(self.ref_ids),
                             '<vq:svg xmlns:vq="urn:x-q" width="80" height="80">%s</vq:svg>' % self.shape(),
                             '<vq:text xmlns:vq="urn:x-q" x="10" y="60" font-size="40" fill="red">junk</vq:text>',
                             '<vq:path xmlns:vq="urn:x-q" d="M 0 0 L 150 150 L 0 150 Z" fill="red"/>',
                             '<vq:clipPath xmlns:vq="urn:x-q" id="%s"><rect width="1" height="1"/></vq:clipPath>' % self.nid(),
                             '<vq:defs xmlns:vq="urn:x-q"><vq:filter id="%s"/></vq:defs>' % self.nid(),
                             '<vq:switch xmlns:vq="urn:x-q"><vq:circle r="90" fill="red"/></vq:switch>',
                             '<circle xmlns="urn:x-q" cx="50" cy="50" r="50" fill="red"/>',
                             '<svg:rect xmlns:svg="urn:x-not-svg" width="99" height="99" fill="red"/>'])
        if kind == 'foreign_style_elem':
            css = r.choice(['* { fill: red !important; stroke: lime; stroke-width: 7 }', 'rect, path, circle, text { display: none }',
                            'g { opacity: 0.2 } rect { transform: none; fill: #f0f }'])
            return r.choice(['<vq:style xmlns:vq="urn:x-q">%s</vq:style>' % css, '<style xmlns="urn:x-q" type="text/css">%s</style>' % css])
        if kind == 'display_none':
            i = self.nid()
            return r.choice(['<g display="none" id="%s">%s%s</g>' % (i, self.shape(), self.shape()),
                             '<g style="display:none" id="%s">%s</g>' % (i, self.shape()),
                             '<rect display="none" id="%s" width="80" height="80" fill="red" opacity="0.5"/>' % i,
                             '<svg display="none" id="%s" width="50" height="50">%s</svg>' % (i, self.shape()),
                             '<g display="none" id="%s" opacity="0.3" transform="translate(5)"><g>%s</g></g>' % (i, self.shape()),
                             '<text display="none" id="%s" x="5" y="20">hidden</text>' % i,
                             '<circle style="display:none" id="%s" r="40" fill="url(#%s)"/>' % (i, self.nid()),
                             '<defs><rect id="%s" width="40" height="40" fill="red"/></defs><use display="none" href="#%s" x="5"/>' % (i, i),
                             '<symbol id="%s"><circle r="30" fill="red"/></symbol><use style="display:none" href="#%s" width="50" height="50"/>' % (i, i)])
        if kind == 'def':
            i = self.nid()
            return r.choice([
                '<linearGradient id="%s"><stop offset="0" stop-color="red"/><stop offset="1" stop-color="blue"/></linearGradient>' % i,
                '<radialGradient id="%s" r="0.7"><stop offset="0.2" stop-color="#fff"/><stop offset="1"/></radialGradient>' % i,
                '<pattern id="%s" width="10" height="10" patternUnits="userSpaceOnUse">%s</pattern>' % (i, self.shape()),
                '<clipPath id="%s"><rect width="40" height="40"/></clipPath>' % i,
                '<clipPath id="%s" clipPathUnits="objectBoundingBox"><circle cx="0.5" cy="0.5" r="0.4"/></clipPath>' % i,
                '<mask id="%s"><rect width="100" height="100" fill="white"/></mask>' % i,
                '<filter id="%s"><feFlood flood-color="red"/><feGaussianBlur stdDeviation="2"/></filter>' % i,
                '<filter id="%s" filterUnits="userSpaceOnUse" x="0" y="0" width="50" height="50"><feOffset dx="3"/></filter>' % i,
                '<marker id="%s" markerWidth="8" markerHeight="8"><circle cx="4" cy="4" r="3"/></marker>' % i,
                '<symbol id="%s" viewBox="0 0 10 10">%s</symbol>' % (i, self.shape()),
                '<defs id="%s">%s<linearGradient id="%s"/></defs>' % (i, self.shape(), self.nid()),
            ])
        if kind == 'cond':
            i = self.nid()
            u = r.choice(self.langs)
            # near misses of the configured languages: they begin with a user language but neither equal it nor continue with `-`;
            # a user language that is LONGER than the entry; the user language as a later subtag; lists of such entries
            near = [u + 'm', u + 'g', u + '_US', u + '2', u + 'x-US', 'x' + u, 'x-' + u, u[:-1] or 'q', u + u, u + '.', u + ' x']
            if '-' in u:
                near += [u.split('-')[0], u + 'A', u.split('-')[0] + '-' + u.split('-')[1][:-1]]
            near = [x for x in near if x not in self.langs and x.split('-')[0] not in self.langs]
            c = r.choice(['systemLanguage="xx"', 'systemLanguage="xx-YY, zz"', 'systemLanguage=""',
                          'systemLanguage="%s"' % r.choice(near), 'systemLanguage="%s"' % r.choice(near),
                          'systemLanguage="%s, %s"' % (r.choice(near), r.choice(near)), 'systemLanguage=" %s ,zz,%s"' % (r.choice(near), r.choice(near)),
                          'requiredExtensions="http://example.org/vf"', 'requiredExtensions=""', 'requiredExtensions=" "',
                          'requiredExtensions="http://www.w3.org/1999/xhtml"',
                          'requiredFeatures="http://www.w3.org/TR/SVG11/feature#VfNope"',
                          'requiredFeatures="http://www.w3.org/TR/SVG11/feature#Shape nope"',
                          # near misses of supported feature strings
                          'requiredFeatures="http://www.w3.org/TR/SVG11/feature#Shap"', 'requiredFeatures="http://www.w3.org/TR/SVG11/feature#Shape2"',
                          'requiredFeatures="http://www.w3.org/TR/SVG11/feature#shape"', 'requiredFeatures="http://www.w3.org/TR/SVG12/feature#Shape"',
                          'requiredFeatures="feature#Shape"', 'requiredFeatures="http://www.w3.org/TR/SVG11/feature#Font"',
                          'requiredFeatures="http://www.w3.org/TR/SVG11/feature#Shape http://www.w3.org/TR/SVG11/feature#BasicFont"',
                          'requiredFeatures="http://www.w3.org/TR/SVG11/feature#Shape,http://www.w3.org/TR/SVG11/feature#Text"'])
            return r.choice(['<g id="%s" %s>%s</g>' % (i, c, self.shape()),
                             '<rect id="%s" %s width="70" height="70" fill="red"/>' % (i, c),
                             '<circle id="%s" %s r="50" fill="blue" opacity="0.5"/>' % (i, c),
                             '<text id="%s" %s x="3" y="30">no</text>' % (i, c),
                             '<defs><rect id="%s" width="40" height="40" fill="red"/></defs><use %s href="#%s" x="5"/>' % (i, c, i)])
        if kind == 'zero':
            i = self.nid()
            deco = r.choice(['', 'opacity="0.5"', 'transform="translate(3 4)"', 'style="isolation:isolate"',
                             'style="mix-blend-mode:multiply"', 'clip-path="url(#%s)"' % self.nid(), 'mask="url(#%s)"' % self.nid(),
                             'opacity="0.2" transform="rotate(30)" style="mix-blend-mode:screen;isolation:isolate"',
                             'fill="url(#%s)" stroke="red" stroke-width="5"' % self.nid(),
                             # an element without geometry has no region for a filter FUNCTION or for an objectBoundingBox filter:
                             # nothing may remain of it - in particular no generated filter id may be consumed
                             'filter="blur(2)"', 'filter="sepia()"', 'filter="drop-shadow(3 3 2 red)"', 'filter="grayscale(0.5) blur(1)"',
                             'filter="hue-rotate(90deg)" opacity="0.5"', 'style="filter:invert(1)"', 'filter="url(#vf_missing)"',
                             'filter="url(#%s)"' % self.nid(), 'filter="blur(1) url(#vf_missing)"',
                             # dd154cd: a filter attribute without effect TOGETHER with a mask / clip-path link - to an inserted definition,
                             # to a definition of the document (ref_ids; tl_om / tl_oc / mOK / cpOK exist in the generated documents):
                             # the link must not be resolved (an objectBoundingBox mask would be registered, content converted early)
                             'filter="none" mask="url(#%s)"' % self.nid(), 'filter="none" clip-path="url(#%s)"' % self.nid(),
                             'filter="blur(2)" mask="url(#%s)"' % self.nid(), 'style="filter:none" mask="url(#%s)"' % self.nid(),
                             'filter="none" mask="url(#%s)"' % r.choice(self.ref_ids), 'filter="none" clip-path="url(#%s)"' % r.choice(self.ref_ids),
                             'filter="sepia()" mask="url(#%s)" clip-path="url(#%s)"' % (r.choice(self.ref_ids), r.choice(self.ref_ids)),
                             'filter="url(#vf_missing)" mask="url(#%s)"' % r.choice(self.ref_ids),
                             'filter="none" mask="url(#tl_om)"', 'filter="none" clip-path="url(#tl_oc)" mask="url(#tl_om)"',
                             'filter="none" mask="url(#mOK)" clip-path="url(#cpOK)"'])
            # clip-path / mask that exist (inserted right behind the shape) as well as missing ones
            extra = ''
            m = re.search(r'(clip-path|mask|filter)="url\(#(vf_\d+)\)"', deco)
            if m and (r.below(2) or 'filter="none"' in deco or 'filter:none' in deco):
                extra = ('<clipPath id="%s"><rect width="9" height="9"/></clipPath>' % m.group(2) if m.group(1) == 'clip-path'
                         else '<mask id="%s"><rect width="9" height="9" fill="white"/></mask>' % m.group(2) if m.group(1) == 'mask'
                         else '<filter id="%s"><feFlood flood-color="red"/></filter>' % m.group(2))     # objectBoundingBox region: needs a bbox
            s = r.choice(['<rect id="%s" width="0" height="10" %s/>', '<rect id="%s" width="10" height="0" %s/>',
                          '<rect id="%s" x="4" y="4" %s/>', '<rect id="%s" width="-5" height="10" %s/>',
                          '<circle id="%s" cx="5" cy="5" r="0" %s/>', '<circle id="%s" %s/>',
                          '<ellipse id="%s" rx="0" ry="5" %s/>', '<ellipse id="%s" rx="5" ry="0" %s/>',
                          '<polyline id="%s" points="5 5" %s/>', '<polygon id="%s" points="" %s/>', '<polygon id="%s" %s/>',
                          '<path id="%s" d="M 10 10" %s/>', '<path id="%s" %s/>', '<path id="%s" d="" %s/>',
                          '<path id="%s" d="L 10 10 20 20" %s/>'])
            return (s % (i, deco)) + extra
        if kind == 'badts':
            i = self.nid()
            t = r.choice(['scale(0)', 'scale(0 0)', 'matrix(0 0 0 0 10 10)', 'scale(0 3)', 'scale(2 0)', 'translate(5) scale(0)'])
            return r.choice(['<rect id="%s" width="50" height="50" fill="red" transform="%s"/>' % (i, t),
                             '<g id="%s" transform="%s">%s</g>' % (i, t, self.shape()),
                             '<circle id="%s" r="30" opacity="0.5" transform="%s"/>' % (i, t),
                             '<path id="%s" d="M 0 0 L 50 50 L 0 50 Z" stroke="red" transform="%s"/>' % (i, t),
                             '<defs><rect id="%s" width="40" height="40" fill="red"/></defs><use transform="%s" href="#%s" x="5"/>' % (i, t, i)])
        if kind == 'singular':
            i = self.nid()
            t = r.choice(['matrix(1 2 2 4 300 300)', 'matrix(2 1 4 2 500 0)', 'matrix(1 1 1 1 0 400)', 'matrix(0 1 0 1 350 350)'])
            return r.choice(['<rect id="%s" width="50" height="50" fill="red" transform="%s"/>' % (i, t),
                             '<g id="%s" transform="%s">%s</g>' % (i, t, self.shape())])
        raise ValueError(kind)

    def make_attr(self):
        r = self.rng
        if r.below(4) == 0:
            return r.choice([' vf-junk="1"', ' data-vf="x y"', ' vf:a="2" xmlns:vf="urn:x-vf"', ' vfunknownattr=""'])
        # foreign-namespace attributes whose LOCAL names are the ones usvg treats specially, with values that would
        # visibly change the result if they were honoured
        a = r.choice(['vq:style="fill:red;stroke:lime;stroke-width:9;opacity:0.4"', 'vq:style="display:none"',
                      'vq:class="%s"' % r.choice(self.classes), 'vq:id="%s"' % r.choice(self.ref_ids),
                      'vq:transform="translate(40 30) scale(1.5)"', 'vq:transform="scale(0)"',
                      'vq:fill="red" vq:stroke="blue" vq:stroke-width="12"', 'vq:href="#%s"' % r.choice(self.ref_ids),
                      'vq:display="none"', 'vq:opacity="0.2"', 'vq:visibility="hidden"',
                      'vq:d="M 0 0 L 150 150 L 0 150 Z"', 'vq:width="7" vq:height="300"', 'vq:x="60" vq:y="-20"', 'vq:r="3"', 'vq:rx="1" vq:ry="90"',
                      'vq:points="0 0 99 0 0 99"', 'vq:filter="url(#vf_none)"', 'vq:clip-path="url(#%s)"' % r.choice(self.ref_ids),
                      'vq:mask="url(#%s)"' % r.choice(self.ref_ids), 'vq:viewBox="0 0 10 10"', 'vq:preserveAspectRatio="none"',
                      'vq:systemLanguage="xx"', 'vq:requiredExtensions="x"', 'vq:font-size="80"', 'vq:text-anchor="end"',
                      'vq:offset="0.9" vq:stop-color="red"', 'vq:gradientTransform="scale(0.1)"', 'vq:patternUnits="userSpaceOnUse"',
                      'vq:marker-start="url(#%s)"' % r.choice(self.ref_ids), 'vq:type="text/x-not-css"', 'vq:space="preserve"'])
        return ' xmlns:vq="urn:x-q" ' + a


def insert_junk(text, rng, kinds, lo=1, hi=8, elements_ok=True, langs=('en',)):
    """-> (new text, list of (offset, kind, junk text)).  1..8 items of each kind at random structural positions."""
    points, tags = scan(text)
    if not points:
        return None, []
    jk = Junk(rng, text, langs)
    items = []
    for kind in kinds:
        if kind == 'attr':
            if not tags:
                continue
            for _ in range(lo + rng.below(hi - lo + 1)):
                items.append((rng.choice(tags), kind, jk.make_attr()))
            continue
        if not elements_ok and kind not in ('comment', 'pi', 'ws'):
            continue
        for _ in range(lo + rng.below(hi - lo + 1)):
            pt, junk = rng.choice(points), jk.make(kind)
            if pt in IN_DEFS:
                junk = re.sub(r'="url\(#(?!vf_)[^)]*\)"', '="url(#vf_missing)"', junk)
            items.append((pt, kind, junk))
    return apply_items(text, items), items


def apply_items(text, items):
    # several xmlns:vf declarations / equal attributes on one tag would be malformed: one attribute item per tag
    seen_tag = set()
    use = []
    for it in items:
        if it[1] == 'attr':
            if it[0] in seen_tag:
                continue
            seen_tag.add(it[0])
        use.append(it)
    out = text
    for off, kind, s in sorted(use, key=lambda x: -x[0]):
        out = out[:off] + s + out[off:]
    return out


def hexdoc(text):
    return 'hex:' + text.encode('utf-8').hex()


# ------------------------------------------------------------------------------------------------
# convert-skel: generated element trees, the model's attrs, the dump's skeleton
# ------------------------------------------------------------------------------------------------
SHAPES = ['rect', 'circle', 'ellipse', 'line', 'polyline', 'polygon', 'path']
TAGC = {'rect': 'T_Rect', 'circle': 'T_Circle', 'ellipse': 'T_Ellipse', 'line': 'T_Line', 'polyline': 'T_Polyline',
        'polygon': 'T_Polygon', 'path': 'T_Path', 'g': 'T_G', 'switch': 'T_Switch', 'defs': 'T_Defs',
        'linearGradient': 'T_LinearGradient', 'symbol': 'T_Symbol', 'marker': 'T_Marker', 'pattern': 'T_Pattern', 'svg': 'T_Svg'}
DEFS = ('<clipPath id="cpOK"><rect width="500" height="500"/></clipPath>'
        '<mask id="mOK" maskUnits="userSpaceOnUse" x="0" y="0" width="500" height="500"><rect width="500" height="500" fill="white"/></mask>'
        '<filter id="fOK" filterUnits="userSpaceOnUse" x="0" y="0" width="300" height="300"><feFlood flood-color="green" flood-opacity="0.5"/></filter>'
        '<linearGradient id="lgX"><stop offset="0" stop-color="red"/></linearGradient>')


TS_ROWS = {'': (1, 0, 0, 1, 0, 0), 'translate(3 4)': (1, 0, 0, 1, 3, 4), 'scale(0)': (0, 0, 0, 0, 0, 0), 'translate(0)': (1, 0, 0, 1, 0, 0),
           'matrix(1 2 2 4 0 0)': (1, 2, 2, 4, 0, 0), 'scale(0.00000001)': (1e-8, 0, 0, 1e-8, 0, 0), 'scale(0 3)': (0, 0, 0, 3, 0, 0),
           'matrix(0 0 0 0 5 5)': (0, 0, 0, 0, 5, 5), 'matrix(2 1 4 2 9 9)': (2, 1, 4, 2, 9, 9), 'matrix(1 1 1 1.5 0 0)': (1, 1, 1, 1.5, 0, 0), 'scale(0.001)': (0.001, 0, 0, 0.001, 0, 0), 'matrix(0 1 0 0 0 0)': (0, 1, 0, 0, 0, 0)}


def positional_docs(rng, n):
    """documents whose style sheet uses :first-child and the + combinator; only comments, PIs, whitespace and attributes are
    inserted into these (an inserted ELEMENT legitimately changes positional matching)"""
    docs = []
    rules = ['rect:first-child { fill: red }', 'circle + rect { fill: blue }', 'g > path:first-child { stroke: lime; stroke-width: 5 }',
             'rect + rect { opacity: 0.5 }', 'path + circle { fill: orange }', '* + g { opacity: 0.6 }', 'g:first-child rect { stroke: black; stroke-width: 3 }',
             'rect + circle + rect { fill: #0ff }', '.k + .k { fill: purple }', 'circle:first-child { display: none }', 'g + g > rect:first-child { fill: yellow }']
    seps = ['', '', '\n  ', ' ', '\n<!-- existing comment -->\n', '<?existing pi?>', '\n\n\t']
    for _ in range(n):
        css = ' '.join(rng.sample(rules, 3 + rng.below(4)))
        k = [0]

        def elems(depth):
            out = ''
            for _ in range(2 + rng.below(4)):
                k[0] += 1
                x, y = 10 + rng.below(120), 10 + rng.below(120)
                t = rng.below(5 if depth < 2 else 4)
                cls = ' class="k"' if rng.below(3) == 0 else ''
                if t == 0:
                    e = '<rect id="e%d"%s x="%d" y="%d" width="40" height="30" fill="green"/>' % (k[0], cls, x, y)
                elif t == 1:
                    e = '<circle id="e%d"%s cx="%d" cy="%d" r="18" fill="gray"/>' % (k[0], cls, x, y)
                elif t == 2:
                    e = '<path id="e%d"%s d="M %d %d l 40 10 l -20 30 z" fill="teal"/>' % (k[0], cls, x, y)
                elif t == 3:
                    e = '<rect id="e%d"%s x="%d" y="%d" width="25" height="25"/>' % (k[0], cls, x, y)
                else:
                    e = '<g id="e%d">%s</g>' % (k[0], elems(depth + 1))
                out += rng.choice(seps) + e
            return out + rng.choice(seps)
        docs.append('<svg %s width="200" height="200"><style>%s</style>%s</svg>' % (NS, css, elems(0)))
    return docs


ID_TAIL = ('<defs><clipPath id="tl_oc" clipPathUnits="objectBoundingBox"><rect width="0.5" height="1"/></clipPath>'
           '<mask id="tl_om" maskContentUnits="objectBoundingBox"><rect width="1" height="0.5" fill="white"/></mask>'
           '<filter id="tl_of"><feOffset dx="2" dy="1"/></filter>'
           '<linearGradient id="tl_lg"><stop offset="0" stop-color="red"/><stop offset="1" stop-color="blue"/></linearGradient>'
           '<radialGradient id="tl_rg"><stop offset="0" stop-color="white"/><stop offset="1" stop-color="green"/></radialGradient>'
           '<pattern id="tl_pt" width="0.25" height="0.25"><rect width="4" height="4" fill="purple"/></pattern>'
           '<symbol id="tl_sy" viewBox="0 0 10 10"><rect width="20" height="10" fill="brown"/></symbol>'
           '<marker id="tl_mk" markerWidth="6" markerHeight="6" viewBox="0 0 3 3"><circle cx="2" cy="2" r="3" fill="red"/></marker>'
           '<path id="tl_ip" d="M 0 0 L 9 9 L 0 9 Z" fill="orange"/><filter id="tl_fi"><feImage xlink:href="#tl_ip"/></filter></defs>'
           '<rect x="5" y="150" width="30" height="20" clip-path="url(#tl_oc)" mask="url(#tl_om)" filter="url(#tl_of)" fill="url(#tl_lg)" stroke="url(#tl_rg)"/>'
           '<rect x="45" y="150" width="40" height="30" clip-path="url(#tl_oc)" mask="url(#tl_om)" filter="url(#tl_of)" fill="url(#tl_lg)" stroke="url(#tl_rg)" transform="translate(0 4)"/>'
           '<circle cx="110" cy="165" r="14" fill="url(#tl_pt)" stroke="url(#tl_pt)" stroke-width="3"/><rect x="130" y="150" width="20" height="20" fill="url(#tl_pt)"/>'
           '<rect x="155" y="150" width="20" height="20" fill="teal" filter="blur(1)"/><rect x="180" y="150" width="15" height="20" fill="gold" filter="sepia() hue-rotate(30deg)"/>'
           '<svg x="5" y="175" width="30" height="20" viewBox="0 0 10 10"><circle cx="5" cy="5" r="9" fill="navy"/></svg>'
           '<use xlink:href="#tl_sy" x="45" y="175" width="30" height="15"/><use xlink:href="#tl_sy" x="85" y="175" width="20" height="20"/>'
           '<path d="M 115 180 L 140 190 L 165 178" fill="none" stroke="black" marker-start="url(#tl_mk)" marker-end="url(#tl_mk)"/>'
           '<rect x="170" y="175" width="25" height="20" filter="url(#tl_fi)"/>')


def cstr(s):
    return '"%s"' % s.replace('"', '""')


class Skel:
    def __init__(self, rng):
        self.rng = rng
        self.n = 0

    def elem(self, depth, in_switch=False):
        r = self.rng
        self.n += 1
        eid = "e%d" % self.n
        k = r.below(100)
        if depth >= 3 or k < 55:
            tag = r.choice(SHAPES)
        elif k < 80:
            tag = 'g'
        elif k < 88:
            tag = 'switch'
        else:
            tag = r.choice(['defs', 'linearGradient', 'symbol', 'marker', 'pattern'])
        a = dict(tag=tag, id=eid, display_none=r.below(12) == 0, ts=r.choice(['', '', '', '', 'translate(3 4)', 'translate(0)'] + list(TS_ROWS.keys())),
                 opacity=r.choice([None, None, None, '0.5', '1']), blend=r.below(10) == 0, isolate=r.below(10) == 0,
                 clip=r.choice([None] * 6 + ['cpOK', 'lgX', 'missing']), mask=r.choice([None] * 6 + ['mOK', 'lgX']),
                 filter=r.choice([None] * 6 + ['fOK', 'none', 'missing', 'fOK']),
                 cond=r.choice([None] * 8 + ['lang', 'lang', 'lang', 'ext', 'feat_ok', 'feat_bad']), valid=r.below(5) != 0, children=[],
                 langval=r.choice(['en', 'xx', 'enm', 'eng, en_US', 'xx, en-GB', 'e', 'en-', 'x-en', ' en ', 'de,en', 'EN', 'en2, enx-US', '']))
        if in_switch and r.below(2):
            a['cond'] = r.choice(['lang', 'lang', 'ext', 'feat_bad'])
        if tag in ('g', 'defs', 'symbol', 'marker', 'pattern'):
            a['children'] = [self.elem(depth + 1) for _ in range(r.below(4))]
        elif tag == 'switch':
            a['children'] = [self.elem(depth + 1, True) for _ in range(r.below(4))]
        return a

    def doc(self):
        self.n = 0
        kids = [self.elem(0) for _ in range(1 + self.rng.below(5))]
        return kids


def skel_xml(a):
    at = ['id="%s"' % a['id']]
    t = a['tag']
    style = []
    if a['display_none']:
        at.append('display="none"')
    if a['ts']:
        at.append('transform="%s"' % a['ts'])
    if a['opacity'] is not None:
        at.append('opacity="%s"' % a['opacity'])
    if a['blend']:
        style.append('mix-blend-mode:multiply')
    if a['isolate']:
        style.append('isolation:isolate')
    if style:
        at.append('style="%s"' % ';'.join(style))
    if a['clip']:
        at.append('clip-path="url(#%s)"' % a['clip'])
    if a['mask']:
        at.append('mask="url(#%s)"' % a['mask'])
    if a['filter']:
        at.append('filter="%s"' % ('none' if a['filter'] == 'none' else 'url(#%s)' % a['filter']))
    c = a['cond']
    if c == 'lang':
        at.append('systemLanguage="%s"' % a['langval'])
    elif c == 'ext':
        at.append('requiredExtensions="http://example.org/x"')
    elif c == 'feat_ok':
        at.append('requiredFeatures="http://www.w3.org/TR/SVG11/feature#Shape"')
    elif c == 'feat_bad':
        at.append('requiredFeatures="http://www.w3.org/TR/SVG11/feature#Nope"')
    v = a['valid']
    if t == 'rect':
        at.append('x="10" y="10" width="%s" height="40"' % ('50' if v else '0'))
    elif t == 'circle':
        at.append('cx="50" cy="50" r="%s"' % ('20' if v else '0'))
    elif t == 'ellipse':
        at.append('cx="50" cy="50" rx="20" ry="%s"' % ('10' if v else '0'))
    elif t == 'line':
        at.append('x1="5" y1="5" x2="80" y2="60"')
    elif t in ('polyline', 'polygon'):
        at.append('points="%s"' % ('10 10 60 20 30 70' if v else '10 10'))
    elif t == 'path':
        at.append('d="%s"' % ('M 10 10 L 60 20 L 30 70 Z' if v else 'M 10 10'))
    if t in SHAPES:
        at.append('fill="#aa3311" stroke="blue"')
    if t == 'linearGradient':
        return '<linearGradient %s><stop offset="0" stop-color="red"/></linearGradient>' % ' '.join(at)
    inner = ''.join(skel_xml(ch) for ch in a['children'])
    return '<%s %s>%s</%s>' % (t, ' '.join(at), inner, t)


def skel_coq(a):
    t = a['tag']
    v = a['valid']
    geom = dict(w='0', h='0', r='0', rx='0', ry='0', np='0')
    if t == 'rect':
        geom.update(w='50' if v else '0', h='40')
    elif t == 'circle':
        geom.update(r='20' if v else '0')
    elif t == 'ellipse':
        geom.update(rx='20', ry='10' if v else '0')
    elif t == 'line':
        geom.update(np='2')
    elif t in ('polyline', 'polygon'):
        geom.update(np='3' if v else '1')
    elif t == 'path':
        geom.update(np='4' if v else '1')
    c = a['cond']
    flt = 'FA_Absent' if a['filter'] is None else ('FA_NoneValue' if a['filter'] == 'none' else '(FA_Value %s)' % cstr(a['filter']))
    # a link to a missing element is no link at all (attribute::<SvgNode> is None)
    clip = 'None' if a['clip'] in (None, 'missing') else '(Some %s)' % cstr(a['clip'])
    mask = 'None' if a['mask'] in (None, 'missing') else '(Some %s)' % cstr(a['mask'])
    attrs = ("{| a_id := %s; a_display_none := %s; a_ts_valid := %s; a_ts_identity := %s; a_req_ext := %s; a_features_known := %s; "
             "a_syslang_ok := %s; a_opacity := %s; a_blend_normal := %s; a_isolate := %s; a_clip := %s; a_mask := %s; a_filter := %s; "
             "a_width := %s; a_height := %s; a_r := %s; a_rx := %s; a_ry := %s; a_npoints := %s%%N |}"
             % (cstr(a['id']), b(a['display_none']), '(usvg_ts_valid (from_row %s))' % ' '.join(vlib.qstr(float(np_f32(x))) for x in TS_ROWS[a['ts']]),
                b(TS_ROWS[a['ts']] == (1, 0, 0, 1, 0, 0)),
                b(c == 'ext'), b(c != 'feat_bad'),
                ('(sys_lang_ok ["en"] [%s])' % '; '.join(cstr(x.strip()) for x in a['langval'].split(','))) if c == 'lang' else 'true',
                '(1#2)' if a['opacity'] == '0.5' else '1', b(not a['blend']), b(a['isolate']), clip, mask, flt,
                geom['w'], geom['h'], geom['r'], geom['rx'], geom['ry'], geom['np']))
    kids = 'NNil'
    for ch in reversed(a['children']):
        kids = '(NCons %s %s)' % (skel_coq(ch), kids)
    return '(Node (Some %s) %s %s)' % (TAGC[t], attrs, kids)


def b(x):
    return 'true' if x else 'false'


def np_f32(x):
    import struct
    return struct.unpack('f', struct.pack('f', x))[0]


def dump_coq(n):
    """dump node -> Coq onode term"""
    if n['t'] == 'g':
        ident = [float(x) for x in n['ts']] == [1, 0, 0, 1, 0, 0]
        op = vlib.qstr(n['opacity'])
        pr = ("{| gp_opacity := %s; gp_ts_identity := %s; gp_blend_normal := %s; gp_isolate := %s; gp_clip := %s; gp_mask := %s; gp_filters := [%s] |}"
              % (op, b(ident), b(n['blend'] == 'Normal'), b(n['isolate']),
                 '(Some %s)' % cstr(n['clip']['id']) if n.get('clip') else 'None',
                 '(Some %s)' % cstr(n['mask']['id']) if n.get('mask') else 'None',
                 '; '.join(cstr(f['id']) for f in n.get('filters', []))))
        return '(OGroup %s %s [%s])' % (cstr(n['id']), pr, '; '.join(dump_coq(c) for c in n['children']))
    kind = {'path': 'T_Path', 'image': 'T_Image', 'text': 'T_Text'}[n['t']]
    return '(OLeaf %s %s)' % (kind, cstr(n['id']))


# ------------------------------------------------------------------------------------------------
def check_pairs(ctx, binp, label, cases, op='c11-pair'):
    """cases: list of dict(name, opts, a (doc spec), b_text, items, base_text).  Returns list of failing cases."""
    payloads = ["%s\t%s\t%s" % (c['opts'], c['a'], hexdoc(c['b_text'])) for c in cases]
    outs = ctx.rvh_batch(binp, op, payloads, per_item_timeout=40)
    bad = []
    for c, o in zip(cases, outs):
        try:
            r = json.loads(o)
        except (TypeError, ValueError):
            r = {'error': 'unparsable output %r' % (o,)}
        c['result'] = r
        ctx.note_case("%s/%s/%d" % (label, c['name'], len(c['items'])), nontrivial=r.get('nonblank', 1) > 0 or op != 'c11-pair')
        if not pair_ok(r, op):
            bad.append(c)
    return bad


def pair_ok(r, op):
    if op == 'svgtree-filter':
        return r.get('equal') is True
    if r.get('both_error'):
        return r.get('same_error') is True
    return r.get('text_equal') is True and r.get('ndiff') == 0 and r.get('size_equal') is True


def minimise(ctx, binp, c, op):
    """greedy reduction of the insertion list that still fails"""
    items = list(c['items'])
    base = c['base_text']

    def fails(sub):
        o = ctx.rvh_batch(binp, op, ["%s\t%s\t%s" % (c['opts'], c['a'], hexdoc(apply_items(base, sub)))], per_item_timeout=40)[0]
        try:
            return not pair_ok(json.loads(o), op)
        except (TypeError, ValueError):
            return True
    n = 2
    while len(items) >= 2:
        chunk = max(1, len(items) // n)
        reduced = False
        for st in range(0, len(items), chunk):
            sub = items[:st] + items[st + chunk:]
            if sub and fails(sub):
                items = sub
                n = max(n - 1, 2)
                reduced = True
                break
        if not reduced:
            if chunk == 1:
                break
            n = min(len(items), n * 2)
    return items


def report(ctx, binp, c, op, what):
    items = minimise(ctx, binp, c, op)
    doc_b = apply_items(c['base_text'], items)
    ctx.violation("%s: %s changes after inserting %s into %s" %
                  (op, what, ", ".join("%s %r" % (k, s[:70]) for _, k, s in items[:3]), c['name']),
                  dict(op=op, opts=c['opts'], doc_a=c['a'] if c['a'].startswith('@') else c['base_text'], doc_b=doc_b,
                       inserted=[dict(offset=o, kind=k, text=s) for o, k, s in items], result=c.get('result'),
                       replay="rvh %s  <<< '0\\t<opts>\\t<doc_a>\\thex(<doc_b>)'" % op))


def run(ctx):
    rng = ctx.rng
    quick = ctx.tier == 'quick'
    ctx.cov['trusted_base'] = vlib.BASE_TRUSTED + [
        "tools/gen_converter.py anchors (regular expressions over converter.rs, switch.rs, shapes.rs, mask.rs, clippath.rs, filter.rs, svgtree/mod.rs, svgtree/parse.rs) "
        "and its function splitter / call-site patterns over crates/usvg/src/parser/*.rs (table call_sites)",
        "leaf converters (convert_path styling, image, text, use_node, filter resolution, linked masks / clip paths), roxmltree, simplecss: abstract in "
        "the model, exercised by the correspondence and the insertion oracle only; what mask::convert / clippath::convert do to the cache is modelled "
        "(Model/ConvCache.v over mask_steps / clip_steps) and compared with the real ids by cache-reg",
    ]
    ctx.assumptions = ["documents with positional CSS selectors (:first-child, sibling combinators) receive comments, PIs, whitespace and attributes only: "
                       "an inserted ELEMENT legitimately changes positional matching",
                       "inserted ids come from the reserved namespace vf_*; the 64-bit string hash of Cache::all_ids is collision-free on the document's ids",
                       "insertions only where all ancestors are container elements (svg, g, defs, symbol, marker, mask, pattern, clipPath, a); "
                       "never inside text content or switch",
                       "a zero-size shape with a filter LINK to a filter with a userSpaceOnUse region is not inserted (a filter on an empty element can paint); "
                       "zero-size shapes with filter functions, objectBoundingBox filters or missing links are inserted and must leave nothing",
                       "an inserted zero-size shape that links a clipPath / mask OF THE DOCUMENT is placed outside definition content (defs, symbol, marker, "
                       "mask, pattern, clipPath): inside it could close a reference cycle, which fix_recursive_links breaks by editing rendered content",
                       "has_valid_transform's determinant test is computed in f64 in the source and idealised as exact in the model"]
    broken = ctx.translate()
    res = ctx.coq_props(extra_targets=['Model/Corr.v'])
    proof_ok = res['ok'] and not broken

    binp, blog = ctx.harness('release')
    if binp is None:
        ctx.violation("harness does not build against the current tree (correspondence cannot run)",
                      dict(build_log=blog[-2000:]), found_input=False)
        return

    files = vlib.corpus_files()
    wit = [os.path.join(vlib.VERIF, 'corpus', 'witness', f) for f in ('F26.svg', 'C11-foreign-style.svg', 'C11-singular-transform.svg')]
    nfiles = 800 if quick else len(files)
    sample = rng.sample(files, nfiles) if nfiles < len(files) else list(files)
    # files that always take part: anything about switch / systemLanguage / style / use / nested svg / markers
    always = [f for f in files if re.search(r"structure/(style|switch|systemLanguage|svg|symbol|defs)/|masking/clipPath/|painting/marker/", f)]
    if quick:
        always = rng.sample(always, min(60, len(always)))
    sample = sorted(set(sample + always)) + [w for w in wit if os.path.exists(w)]

    texts = {}
    for f in files:
        if f in sample:
            continue
        try:
            t = open(f, encoding='utf-8').read()
        except (OSError, UnicodeDecodeError):
            continue
        if positional_css(t):
            sample.append(f)        # the corpus has few documents with positional selectors: always all of them
    for f in sample:
        try:
            t = open(f, encoding='utf-8').read()
        except (OSError, UnicodeDecodeError):
            continue
        texts[f] = t

    # generated documents (also the convert-skel inputs)
    sk = Skel(rng)
    nskel = 150 if quick else 1500
    skels = []
    for _ in range(nskel):
        kids = sk.doc()
        xml = '<svg %s width="200" height="200">%s%s</svg>' % (NS, DEFS, ''.join(skel_xml(k) for k in kids))
        skels.append((kids, xml))
    pdocs = positional_docs(rng, 60 if quick else 500)
    # documents whose LATER elements receive generated ids of every kind (filter functions, objectBoundingBox clip / mask / filter /
    # gradients / patterns used twice, viewport clips of nested svg, symbol and marker, feImage): a counter moved by an inserted
    # element shows in the serialised tree
    idrich = []
    for i in range(40 if quick else 300):
        kids = sk.doc()
        idrich.append('<svg %s width="200" height="200">%s%s%s</svg>' % (NS, DEFS, ''.join(skel_xml(k) for k in kids), ID_TAIL))
    generated = ([("gen%d" % i, x) for i, (_, x) in enumerate(skels)] + [("pos%d" % i, x.replace('</svg>', ID_TAIL + '</svg>')) for i, x in enumerate(pdocs)]
                 + [("ids%d" % i, x) for i, x in enumerate(idrich)])
    ctx.cov['positional_css_documents'] = len(pdocs) + sum(1 for t in texts.values() if positional_css(t))

    # ------------------------------------------------------------------ K1 svgtree-filter
    cases = []
    for f, t in list(texts.items()) + generated:
        elems_ok = not positional_css(t)
        bt, items = insert_junk(t, rng, SVGTREE_KINDS + ['attr'], elements_ok=elems_ok)
        if bt is None or not items:
            continue
        isfile = f.startswith('/')
        cases.append(dict(name=f, opts=('res=%s' % os.path.dirname(f)) if isfile else '-', a=('@' + f) if isfile else hexdoc(t),
                          b_text=bt, items=items, base_text=t))
    bad = check_pairs(ctx, binp, 'svgtree', cases, op='svgtree-filter')
    ctx.cov['svgtree_filter_cases'] = len(cases)
    for c in bad[:3]:
        report(ctx, binp, c, 'svgtree-filter', 'the svgtree')
    if cases:
        ctx.add_sample(dict(op='svgtree-filter', file=cases[0]['name'], inserted=[s for _, _, s in cases[0]['items'][:3]]))

    # ------------------------------------------------------------------ K2 convert-skel
    outs = ctx.rvh_batch(binp, 'dump', ["-\t" + x for _, x in skels])
    coq_items = []
    idx_map = []
    for i, ((kids, xml), o) in enumerate(zip(skels, outs)):
        try:
            tree = json.loads(o)
        except (TypeError, ValueError):
            tree = {'error': 'unparsable'}
        if 'root' not in tree:
            ctx.violation("generated document failed to parse or crashed: %s" % str(tree)[:200], dict(doc=xml, result=tree))
            continue
        nodes = 'NNil'
        for k in reversed(kids):
            nodes = '(NCons %s %s)' % (skel_coq(k), nodes)
        real = '[%s]' % '; '.join(dump_coq(c) for c in tree['root']['children'])
        coq_items.append("(%s, %s)" % (nodes, real))
        idx_map.append(i)
        ctx.note_case("skel/" + xml)
    model_ok = True
    if coq_items:
        body = ("From Coq Require Import String.\nLocal Open Scope Q_scope.\nLocal Open Scope string_scope.\n"
                "Definition st0 : sim_state := {| ss_in_clip := false; ss_valid_links := [\"cpOK\"; \"mOK\"; \"fOK\"] |}.\n"
                "Definition cases : list (nodes * list onode) := [\n%s\n].\n"
                "Eval vm_compute in (bad_indices (fun p => let r := sim_children (fst p) false false st0 empty_cache root_group in "
                "onodes_eqb (og_ch (snd r)) (snd p)) cases).\n" % ";\n".join(coq_items))
        rc, out = ctx.coq_eval('k_skel', body, IMPORTS)
        badl = ctx.parse_N_list(out) if rc == 0 else None
        if badl is None:
            model_ok = False
            ctx.log("model evaluation failed:\n" + out[-1500:])
            ctx.violation("convert-skel: the model no longer evaluates (Model/Converter.v against Gen/ConvTables.v)",
                          dict(log=out[-1500:]), found_input=False)
        else:
            ctx.cov['convert_skel_cases'] = len(coq_items)
            for bi in badl[:3]:
                i = idx_map[bi]
                ctx.violation("convert-skel: converter skeleton model and usvg disagree on the groups/paths a document converts to",
                              dict(doc=skels[i][1], model_input=skel_coq(skels[i][0][0])[:400],
                                   real_children=json.loads(outs[i])['root']['children'] if outs[i] else None,
                                   replay="rvh dump <<< '0\\t-\\t<doc>' and compare with sim_children"))
    ctx.add_sample(dict(op='convert-skel', doc=skels[0][1][:600]))

    # ------------------------------------------------------------------ K3 gen-id
    gdocs = []
    for _ in range(10 if quick else 60):
        taken = sorted(set(rng.below(6) + 1 for _ in range(rng.below(5))))
        extra = ''.join('<rect id="clipPath%d" width="1" height="1"/>' % t for t in taken)
        junk = ''.join('<linearGradient id="vf_%d"/>' % rng.below(50) for _ in range(rng.below(4)))
        d = ('<svg %s width="100" height="100">%s%s<svg id="n1" x="5" y="5" width="40" height="40"><rect width="90" height="90"/></svg></svg>'
             % (NS, extra, junk))
        gdocs.append((taken, d))
    gouts = ctx.rvh_batch(binp, 'dump', ["-\t" + d for _, d in gdocs])
    gitems = []
    for (taken, d), o in zip(gdocs, gouts):
        try:
            tree = json.loads(o)
            cid = tree['clip_paths'][0]['id']
        except (TypeError, ValueError, KeyError, IndexError):
            ctx.violation("gen-id: nested svg did not produce a generated clip path", dict(doc=d, result=str(o)[:300]))
            continue
        ids = ['n1'] + ['clipPath%d' % t for t in taken]
        gitems.append('(%s, %s)' % ('[%s]' % '; '.join(cstr(x) for x in ids), cstr(cid)))
        ctx.note_case("genid/" + d)
    if gitems:
        body = ("From Coq Require Import String.\nLocal Open Scope string_scope.\n"
                "Definition fmt (n : N) : string := match n with 1%%N => \"1\" | 2%%N => \"2\" | 3%%N => \"3\" | 4%%N => \"4\" | 5%%N => \"5\" "
                "| 6%%N => \"6\" | 7%%N => \"7\" | 8%%N => \"8\" | _ => \"9\" end.\n"
                "Definition cases : list (list string * string) := [\n%s\n].\n"
                "Eval vm_compute in (bad_indices (fun p => match gen_id fmt 20 \"clipPath\" (fst p) 0 with Some (s, _) => String.eqb s (snd p) "
                "| None => false end) cases).\n" % ";\n".join(gitems))
        rc, out = ctx.coq_eval('k_genid', body, IMPORTS)
        badl = ctx.parse_N_list(out) if rc == 0 else None
        if badl is None:
            ctx.violation("gen-id: the model no longer evaluates", dict(log=out[-1500:]), found_input=False)
        else:
            for bi in badl[:2]:
                ctx.violation("gen-id: generated clip path id differs from the model (pre-scan / counter rule)",
                              dict(doc=gdocs[bi][1], result=gouts[bi][:300]))
            ctx.cov['gen_id_cases'] = len(gitems)

    # ------------------------------------------------------------------ K4 cache-reg (extension round 4)
    # the ids that clip-path / mask links resolve to (element id, cached definition, generated maskN / clipPathN) for sequences of
    # valid and zero-size shapes with / without a filter attribute: real tree == Model/ConvCache.v (mask_convert / clip_convert over
    # mask_steps / clip_steps) plugged into the converter skeleton.  Groups contain shapes only, so "has children" == "has a bbox".
    DEFS_C = ('<mask id="mO"><rect width="500" height="500" fill="white"/></mask>'
              '<mask id="mU" maskUnits="userSpaceOnUse" x="0" y="0" width="500" height="500"><rect width="500" height="500" fill="white"/></mask>'
              '<mask id="mC" maskContentUnits="objectBoundingBox"><rect width="1" height="1" fill="white"/></mask>'
              '<clipPath id="cO" clipPathUnits="objectBoundingBox"><rect width="1" height="1"/></clipPath>'
              '<clipPath id="cU"><rect width="500" height="500"/></clipPath>'
              # definitions that link another one: mask -> mask, clip-path on clipPath (cacheable only when the whole chain is)
              '<mask id="mL" mask="url(#mO)"><rect width="500" height="500" fill="white"/></mask>'
              '<mask id="mLU" maskUnits="userSpaceOnUse" x="0" y="0" width="500" height="500" mask="url(#mU)"><rect width="500" height="500" fill="white"/></mask>'
              '<clipPath id="cL" clip-path="url(#cO)"><rect width="500" height="500"/></clipPath>'
              '<clipPath id="cLU" clip-path="url(#cU)"><rect width="500" height="500"/></clipPath>'
              '<filter id="fOK" filterUnits="userSpaceOnUse" x="0" y="0" width="300" height="300"><feFlood flood-color="green" flood-opacity="0.5"/></filter>'
              '<linearGradient id="lgX"><stop offset="0" stop-color="red"/></linearGradient>')

    def reg_shape():
        a = sk.elem(3)
        a.update(clip=rng.choice([None] * 3 + ['cO', 'cO', 'cU', 'cL', 'cLU', 'lgX', 'missing']), mask=rng.choice([None] * 2 + ['mO', 'mO', 'mU', 'mC', 'mL', 'mLU', 'lgX']),
                 filter=rng.choice([None] * 3 + ['none', 'none', 'fOK', 'missing']), valid=rng.below(5) < 3,
                 ts=rng.choice(['', '', '', 'translate(3 4)', 'scale(0)']), cond=rng.choice([None] * 6 + ['ext']))
        return a
    rdocs = []
    for _ in range(120 if quick else 800):
        sk.n = 0
        kids = []
        for _ in range(2 + rng.below(5)):
            a = reg_shape()
            if rng.below(4) == 0:
                a['tag'] = 'g'
                a['children'] = [reg_shape() for _ in range(rng.below(4))]
                # nested groups, empty groups and content-less elements kept for their filter: the instance's bbox rule is
                # "the subtree contains a leaf"
                if rng.below(3) == 0:
                    g2 = reg_shape()
                    g2['tag'] = 'g'
                    g2['children'] = [reg_shape() for _ in range(rng.below(3))]
                    a['children'].insert(rng.below(len(a['children']) + 1), g2)
            kids.append(a)
        rdocs.append((kids, '<svg %s width="200" height="200">%s%s</svg>' % (NS, DEFS_C, ''.join(skel_xml(k) for k in kids))))
    # fixed patterns: a definition that is already registered meets an element WITHOUT a bounding box (empty group, zero-size shape
    # with an ineffective filter), then further users show the generated ids
    def fixed(tag, valid, clip, mask, flt):
        a = reg_shape()
        a.update(tag=tag, valid=valid, clip=clip, mask=mask, filter=flt, ts='', cond=None, display_none=False, opacity=None, blend=False, isolate=False,
                 children=[])
        return a
    for clip, mask in (('cO', None), (None, 'mO'), ('cO', 'mC'), ('cU', 'mU'), ('cO', 'mO'), ('cL', 'mL'), ('cLU', 'mLU'), ('cL', 'mO'), ('cO', 'mL')):
        for mid in (fixed('g', True, clip, mask, None), fixed('g', True, clip, mask, 'none'), fixed('rect', False, clip, mask, 'none'),
                    fixed('circle', False, clip, mask, 'missing'), fixed('path', False, clip, mask, 'fOK')):
            sk.n = 0
            kids = [fixed('rect', True, clip, mask, None), mid, fixed('ellipse', True, clip, mask, None), fixed('polygon', True, clip, mask, 'none')]
            for i, k in enumerate(kids):
                k['id'] = 'f%d' % i
            rdocs.append((kids, '<svg %s width="200" height="200">%s%s</svg>' % (NS, DEFS_C, ''.join(skel_xml(k) for k in kids))))
    routs = ctx.rvh_batch(binp, 'dump', ["-\t" + x for _, x in rdocs])
    ritems, rmap = [], []
    for i, ((kids, xml), o) in enumerate(zip(rdocs, routs)):
        try:
            tree = json.loads(o)
        except (TypeError, ValueError):
            tree = {'error': 'unparsable'}
        if 'root' not in tree:
            ctx.violation("cache-reg: generated document failed to parse or crashed: %s" % str(tree)[:200], dict(doc=xml, result=tree))
            continue
        nodes = 'NNil'
        for k in reversed(kids):
            nodes = '(NCons %s %s)' % (skel_coq(k), nodes)
        ritems.append("(%s, %s)" % (nodes, '[%s]' % '; '.join(dump_coq(c) for c in tree['root']['children'])))
        rmap.append(i)
        gen = len(re.findall(r'"id": ?"(?:mask|clipPath)\d+"', o or ''))
        ctx.note_case("cachereg/" + xml, nontrivial=gen > 0)
    if ritems:
        body = ("From Coq Require Import String.\nLocal Open Scope Q_scope.\nLocal Open Scope string_scope.\n"
                "Definition st0 : sim_state := {| ss_in_clip := false; ss_valid_links := [\"fOK\"] |}.\n"
                "Definition clips : defs_t := [(\"cO\", clip_obb \"cO\"); (\"cU\", clip_usou \"cU\"); (\"lgX\", not_a_def \"lgX\"); "
                "(\"cL\", with_link (clip_usou \"cL\") \"cO\" false); (\"cLU\", with_link (clip_usou \"cLU\") \"cU\" true)].\n"
                "Definition masks : defs_t := [(\"mO\", mask_obb \"mO\"); (\"mU\", mask_usou \"mU\"); (\"mC\", mask_cobb \"mC\"); (\"lgX\", not_a_def \"lgX\"); "
                "(\"mL\", with_link (mask_obb \"mL\") \"mO\" false); (\"mLU\", with_link (mask_usou \"mLU\") \"mU\" true)].\n"
                "Definition cases : list (nodes * list onode) := [\n%s\n].\n"
                "Eval vm_compute in (bad_indices (fun p => let r := simc_children fmt9 clips masks (fst p) false false st0 empty_cache root_group in "
                "onodes_eqb (og_ch (snd r)) (snd p)) cases).\n" % ";\n".join(ritems))
        rc, out = ctx.coq_eval('k_cachereg', body, IMPORTS)
        badl = ctx.parse_N_list(out) if rc == 0 else None
        if badl is None:
            ctx.log("cache-reg model evaluation failed:\n" + out[-1500:])
            ctx.violation("cache-reg: the model no longer evaluates (Model/ConvCache.v against Gen/ConvTables.v)", dict(log=out[-1500:]), found_input=False)
        else:
            ctx.cov['cache_reg_cases'] = len(ritems)
            for bi in badl[:3]:
                i = rmap[bi]
                ctx.violation("cache-reg: clip-path / mask ids of the converted tree differ from the cache model (mask_steps / clip_steps / group_steps)",
                              dict(doc=rdocs[i][1], real_children=json.loads(routs[i])['root']['children'] if routs[i] else None,
                                   replay="rvh dump <<< '0\\t-\\t<doc>' and compare with simc_children fmt9 clips masks"))
    ctx.add_sample(dict(op='cache-reg', doc=rdocs[0][1][:700]))

    # ------------------------------------------------------------------ S e2e-C11
    cases = []
    kinds_hist = {}
    for f, t in list(texts.items()) + generated:
        elems_ok = not positional_css(t)
        for rep in range(1 if quick else 2):
            # the `languages` option the pair is parsed with (default: en)
            langs = rng.choice([('en',), ('en',), ('de',), ('en-US', 'ru'), ('fr', 'en'), ('zh-Hant',)])
            bt, items = insert_junk(t, rng, ALL_KINDS, elements_ok=elems_ok, langs=langs)
            if bt is None or not items:
                continue
            for _, k, _ in items:
                kinds_hist[k] = kinds_hist.get(k, 0) + 1
            isfile = f.startswith('/')
            lo = '' if langs == ('en',) else 'lang=%s' % ','.join(langs)
            opts = ';'.join(x for x in ((('res=%s' % os.path.dirname(f)) if isfile else ''), lo) if x) or '-'
            cases.append(dict(name=f, opts=opts, a=('@' + f) if isfile else hexdoc(t), b_text=bt, items=items, base_text=t))
    # regression inputs: the witness with / without its non-rendered element
    wpath = os.path.join(vlib.VERIF, 'corpus', 'witness', 'C11-foreign-style.svg')
    if os.path.exists(wpath):
        wt = open(wpath).read()
        m = re.search(r'\s*<x:style\b.*?</x:style>', wt, flags=re.S)
        if m:
            base = wt[:m.start()] + wt[m.end():]
            cases.append(dict(name=wpath, opts='-', a=hexdoc(base), b_text=wt, items=[(m.start(), 'foreign_style_elem', m.group(0))], base_text=base))
    wpath = os.path.join(vlib.VERIF, 'corpus', 'witness', 'C11-singular-transform.svg')
    if os.path.exists(wpath):
        wt = open(wpath).read()
        m = re.search(r'\s*<rect [^>]*transform="matrix\(1 2 2 4 300 300\)"/>', wt)
        if m:
            base = wt[:m.start()] + wt[m.end():]
            cases.append(dict(name=wpath, opts='-', a=hexdoc(base), b_text=wt, items=[(m.start(), 'singular', m.group(0))], base_text=base))
    # dd154cd: zero-size shapes with a filter attribute and a mask / clip-path link (witness = document WITH the shapes)
    for wname in ('C11-zero-shape-filter-none-mask.svg', 'C11-zero-shape-filter-blur-mask.svg', 'C11-zero-shape-filter-none-clip.svg',
                  'C11-zero-shapes-shared-mask.svg'):
        wpath = os.path.join(vlib.VERIF, 'corpus', 'witness', wname)
        if not os.path.exists(wpath):
            ctx.violation("regression witness %s is missing" % wname, dict(path=wpath), found_input=False)
            continue
        wt = open(wpath).read().strip()
        its = [(m.start(), 'zero', m.group(0)) for m in re.finditer(r'<(?:rect|circle|mask) id="vf_[^>]*?(?:/>|>.*?</mask>)', wt)]
        base = wt
        for o, _, t in sorted(its, key=lambda x: -x[0]):
            base = base[:o] + base[o + len(t):]
        # offsets in the base text: every junk element is inserted at the position of the first one
        o0 = min(o for o, _, _ in its) if its else 0
        cases.append(dict(name=wpath, opts='-', a=hexdoc(base), b_text=wt, items=[(o0, k, t) for _, k, t in reversed(its)], base_text=base))
    bad = check_pairs(ctx, binp, 'e2e', cases)
    ctx.cov['e2e_cases'] = len(cases)
    ctx.cov['e2e_insertions_by_kind'] = kinds_hist
    oracle_found = False
    for c in bad[:4]:
        r = c['result']
        if 'crash' in r or 'panic' in r or 'error' in r:
            what = 'outcome (%s)' % str(r)[:120]
        elif r.get('error_a') or r.get('error_b') or r.get('both_error'):
            what = 'parse result'
        elif not r.get('text_equal', True):
            what = 'Tree::to_string'
        else:
            what = 'the rendering (%s pixels, max delta %s)' % (r.get('ndiff'), r.get('max'))
        report(ctx, binp, c, 'c11-pair', what)
        oracle_found = True
    if cases:
        ctx.add_sample(dict(op='c11-pair', file=cases[0]['name'], inserted=[s for _, _, s in cases[0]['items'][:4]]))

    # ------------------------------------------------------------------ proofs / tie broken and nothing concrete found
    if not proof_ok and not ctx.violations:
        # deeper search: every kind separately on more files
        extra = rng.sample(files, min(len(files), 600 if quick else len(files)))
        cases = []
        for f in extra:
            try:
                t = open(f, encoding='utf-8').read()
            except (OSError, UnicodeDecodeError):
                continue
            if positional_css(t):
                continue
            for k in CONV_KINDS:
                bt, items = insert_junk(t, rng, [k], lo=2, hi=6)
                if bt is not None and items:
                    cases.append(dict(name=f, opts='res=%s' % os.path.dirname(f), a='@' + f, b_text=bt, items=items, base_text=t))
        bad = check_pairs(ctx, binp, 'search', cases)
        for c in bad[:2]:
            report(ctx, binp, c, 'c11-pair', 'the result')
    if not proof_ok and not ctx.violations:
        ctx.violation("C11 proof obligations no longer check: %s %s" % (res['failed'] + res['audit'], [x['name'] + ': ' + x['err'] for x in broken]),
                      dict(failed_files=res['failed'], audit=res['audit'], broken_ties=broken, log_tail=res['log'][-3000:]),
                      found_input=False)
    ctx.cov['rule'] = ("svgtree-filter / e2e: corpus files (quick: ~300 sampled + structure/style/switch/clipPath/marker files; thorough: all) and generated "
                       "documents (incl. 60/500 documents with :first-child / + style sheets, which receive comments, PIs, whitespace and attributes only), "
                       "each with 1..8 insertions of every kind (comment, PI, whitespace, unknown element, foreign-namespace element - also with the local "
                       "names of real SVG elements -, unknown attribute, foreign-namespace attribute whose local name is style/class/id/transform/fill/href/"
                       "display/opacity/d/width/... with an effective value, display:none subtree, unreferenced definition of 9 sorts, failing conditional attribute, zero-size "
                       "shape with group-forming attributes, non-invertible transform) at random structural positions; convert-skel: random element "
                       "trees (7 shapes, g, switch, defs-like) x random attributes (display, transform, opacity, blend, isolation, clip/mask/filter "
                       "valid/invalid/missing, conditional attributes, valid/invalid geometry); cache-reg: 120/800 sequences of valid / zero-size shapes and groups x filter "
                       "absent/none/resolvable/missing x objectBoundingBox / userSpaceOnUse / content-objectBoundingBox masks x objectBoundingBox / userSpaceOnUse clip "
                       "paths, resolved ids (element id, cached, generated maskN / clipPathN) == Model/ConvCache.v, compared inside Coq.  Non-trivial: the rendering of the original is not blank; "
                       "distinct by file/document and insertion count.")


def replay(ctx, path):
    r = json.load(open(path))
    print(json.dumps({k: v for k, v in r.items() if k != 'replay'}, indent=1)[:1500])
    rp = r.get('replay', {})
    if 'doc_b' not in rp:
        print(json.dumps(rp, indent=1)[:3000])
        return 0
    binp, _ = ctx.harness('release')
    a = rp['doc_a']
    a = a if a.startswith('@') else hexdoc(a)
    out = ctx.rvh_batch(binp, rp['op'], ["%s\t%s\t%s" % (rp['opts'], a, hexdoc(rp['doc_b']))])[0]
    print("inserted:", json.dumps(rp.get('inserted'), indent=1)[:1500])
    print("result now:", out)
    try:
        ok = pair_ok(json.loads(out), rp['op'])
    except (TypeError, ValueError):
        ok = False
    print("REPRODUCED" if not ok else "not reproduced (documents now agree)")
    return 0 if ok else 1
