"""C07  Written SVG is well-formed, self-contained and re-parsable.

proof:           coq/Props/C07.v over Model/Writer.v (reference structure of writer.rs), Model/WriteNum.v + Gen/WriterTables.v
correspondence:  writer-skeleton  real `tree.to_string(&opts)` parsed by roxmltree -> element skeleton (tags, id / url(#) /
                                  href structure, filter in/result) compared inside Coq with Model/Writer.v `write` run on
                                  the dump of the same tree, over a grid of WriteOptions
                 write-num        path coordinates written with every precision vs Model/WriteNum.v
system oracle:   independent XML parse of the written text of every corpus file x options: root is <svg> in the SVG
                 namespace, every url(#x) / href="#x" resolves to exactly one id, numbers are plain finite decimals,
                 the text parses again into a tree of the same size."""
import json
import os
import re

import vlib
from props import treeref, refgen

NS = refgen.NS
WITNESS = os.path.join(vlib.VERIF, 'corpus', 'witness')
PRELUDE = "From Coq Require Import NArith ZArith List Bool.\nImport ListNotations.\nLocal Open Scope N_scope.\n"
DROP_TAGS = {'stop', 'feFuncR', 'feFuncG', 'feFuncB', 'feFuncA', 'feDistantLight', 'fePointLight', 'feSpotLight'}
TAGS = {'svg': 'Tsvg', 'defs': 'Tdefs', 'linearGradient': 'TlinearGradient', 'radialGradient': 'TradialGradient',
        'pattern': 'Tpattern', 'filter': 'Tfilter', 'feMergeNode': 'TfeMergeNode', 'clipPath': 'TclipPath', 'mask': 'Tmask',
        'g': 'Tg', 'path': 'Tpath', 'image': 'Timage', 'text': 'Ttext', 'textPath': 'TtextPath', 'tspan': 'Ttspan'}
FE_BY_TAG = {v: i + 1 for i, v in enumerate(treeref.FE_TAGS[k] for k in treeref.FE_KINDS)}
URL_KIND = {'clip-path': 1, 'mask': 2, 'fill': 3, 'stroke': 4}
PREFIXES = {'none': None, 'ascii': 'pre-', 'esc': 'é"<&\'>'}


def jload(o):
    try:
        return json.loads(o)
    except (TypeError, ValueError):
        return {'error': 'unparsable harness output: %r' % (o[:200] if isinstance(o, str) else o)}


def wopts_str(w):
    parts = []
    if w.get('prefix') is not None:
        parts.append('prefix=' + w['prefix'].encode().hex())
    parts.append('pt=%d' % (1 if w.get('pt') else 0))
    parts.append('sq=%d' % (1 if w.get('sq') else 0))
    parts.append('indent=%s' % w.get('indent', '4'))
    parts.append('aindent=%s' % w.get('aindent', 'none'))
    parts.append('cp=%d' % w.get('cp', 8))
    parts.append('tp=%d' % w.get('tp', 8))
    return ';'.join(parts)


def gen_wopts(rng, k):
    """a grid over the cheap options; precisions sampled over 0..255"""
    pk = ['none', 'ascii', 'esc'][k % 3]
    return dict(prefix=PREFIXES[pk], pt=bool((k // 3) % 2), sq=bool(rng.below(2)),
                indent=rng.choice(['none', 'tabs', '0', '2', '4']), aindent=rng.choice(['none', 'none', 'tabs', '3']),
                cp=rng.choice([0, 1, 2, 5, 8, 12, 13, 100, 255, rng.below(256)]),
                tp=rng.choice([0, 3, 8, 12, 13, 255, rng.below(256)]))


# ------------------------------------------------------------------------------------------------
# closure oracle on the skeleton
# ------------------------------------------------------------------------------------------------
def url_of(v):
    m = re.fullmatch(r"url\(#(.*)\)", v, re.S)
    return m.group(1) if m else None


def filter_urls(v):
    # "url(#a) url(#b)": ids may contain spaces or parentheses; split on the ") url(#" separator
    if not v.startswith('url(#') or not v.endswith(')'):
        return None
    return v[5:-1].split(') url(#')


def sk_walk(sk, f, parent=None):
    f(sk, parent)
    for c in sk[2]:
        sk_walk(c, f, sk)


def closure_problems(sk, prefix, pt):
    """-> list of (class or None, text)"""
    ids = {}
    refs = []

    def visit(e, parent):
        tag, at, _ = e
        if 'id' in at:
            ids.setdefault(at['id'], []).append((tag, parent[0] if parent else None))
        for a in ('clip-path', 'mask', 'fill', 'stroke'):
            if a in at:
                u = url_of(at[a])
                if u is not None:
                    refs.append((tag, a, u))
        if 'filter' in at:
            for u in filter_urls(at['filter']) or []:
                refs.append((tag, 'filter', u))
        h = at.get('xlink:href')
        if h is not None and h.startswith('#'):
            refs.append((tag, 'xlink:href', h[1:]))
    sk_walk(sk, visit)
    out = []
    pre = prefix or ''
    for tag, a, u in refs:
        n = len(ids.get(u, []))
        if n == 1:
            continue
        cls = None
        if tag == 'feImage' and u == pre:
            cls = 'feimage-empty-href'
        elif n == 0 and tag == 'tspan' and a in ('fill', 'stroke') and pt:
            cls = 'text-span-paint'
        elif n >= 2 and tag == 'textPath' and pt and any(t == 'path' and p == 'defs' for t, p in ids[u]):
            cls = 'textpath-id-twice'
        elif n >= 2 and tag == 'feImage' and all(p != 'defs' or True for t, p in ids[u]) and \
                sum(1 for t, p in ids[u] if p == 'defs') == 1:
            cls = 'feimage-target-twice'
        elif n >= 2 and a == 'clip-path' and re.fullmatch(re.escape(pre) + r"cp\d+", u) and all(t == 'clipPath' for t, p in ids[u]):
            cls = 'colr-glyph-clip-id'
        out.append((cls, "%s=\"..#%s\" on <%s> resolves to %d elements" % (a, u, tag, n)))
    return out


def number_problems(bad):
    out = []
    for tag, attr, val in bad:
        toks = set(re.split(r"[ ()]", val))
        cls = None
        if tag.startswith('fe') and (toks & {'inf', '-inf', 'NaN'}):
            cls = 'nonfinite-filter-number'
        out.append((cls, "<%s %s=\"%s\"> is not a plain finite decimal" % (tag, attr, val[:60])))
    return out


# ------------------------------------------------------------------------------------------------
# skeleton -> Coq xout
# ------------------------------------------------------------------------------------------------
class CoqSkel:
    def __init__(self, it, prefix):
        self.it = it
        self.prefix = prefix or ''
        self.ptok = it(self.prefix) if self.prefix else 0

    def split(self, s):
        if self.prefix and s.startswith(self.prefix):
            return self.ptok, self.it(s[len(self.prefix):])
        if not self.prefix:
            return 0, self.it(s)
        return 10 ** 9, self.it(s)       # prefix missing: can never equal the model's value

    def inp(self, v):
        if v == 'SourceGraphic':
            return 'ISourceGraphic'
        if v == 'SourceAlpha':
            return 'ISourceAlpha'
        return '(IRef %d)' % self.it(v)

    def attrs(self, tag, at, root=False, xlink=False):
        a = []
        if root:
            a.append('AXmlns')
            if xlink:
                a.append('AXlink')
        if 'id' in at:
            a.append('AId %d %d' % self.split(at['id']))
        if 'in' in at:
            a.append('AIn 1 %s' % self.inp(at['in']))
        if 'in2' in at:
            a.append('AIn 2 %s' % self.inp(at['in2']))
        for k in ('fill', 'stroke', 'clip-path', 'mask'):
            if k in at:
                u = url_of(at[k])
                if u is not None:
                    a.append('AUrl %d %d %d' % ((URL_KIND[k],) + self.split(u)))
        if 'filter' in at:
            us = filter_urls(at['filter'])
            if us is not None:
                a.append('AUrls [%s]' % '; '.join('(%d, %d)' % self.split(u) for u in us))
        h = at.get('xlink:href')
        if h is not None:
            if h.startswith('#'):
                a.append('AHref %d %d' % self.split(h[1:]))
            else:
                a.append('AHrefData')
        if 'result' in at:
            a.append('AResult %d' % self.it(at['result']))
        return '[%s]' % '; '.join(a)

    def tspans(self, e, acc):
        for c in e[2]:
            if c[0] == 'tspan' and 'fill' in c[1]:
                acc.append('XE Ttspan %s []' % self.attrs('tspan', c[1]))
            self.tspans(c, acc)

    def elem(self, e, root=False, xlink=False, in_text=False):
        tag, at, kids = e
        if tag in TAGS:
            ct = TAGS[tag]
        elif tag in FE_BY_TAG:
            ct = '(Tfe %d)' % FE_BY_TAG[tag]
        else:
            ct = '(Tfe 999)'
        if tag == 'tspan' and in_text:
            # chunk level: flatten the decoration / span tspans below it
            acc = []
            self.tspans(e, acc)
            return 'XE Ttspan [] [%s]' % '; '.join(acc)
        sub = [self.elem(c, in_text=(tag in ('text', 'textPath'))) for c in kids if c[0] not in DROP_TAGS]
        a = self.attrs(tag, at, root, xlink)
        if tag == 'tspan':
            a = '[]'
        return 'XE %s %s [%s]' % (ct, a, '; '.join(sub))


def run(ctx):
    raise NotImplementedError
