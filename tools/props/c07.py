"""C07  Written SVG is well-formed, self-contained and re-parsable.

proof:           coq/Props/C07.v over Model/Writer.v (reference structure of writer.rs), Model/WriteNum.v + Gen/WriterTables.v
correspondence:  writer-skeleton  real `tree.to_string(&opts)` parsed by roxmltree -> element skeleton (tags, id / url(#) /
                                  href structure, filter in/result) compared inside Coq with Model/Writer.v `write` run on
                                  the dump of the same tree, over a grid of WriteOptions
                 write-num        path coordinates written with every precision vs Model/WriteNum.v
system oracle:   independent XML parse of the written text of every corpus file x options: root is <svg> in the SVG
                 namespace, every url(#x) / href="#x" resolves to exactly one id, numbers are plain finite decimals,
                 the text parses again into a tree of the same size."""
import json
import os
import re

import vlib
from props import treeref, refgen

NS = refgen.NS
WITNESS = os.path.join(vlib.VERIF, 'corpus', 'witness')
PRELUDE = "From Coq Require Import NArith ZArith List Bool.\nImport ListNotations.\nLocal Open Scope N_scope.\n"
DROP_TAGS = {'stop', 'feFuncR', 'feFuncG', 'feFuncB', 'feFuncA', 'feDistantLight', 'fePointLight', 'feSpotLight'}
TAGS = {'svg': 'Tsvg', 'defs': 'Tdefs', 'linearGradient': 'TlinearGradient', 'radialGradient': 'TradialGradient',
        'pattern': 'Tpattern', 'filter': 'Tfilter', 'feMergeNode': 'TfeMergeNode', 'clipPath': 'TclipPath', 'mask': 'Tmask',
        'g': 'Tg', 'path': 'Tpath', 'image': 'Timage', 'text': 'Ttext', 'textPath': 'TtextPath', 'tspan': 'Ttspan'}
FE_BY_TAG = {v: i + 1 for i, v in enumerate(treeref.FE_TAGS[k] for k in treeref.FE_KINDS)}
URL_KIND = {'clip-path': 1, 'mask': 2, 'fill': 3, 'stroke': 4}
PREFIXES = {'none': None, 'ascii': 'pre-', 'esc': 'é"<&\'>'}


def jload(o):
    try:
        return json.loads(o)
    except (TypeError, ValueError):
        return {'error': 'unparsable harness output: %r' % (o[:200] if isinstance(o, str) else o)}


def wopts_str(w):
    parts = []
    if w.get('prefix') is not None:
        parts.append('prefix=' + w['prefix'].encode().hex())
    parts.append('pt=%d' % (1 if w.get('pt') else 0))
    parts.append('sq=%d' % (1 if w.get('sq') else 0))
    parts.append('indent=%s' % w.get('indent', '4'))
    parts.append('aindent=%s' % w.get('aindent', 'none'))
    parts.append('cp=%d' % w.get('cp', 8))
    parts.append('tp=%d' % w.get('tp', 8))
    return ';'.join(parts)


def gen_wopts(rng, k):
    """a grid over the cheap options; precisions sampled over 0..255"""
    pk = ['none', 'ascii', 'esc'][k % 3]
    return dict(prefix=PREFIXES[pk], pt=bool((k // 3) % 2), sq=bool(rng.below(2)),
                indent=rng.choice(['none', 'tabs', '0', '2', '4']), aindent=rng.choice(['none', 'none', 'tabs', '3']),
                cp=rng.choice([0, 1, 2, 5, 8, 12, 13, 100, 255, rng.below(256)]),
                tp=rng.choice([0, 3, 8, 12, 13, 255, rng.below(256)]))


# ------------------------------------------------------------------------------------------------
# closure oracle on the skeleton
# ------------------------------------------------------------------------------------------------
def url_of(v):
    m = re.fullmatch(r"url\(#(.*)\)", v, re.S)
    return m.group(1) if m else None


def filter_urls(v):
    # "url(#a) url(#b)": ids may contain spaces or parentheses; split on the ") url(#" separator
    if not v.startswith('url(#') or not v.endswith(')'):
        return None
    return v[5:-1].split(') url(#')


def sk_walk(sk, f, parent=None):
    f(sk, parent)
    for c in sk[2]:
        sk_walk(c, f, sk)


def closure_problems(sk, prefix, pt, src=''):
    """-> list of (class or None, text)"""
    ids = {}
    refs = []

    def visit(e, parent):
        tag, at, _ = e
        if 'id' in at:
            ids.setdefault(at['id'], []).append((tag, parent[0] if parent else None))
        for a in ('clip-path', 'mask', 'fill', 'stroke'):
            if a in at:
                u = url_of(at[a])
                if u is not None:
                    refs.append((tag, a, u))
        if 'filter' in at:
            for u in filter_urls(at['filter']) or []:
                refs.append((tag, 'filter', u))
        h = at.get('xlink:href')
        if h is not None and h.startswith('#'):
            refs.append((tag, 'xlink:href', h[1:]))
    sk_walk(sk, visit)
    out = []
    pre = prefix or ''
    for tag, a, u in refs:
        n = len(ids.get(u, []))
        if n == 1:
            continue
        cls = None
        if tag == 'feImage' and u == pre and re.search(r'<feImage\b[^>]*href\s*=\s*["\']#', src):
            # F10 is about an feImage that references an ELEMENT which ends up without an id (feImage -> use); an feImage
            # whose href is an image (data URL / file) always gets a generated image id
            cls = 'feimage-empty-href'
        elif n == 0 and tag == 'tspan' and a in ('fill', 'stroke') and pt:
            cls = 'text-span-paint'
        elif n >= 2 and tag == 'textPath' and pt and any(t == 'path' and p == 'defs' for t, p in ids[u]):
            cls = 'textpath-id-twice'
        elif n >= 2 and tag == 'feImage' and all(p != 'defs' or True for t, p in ids[u]) and \
                sum(1 for t, p in ids[u] if p == 'defs') == 1:
            cls = 'feimage-target-twice'
        elif n >= 2 and a == 'clip-path' and re.fullmatch(re.escape(pre) + r"cp\d+", u) and all(t == 'clipPath' for t, p in ids[u]):
            cls = 'colr-glyph-clip-id'
        out.append((cls, "%s=\"..#%s\" on <%s> resolves to %d elements" % (a, u, tag, n)))
    return out


OBB_SCALED = {('feOffset', 'dx'), ('feOffset', 'dy'), ('feDropShadow', 'dx'), ('feDropShadow', 'dy'), ('feDisplacementMap', 'scale')}


def number_problems(bad, src=''):
    out = []
    for tag, attr, val, tok in bad:
        toks = {tok}
        cls = None
        if (tag, attr) in OBB_SCALED and (toks & {'inf', '-inf', 'NaN'}) and \
                re.search(r'primitiveUnits\s*=\s*["\']objectBoundingBox', src):
            # residual of F12: a finite value times the bounding-box scale overflows f32
            cls = 'obb-scaled-filter-number'
        elif attr in ('transform', 'gradientTransform', 'patternTransform') and (toks & {'inf', '-inf', 'NaN'}):
            cls = 'nonfinite-transform'
        out.append((cls, "<%s %s=\"%s\">: %s is not a plain finite decimal" % (tag, attr, val[:60], tok)))
    return out


# ------------------------------------------------------------------------------------------------
# skeleton -> Coq xout
# ------------------------------------------------------------------------------------------------
class CoqSkel:
    def __init__(self, it, prefix):
        self.it = it
        self.prefix = prefix or ''
        self.ptok = it(self.prefix) if self.prefix else 0

    def split(self, s):
        if self.prefix and s.startswith(self.prefix):
            return self.ptok, self.it(s[len(self.prefix):])
        if not self.prefix:
            return 0, self.it(s)
        return 10 ** 9, self.it(s)       # prefix missing: can never equal the model's value

    def inp(self, v):
        if v == 'SourceGraphic':
            return 'ISourceGraphic'
        if v == 'SourceAlpha':
            return 'ISourceAlpha'
        return '(IRef %d)' % self.it(v)

    def attrs(self, tag, at, root=False, xlink=False):
        a = []
        if root:
            a.append('AXmlns')
            if xlink:
                a.append('AXlink')
        if tag in FE_BY_TAG:
            a.append('ASub %d' % sum(bit for bit, k in zip((1, 2, 4, 8), ('x', 'y', 'width', 'height')) if k in at))
        if 'id' in at:
            a.append('AId %d %d' % self.split(at['id']))
        if 'in' in at:
            a.append('AIn 1 %s' % self.inp(at['in']))
        if 'in2' in at:
            a.append('AIn 2 %s' % self.inp(at['in2']))
        for k in ('fill', 'stroke', 'clip-path', 'mask'):
            if k in at:
                u = url_of(at[k])
                if u is not None:
                    a.append('AUrl %d %d %d' % ((URL_KIND[k],) + self.split(u)))
        if 'filter' in at:
            us = filter_urls(at['filter'])
            if us is not None:
                a.append('AUrls [%s]' % '; '.join('(%d, %d)' % self.split(u) for u in us))
        if tag == 'g' and 'style' in at:
            a.append('AStyle')
        h = at.get('xlink:href')
        if h is not None:
            if h.startswith('#'):
                a.append('AHref %d %d' % self.split(h[1:]))
            else:
                a.append('AHrefData')
        if 'result' in at:
            a.append('AResult %d' % self.it(at['result']))
        return '[%s]' % '; '.join(a)

    def tspans(self, e, acc):
        for c in e[2]:
            if c[0] == 'tspan' and 'fill' in c[1]:
                acc.append('XE Ttspan %s []' % self.attrs('tspan', c[1]))
            self.tspans(c, acc)

    def elem(self, e, root=False, xlink=False, in_text=False):
        tag, at, kids = e
        if tag in TAGS:
            ct = TAGS[tag]
        elif tag in FE_BY_TAG:
            ct = '(Tfe %d)' % FE_BY_TAG[tag]
        else:
            ct = '(Tfe 999)'
        if tag == 'tspan' and in_text:
            # chunk level: flatten the decoration / span tspans below it
            acc = []
            self.tspans(e, acc)
            return 'XE Ttspan [] [%s]' % '; '.join(acc)
        sub = [self.elem(c, in_text=(tag in ('text', 'textPath'))) for c in kids if c[0] not in DROP_TAGS]
        a = self.attrs(tag, at, root, xlink)
        if tag == 'tspan':
            a = '[]'
        return 'XE %s %s [%s]' % (ct, a, '; '.join(sub))


# ------------------------------------------------------------------------------------------------
# classification of one written document
# ------------------------------------------------------------------------------------------------
URL_BREAKERS = set('"\'() ')
XML_BREAKERS = set('&<')


def tree_strings(d):
    """ids and filter result names of a dumped tree (everything the writer emits as a raw attribute string)"""
    out = []
    w = treeref.Walk(d)
    for n, _ in w.nodes:
        out.append(n['id'])
    for k, ptr, i, ctx, via in w.defs:
        out.append(i)
    for c in ('filters',):
        for f in d[c]:
            for p in f['primitives']:
                out.append(p['result'])
                for i in treeref.prim_inputs(p['kind']):
                    if isinstance(i, dict):
                        out.append(i['ref'])
    return out


def nested_def_ids(d):
    """ids of definitions that are only reachable through a nested SVG image (they belong to that image's tree)"""
    w = treeref.Walk(d)
    ctxs = {}
    for k, ptr, i, ctx, via in w.defs:
        ctxs.setdefault((k, ptr, i), []).append(ctx)
    out = set(i for (k, ptr, i), cs in ctxs.items() if all('image' in c for c in cs))
    # ... and ids of the elements inside the nested image's tree (they are written as content of those definitions)
    out |= set(n['id'] for n, ctx in w.nodes if n['id'] and 'image' in ctx)
    return out


def feimage_clones(d):
    """ids carried by the first child of more than one feImage root (the writer writes only the first of them)"""
    seen = {}
    for f in d['filters']:
        for p in f['primitives']:
            if p['kind']['k'] == 'Image' and p['kind']['root']['children']:
                i = p['kind']['root']['children'][0]['id']
                if i:
                    seen[i] = seen.get(i, 0) + 1
    return [i for i, n in seen.items() if n > 1]


def unresolved_obb(sk):
    """a gradient / pattern written without userSpaceOnUse units: every definition of a usvg tree is supposed to be resolved"""
    found = []

    def visit(e, parent):
        if e[0] in ('linearGradient', 'radialGradient') and e[1].get('gradientUnits') != 'userSpaceOnUse':
            found.append(e[1].get('id'))
        if e[0] == 'pattern' and e[1].get('patternUnits') != 'userSpaceOnUse':
            found.append(e[1].get('id'))
    sk_walk(sk, visit)
    return found


def double_clip_children(d):
    """class clip-child-double-clip: some clipPath of the tree has a child under TWO clipped group levels (both groups carry a clip_path):
    write_clip_path_children skips the inner group (`continue`), so that child is not written.  Same walk as Model/Writer.v write_clipkids."""
    def rec(g, clipped):
        for n in g['children']:
            if n['t'] == 'g':
                inner = n.get('clip') is not None
                if clipped and inner:
                    if n['children']:
                        return True
                    continue
                if rec(n, clipped or inner):
                    return True
            elif n['t'] == 'text':
                if rec(n['flattened'], clipped):
                    return True
        return False

    def all_clips():
        seen, todo = set(), list(d['clip_paths'])
        for c in todo:
            if c['ptr'] in seen:
                continue
            seen.add(c['ptr'])
            yield c
            if c.get('clip'):
                todo.append(c['clip'])
    for c in all_clips():
        for n in c['root']['children']:
            if n['t'] == 'g' and rec(n, n.get('clip') is not None):
                return True
    return False


def has_empty_definition(d):
    return any(not c['root']['children'] for c in d['clip_paths']) or any(not m['root']['children'] for m in d['masks'])


def classify(r, w, src=''):
    """r = result of c07-write, w = write options.  -> list of (class or None, text)"""
    out = []
    prefix = w.get('prefix') or ''
    pt = bool(w.get('pt'))
    d = r['dump']
    if r['xml'] is not None:
        strs = tree_strings(d) + [prefix]
        cls = 'unescaped-xml-char' if any(set(s) & XML_BREAKERS for s in strs) else None
        out.append((cls, "the written text is not well-formed XML: %s" % r['xml']))
        return out
    if r['root'] != ['svg', 'http://www.w3.org/2000/svg']:
        out.append((None, "root element is %r" % (r['root'],)))
    cp = closure_problems(r['skeleton'], prefix, pt, src)
    nested = None
    for cls, text in cp:
        if cls is None:
            if nested is None:
                nested = nested_def_ids(d)
            m = re.search(r'#(.*)" on <', text, re.S)
            if m and m.group(1)[len(prefix):] in nested and 'resolves to 0' not in text:
                cls = 'nested-image-defs'
        out.append((cls, text))
    out += number_problems(r['bad_numbers'], src)
    if r['reparse'] is not None:
        out.append((None, "the written text does not parse again: %s" % r['reparse']))
    elif r.get('dims_a') and r.get('dims_b') and any(
            not (isinstance(x, (int, float)) and isinstance(y, (int, float)) and abs(x - y) <= 1e-4 * max(abs(x), abs(y), 1e-30))
            for x, y in zip(r['dims_a'], r['dims_b'])):
        # width / height are written with `{}` (shortest round-trip f32), whatever the precision options: Tree::size() must
        # come back unchanged
        out.append((None, "the re-parsed document size is %s, the original Tree::size() is %s" % (r['dims_b'], r['dims_a'])))
    elif r['size_a'] != r['size_b'] and min(w.get('cp', 8), w.get('tp', 8)) >= 5:
        # (low precisions are documented to be lossy: the size is only compared from 5 digits on)
        a, b = r['size_a'], r['size_b']
        known_here = [c for c, _ in out if c is not None]
        a2 = list(a)
        if a[2] >= 1 and b[2] == a[2]:
            a2[0] += a[2]                  # image-wrapper-group: one more group per image
        empty_def = []

        def find_empty(e, parent):
            if e[0] in ('clipPath', 'mask') and not e[2]:
                empty_def.append(e[0])
        sk_walk(r['skeleton'], find_empty)
        # every component of the difference must be explained by a known cause that is PRESENT in this input and that can
        # move that component in that direction (several causes may combine in one document)
        DEFS = {4, 5, 6, 7, 8, 9}
        ALL = set(range(10))
        causes = []          # (class, components, signs allowed)
        for c in known_here:
            causes.append((c, ALL, (-1, 1)))                         # lost / merged / ambiguous definitions
        if a[2] >= 1 and b[2] == a[2]:
            causes.append(('image-wrapper-group', set(), ()))        # already folded into a2
        if empty_def:
            causes.append(('empty-definition-dropped', ALL, (-1,)))
        if unresolved_obb(r['skeleton']):
            causes.append(('unresolved-obb-def', {4, 5, 6}, (-1, 1)))
        if set(prefix) & URL_BREAKERS:
            causes.append(('prefix-breaks-url', ALL, (-1,)))
        if any(n['t'] == 'image' and n.get('svg') for n, _ in treeref.Walk(d).nodes):
            causes.append(('nested-image-defs', DEFS, (-1, 1)))
        if feimage_clones(d):
            causes.append(('feimage-clone-merged', DEFS, (-1,)))
        if double_clip_children(d):
            causes.append(('clip-child-double-clip', {7}, (-1,)))      # the skipped child's own clip paths are no longer referenced
        used = []
        ok = True
        for i, (x, y) in enumerate(zip(a2, b)):
            if x == y:
                continue
            sign = 1 if y > x else -1
            hit = [c for c, comps, signs in causes if i in comps and sign in signs]
            if not hit:
                ok = False
                break
            used.append(hit[0])
        cls = None
        if ok and b == a2:
            cls = 'image-wrapper-group'
        elif ok and used:
            cls = used[0]
        out.append((cls, "the re-parsed tree has another size: groups/paths/images/texts/lg/rg/pattern/clip/mask/filter %s -> %s" % (a, b)))
    return out


# ------------------------------------------------------------------------------------------------
# write-num cases
# ------------------------------------------------------------------------------------------------
def f32(x):
    import struct
    return struct.unpack('f', struct.pack('f', x))[0]


def gen_num_cases(rng, n):
    vals = [1.5, 2.25, 7.125, 0.1, 1.0 / 3, 123.456, 0.001234, 99999.9, 3000000000.0, -3000000000.0, 2147483648.0,
            -2147483648.0, 2147483520.0, 16777216.0, 8388607.5, -0.5, 0.5, 1e-7, 4194303.75, 1e20, -1e20, 65535.996,
            0.012345678, 0.0012345678, 0.00012345678, 0.098765432]
    out = []
    for _ in range(n):
        r = rng.below(5)
        if r == 0:
            x = rng.choice(vals)
        elif r == 1:
            x = rng.uniform(-1000, 1000)
        elif r == 2:
            x = rng.uniform(-1, 1) * 10.0 ** (rng.below(11) - 4)
        elif r == 3:
            x = (rng.below(1 << 20) - (1 << 19)) / float(1 << rng.below(12))
        else:
            x = float(rng.below(1 << 31)) * rng.choice([1, -1, 3])
        x = f32(x)
        if x != x or x in (float('inf'), float('-inf')):
            x = 1.5
        out.append(x)
    return out


NUM_DEFS = """
Local Open Scope Q_scope.
Definition near_tie (x : Q) (pw : Z) : bool :=
  let y := x * inject_Z pw in
  Qle_bool (Qabs' (y - inject_Z (Qfloor y) - (1 # 2))) (Qabs' y * (1 # 4194304)).
(* real output within f32 rounding of the model's exact result; one unit of the last written digit more when the
   f32 product num * pow lies within rounding error of a tie *)
Definition num_ok (c : Z * Q * Q) : bool :=
  match c with
  | (p, x, real) =>
      match write_num p x, nth_error pow_vec (Z.to_nat (pow_index p)) with
      | WOk v, Some pw =>
          Qle_bool (Qabs' (real - v))
                   (Qabs' x * (4 # 10000000) + (if near_tie x pw then 1 / inject_Z pw else 0))
      | _, _ => false
      end
  end.
"""


def write_num_tie(ctx, binp, ncases):
    """ncases: list of (precision, [4 f32 values]).  Writes a path with these coordinates with the real writer and compares every
    token with Model/WriteNum.v inside Coq.  -> (number compared, list of (doc, precision, value, token) that disagree or None)"""
    from fractions import Fraction
    ndocs = ['<svg %s width="10" height="10"><path d="M %s %s L %s %s" stroke="black"/></svg>'
             % ((NS,) + tuple(repr(float(v)) for v in c[1])) for c in ncases]
    nouts = ctx.rvh_batch(binp, 'c07-write', ["-\t%s\t%s" % (wopts_str(dict(cp=p)), d) for (p, _), d in zip(ncases, ndocs)])
    nitems, nmap, bad = [], [], []
    for (p, vals), d, o in zip(ncases, ndocs, nouts):
        r = jload(o)
        m = re.search(r' d=["\']M (\S+) (\S+) L (\S+) (\S+)["\']', r.get('text', ''))
        if not m:
            bad.append((d, p, None, str({x: r[x] for x in r if x not in ('dump', 'skeleton')})[:200]))
            continue
        for v, tok in zip(vals, m.groups()):
            try:
                real = Fraction(tok)
            except ValueError:
                bad.append((d, p, v, tok))
                continue
            nitems.append("(%d%%Z, %s, (%d # %d))" % (p, vlib.qstr(v), real.numerator, real.denominator))
            nmap.append((d, p, v, tok))
    if nitems:
        body = ("From Coq Require Import ZArith QArith Qround List Bool.\nImport ListNotations.\n" + NUM_DEFS +
                "Definition cases : list (Z * Q * Q) := [\n%s\n].\nEval vm_compute in (bad_indices num_ok cases).\n" % ";\n".join(nitems))
        rc, out = ctx.coq_eval('k_writenum_%s' % ctx.pid, body, ['Gen.WriterNum', 'Model.WriteNum', 'Model.Corr'])
        bl = ctx.parse_N_list(out) if rc == 0 else None
        if bl is None:
            ctx.log("model evaluation (write-num) failed:\n" + out[-1500:])
            return len(nitems), None
        bad += [nmap[b] for b in bl]
    return len(nitems), bad


ESC_ATOMS = ['"', "'", '&', '<', '>', 'a', 'b', ';', '#', 'é', ']', ']]>', ']]&gt;', '>>', 'gt;', '&gt;', 'amp;', 'lt;', 'quot;', 'apos;', '&amp;', '&lt;', '&#60;', '-', '_', 'x']

ESC_SPECIAL = '"' + "'&<"


def xml_attr(s):
    return s.replace('&', '&amp;').replace('<', '&lt;').replace('"', '&quot;')


def gen_escape_cases(rng, n):
    """(id, [span texts], single_quote): adversarial strings for the `escape` correspondence"""
    fixed = [('a&b', ['x & y < z > w " q \' ]]> e'], 0), ('q"u\'o"t\'e', ['""\'\'', '&amp;&lt;'], 1), ('q"u\'o"t\'e', ['<<<&&&', 'a&#60;b'], 0),
             ('a&amp;b', ['&amp;amp;', '&quot;'], 1), ('<', ['<'], 0), ('"', ['"'], 0), ("'", ["'"], 1), ('&', ['&'], 1),
             ('a]]>b', ['a ]]> b', ']]>'], 0), ('x>y', ['>', ']]&gt;'], 1), (']]&gt;', [']]>]]>', 'a > b >> c'], 0), ('gt', ['&gt;]]>', ']] >'], 1),
             ('é"é', ['é<é&é'], 0), ('""""""', ['<<<<<<'], 0), ("'" * 6, ['&&&&&&'], 1)]
    out = list(fixed)
    while len(out) < n:
        mk = lambda: ''.join(rng.choice(ESC_ATOMS) for _ in range(1 + rng.below(7)))
        out.append((mk(), [mk() for _ in range(1 + rng.below(2))], rng.below(2)))
    return out


def escape_tie(ctx, binp, ncases):
    """K `escape`: ids and span texts with quotes / & / < / > / entity look-alikes are written by the real writer (xmlwriter underneath);
    the bytes that follow `<path id=Q` and the start tag of every leaf tspan are compared INSIDE Coq with Model/XmlEscape.v
    (escape_attr / escape_text over the source-derived Gen/XmlEscape.v) applied to the id / span text the tree holds (from the dump).
    The same evaluation runs the boolean round-trip checkers on every string (model-level search when a theorem breaks).
    -> (number of compared strings, [(what, doc, wopts, detail)] disagreements, [(doc, wopts, detail)] model counterexamples) or None"""
    cases = gen_escape_cases(ctx.rng, ncases)
    docs, wos = [], []
    for ident, texts, sq in cases:
        spans = ''.join(('<tspan fill="red">%s</tspan>' if i % 2 else '%s') % t.replace('&', '&amp;').replace('<', '&lt;') for i, t in enumerate(texts))
        docs.append('<svg %s width="100" height="100"><rect id="%s" width="5" height="5"/><text x="5" y="50" font-size="20">%s</text></svg>'
                    % (NS, xml_attr(ident), spans))
        wos.append(wopts_str(dict(pt=1, sq=sq, indent='none', aindent='none')) + ';full=1')
    outs = ctx.rvh_batch(binp, 'c07-write', ["-	%s	%s" % (w, d) for w, d in zip(wos, docs)])
    items, imap, glue = [], [], []
    blist = lambda b: "[%s]" % "; ".join(str(x) for x in b)
    for (ident, texts, sq), d, w, o in zip(cases, docs, wos, outs):
        r = jload(o)
        if 'error' in r:
            continue            # the document itself was rejected (e.g. an id that is only white space)
        if 'crash' in r or 'panic' in r or 'text' not in r:
            glue.append(('crash', d, w, str({x: r[x] for x in r if x not in ('dump', 'skeleton')})[:300]))
            continue
        text = r['text'].encode('utf-8')
        q = b"'" if sq else b'"'
        paths = [n for n in r['dump']['root']['children'] if n['t'] == 'path']
        pos = text.find(b'<path id=' + q)
        if paths and paths[0]['id']:
            v = paths[0]['id'].encode('utf-8')
            if pos < 0:
                glue.append(('locate', d, w, 'no `<path id=` in the written text'))
            else:
                rest = text[pos + 10:pos + 10 + 8 * len(v) + 16]
                items.append("(0, %s, %s, %s)" % ('true' if sq else 'false', blist(v), blist(rest)))
                imap.append(('attribute id', d, w, v, rest))
                ctx.note_case("esc/a/%d/%s" % (sq, ident), nontrivial=any(c in ident for c in ESC_SPECIAL))
        spans = []
        for n in r['dump']['root']['children']:
            if n['t'] == 'text':
                for c in n['chunks']:
                    tb = c['text'].encode('utf-8')
                    spans += [tb[s['start']:s['end']] for s in c['spans']]
        leaves = [m.end() for m in re.finditer(rb'<tspan font-family=[^>]*>', text)]
        if len(leaves) != len(spans):
            glue.append(('locate', d, w, '%d leaf tspans in the written text, %d spans in the tree' % (len(leaves), len(spans))))
            continue
        for v, at in zip(spans, leaves):
            rest = text[at:at + 8 * len(v) + 16]
            items.append("(1, false, %s, %s)" % (blist(v), blist(rest)))
            imap.append(('span text', d, w, v, rest))
            ctx.note_case("esc/t/%s" % v.decode('utf-8', 'replace'), nontrivial=any(c in v for c in b'&<'))
    if not items:
        return 0, glue, []
    body = ("From Coq Require Import NArith List Bool.\nImport ListNotations.\nLocal Open Scope N_scope.\n"
            "Definition cases : list (N * bool * list N * list N) := [\n%s\n].\n"
            "Eval vm_compute in (bad_indices chk_written cases).\nEval vm_compute in (bad_indices chk_roundtrip cases).\n" % ";\n".join(items))
    rc, out = ctx.coq_eval('k_escape', body, ['Gen.XmlEscape', 'Model.XmlEscape', 'Model.Corr'])
    lists = re.findall(r"=\s*\[(.*?)\]\s*:\s*list", out, re.S) if rc == 0 else []
    if len(lists) != 2:
        ctx.log("model evaluation (escape) failed:\n" + out[-1500:])
        return None
    bl = [[int(re.sub(r"%\w+", "", x).strip().strip('()')) for x in l.split(';')] if l.strip() else [] for l in lists]
    bad = glue + [(imap[b][0], imap[b][1], imap[b][2],
                   "the tree holds %r, the writer wrote %r.." % (imap[b][3].decode('utf-8', 'replace'), imap[b][4][:len(imap[b][3]) + 24].decode('utf-8', 'replace')))
                  for b in bl[0]]
    cex = [(imap[b][1], imap[b][2], "%s %r" % (imap[b][0], imap[b][3].decode('utf-8', 'replace'))) for b in bl[1]]
    return len(items), bad, cex


CDATA_WITNESS = os.path.join(WITNESS, 'C07-text-cdata-end.svg')


def chunk_texts(d):
    out = []

    def go(g):
        for n in g['children']:
            if n['t'] == 'text':
                out.extend(c['text'] for c in n['chunks'])
            elif n['t'] == 'g':
                go(n)
    go(d['root'])
    return out


def cdata_regression(ctx, binp):
    """fixed 94b8b4d: a span text with `]]>` (witness + variants) written with preserve_text must be well-formed, must be parsed again
    and the re-parsed tree must hold the same text"""
    docs = ['@' + CDATA_WITNESS] if os.path.exists(CDATA_WITNESS) else []
    docs += ['<svg %s width="100" height="100"><text x="5" y="50" font-size="20">%s</text></svg>' % (NS, t)
             for t in ('a ]]&gt; b', ']]&gt;', 'x &gt; y ]]&gt;]]&gt; <tspan fill="red">]]&gt;&amp;&lt;</tspan>', ']] &gt; ]&gt;')]
    for sq in (0, 1):
        w = wopts_str(dict(pt=1, sq=sq, indent='none')) + ';full=1'
        outs = ctx.rvh_batch(binp, 'c07-write', ["-\t%s\t%s" % (w, d) for d in docs])
        again = []
        for d, o in zip(docs, outs):
            r = jload(o)
            ctx.note_case("cdata/%d/%s" % (sq, d[-40:]), nontrivial=True)
            rep = dict(doc=d, wopts=w, op='c07-write', part='cdata-end regression')
            if 'text' not in r or r.get('xml') is not None or r.get('reparse') is not None:
                ctx.violation("regression of 94b8b4d: a text containing `]]>` written with preserve_text is not well-formed / not re-parsable: %s"
                              % str({k: r.get(k) for k in ('error', 'panic', 'crash', 'xml', 'reparse')})[:300], rep)
                again.append(None)
                continue
            if ']]>' in r['text']:
                ctx.violation("regression of 94b8b4d: the written text contains a raw `]]>`", rep)
            again.append((d, r))
        todo = [x for x in again if x]
        outs2 = ctx.rvh_batch(binp, 'dump', ["-\thex:%s" % r['text'].encode('utf-8').hex() for _, r in todo])
        for (d, r), o2 in zip(todo, outs2):
            r2 = jload(o2)
            a, b = chunk_texts(r['dump']), (chunk_texts(r2) if 'root' in r2 else None)
            if a != b:
                ctx.violation("regression of 94b8b4d: the text changes over a write / parse round trip with preserve_text: %r -> %r" % (a, b),
                              dict(doc=d, wopts=w, op='c07-write', part='cdata-end regression'))


F32_TEXTS = ['1.5', '-2.25', '1e10', '3.4e38', '3.4028234e38', '3.4028235e38', '3.40282356e38', '3.40282357e38', '3.4028236e38', '-3.4028236e38',
             '3.5e38', '1e39', '1e40', '-1e40', '1e300', '1e308', '1e309', '1e400', '-1e400', '1e-30', '123456.789', '-0.001', '7']


def f32_parse_tie(ctx, binp, nrand):
    """K `f32-parse`: number attribute texts (around the f32 overflow threshold, beyond f64) -> <feComposite k1="..">; the k1 the tree holds
    (0 = attribute rejected) is compared in Coq with Model/NumParse.v (`parse_f32` over the source-derived step order).
    -> (cases, [(doc, text, got)] disagreements, [text] model counterexamples: accepted but not finite) or None"""
    from fractions import Fraction
    import math
    rng = ctx.rng
    texts = list(F32_TEXTS)
    for _ in range(nrand):
        texts.append('%s%d.%de%d' % (rng.choice(['', '-']), 1 + rng.below(9), rng.below(1000), rng.choice([0, 5, 20, 36, 37, 38, 38, 39, 45, 200, 320])))
    docs = ['<svg %s width="100" height="100"><filter id="f"><feComposite operator="arithmetic" k1="%s" k2="1" in2="SourceAlpha"/></filter>'
            '<rect width="50" height="50" filter="url(#f)"/></svg>' % (NS, t) for t in texts]
    outs = ctx.rvh_batch(binp, 'dump', ["-\t" + d for d in docs])
    items, imap = [], []
    for t, d, o in zip(texts, docs, outs):
        try:
            r = json.loads(o)
            k1 = r['filters'][0]['primitives'][0]['kind']['op']['Arithmetic'][0]
        except (ValueError, KeyError, IndexError, TypeError):
            k1 = None
        f = float(t)
        v = ('(Inf %s)' % ('true' if f < 0 else 'false')) if math.isinf(f) else '(Fin (%d # %d))' % Fraction(f).as_integer_ratio()
        if isinstance(k1, (int, float)) and not (math.isinf(k1) or math.isnan(k1)):
            g = '(Some (%d # %d))' % Fraction(k1).as_integer_ratio()
        else:
            g = 'None'
        items.append('(%s, %s)' % (v, g))
        imap.append((d, t, k1 if k1 is not None else str(o)[:120]))
        ctx.note_case('f32/' + t, nontrivial=abs(f) > 1e38)
    body = ("From Coq Require Import QArith List Bool.\nImport ListNotations.\n"
            "Definition cases : list (fv * option Q) := [\n%s\n].\n"
            "Eval vm_compute in (bad_indices (fun c => chk_parsed (fst c) (snd c)) cases).\n"
            "Eval vm_compute in (bad_indices (fun c => chk_parse_finite (fst c)) cases).\n" % ";\n".join(items))
    rc, out = ctx.coq_eval('k_f32parse', body, ['Gen.NumParse', 'Model.NumParse', 'Model.Corr'])
    lists = re.findall(r"=\s*\[(.*?)\]\s*:\s*list", out, re.S) if rc == 0 else []
    if len(lists) != 2:
        ctx.log("model evaluation (f32-parse) failed:\n" + out[-1500:])
        return None
    bl = [[int(re.sub(r"%\w+", "", x).strip().strip('()')) for x in l.split(';')] if l.strip() else [] for l in lists]
    return len(items), [imap[b] for b in bl[0]], [imap[b] for b in bl[1]]


def src_of(doc):
    """source text of a document, with the text of nested SVG images (base64 data URLs) appended"""
    import base64
    if doc.startswith('@'):
        try:
            doc = open(doc[1:], encoding='utf-8', errors='replace').read()
        except OSError:
            return ''
    extra = []
    for m in re.finditer(r'data:image/svg\+xml;base64,\s*([A-Za-z0-9+/=]+)', doc):
        try:
            extra.append(base64.b64decode(m.group(1)).decode('utf-8', 'replace'))
        except (ValueError, TypeError):
            pass
    return doc + ''.join(extra)


def run(ctx):
    rng = ctx.rng
    quick = ctx.tier == 'quick'
    ctx.cov['trusted_base'] = vlib.BASE_TRUSTED + [
        "xmlwriter quoting / indentation / element stack, base64, Rust float formatting: outside the model; observed through roxmltree "
        "(xmlwriter's escaping IS modelled: Gen/XmlEscape.v is derived from its source in the cargo registry)",
        "locating `<path id=` and the leaf `<tspan font-family=..>` start tags in the written text (Python) for the escape correspondence",
        "roxmltree as the independent XML reader of the oracle; the plain-decimal grammar of harness/src/c07.rs",
        "Model/Writer.v abstracts the early returns of has_xlink (same disjunction) and keeps only id / reference attributes",
    ]
    ctx.assumptions = ["finite numbers: Model/WriteNum.v is over exact rationals, f32 rounding idealised (tie compared within 4e-7 relative)",
                       "a value with a fractional part is below 2^23 in magnitude (every f32 above is integral)"]
    broken = ctx.translate()
    res = ctx.coq_props()
    proof_ok = res['ok'] and not broken
    ctx.coq_build(['Model/Corr.v', 'Model/Writer.v', 'Model/WriteNum.v', 'Model/XmlEscape.v', 'Model/NumParse.v'])      # what the correspondence evaluations import
    if not quick and hasattr(ctx, 'coqchk') and res['ok']:
        if not ctx.coqchk():
            proof_ok = False

    binp, blog = ctx.harness('release')
    if binp is None:
        ctx.violation("harness does not build against the current tree (correspondence cannot run)",
                      dict(build_log=blog[-2000:]), found_input=False)
        return

    # ------------------------------------------------------------------ inputs x options
    wit = sorted(os.path.join(WITNESS, f) for f in os.listdir(WITNESS) if f.endswith('.svg'))
    corpus = vlib.corpus_files()
    ngen = 200 if quick else 1500
    gen_docs = [refgen.gen_ref_doc(rng, id_style=['plain', 'genlike', 'weird'][i % 3], big=(i % 5 == 0)) for i in range(ngen)]
    # hand-made inputs for the known classes and the fixed defects
    extra = [
        # F12 (fixed): must pass
        '<svg %s width="100" height="100"><filter id="f"><feComposite operator="arithmetic" k1="1e40" k2="1" in2="SourceAlpha"/>'
        '<feOffset dx="1e40"/><feColorMatrix type="hueRotate" values="1e39"/></filter><rect width="50" height="50" filter="url(#f)"/></svg>' % NS,
        # F12 residual (known class obb-scaled-filter-number)
        '<svg %s width="100" height="100"><filter id="f" primitiveUnits="objectBoundingBox"><feOffset dx="3e38" dy="0.1"/></filter>'
        '<rect width="50" height="50" filter="url(#f)"/></svg>' % NS,
        '<svg %s width="10" height="10"><rect id="a&amp;b" width="5" height="5"/></svg>' % NS,
        '<svg %s width="10" height="10"><path d="M 1.5 2.25 L 7.125 8" stroke="black"/></svg>' % NS,
    ]
    # ids that already start with the prefix that is applied
    extra.append('<svg %s width="20" height="20"><linearGradient id="pre-g"><stop offset="0" stop-color="red"/><stop offset="1" stop-color="blue"/>'
                 '</linearGradient><clipPath id="pre-pre-c"><rect width="9" height="9"/></clipPath>'
                 '<rect id="pre-" width="10" height="10" fill="url(#pre-g)" clip-path="url(#pre-pre-c)"/></svg>' % NS)
    forced = {len(wit) + len(extra) - 1: [dict(prefix='pre-')]}
    extra += refgen.group_attr_docs()
    for sd, overrides in refgen.size_docs():
        extra.append(sd)
        forced[len(wit) + len(extra) - 1] = overrides
    extra += refgen.crafted_docs()
    docs = ['@' + f for f in wit] + extra + ['@' + f for f in corpus] + gen_docs
    labels = [os.path.relpath(f, vlib.VERIF) for f in wit] + ['extra#%d' % i for i in range(len(extra))] + \
             [os.path.relpath(f, vlib.CORPUS) for f in corpus] + ['generated#%d' % i for i in range(ngen)]
    # witnesses of the defects fixed for this property family must pass outright
    strict = set(k for k, f in enumerate(wit) if os.path.basename(f) in ('F08.svg', 'F09.svg', 'F13.svg', 'F46.svg'))
    nwit = len(wit)
    per_doc = 2 if quick else 4
    esc_variants = ['é-ü_', 'q"\'', 'a&<', 'p q', 'x)']
    cases = []
    for k, d in enumerate(docs):
        for j in range(max(per_doc, len(forced.get(k, [])))):
            w = gen_wopts(rng, k + j)
            w['pt'] = bool(j % 2)
            if w['prefix'] == PREFIXES['esc']:
                w['prefix'] = rng.choice(esc_variants)
            if k in forced:
                w.update(forced[k][j % len(forced[k])])
            if k < nwit:
                # the witnesses of fixed defects run with safe prefixes and with precisions above 12
                w['prefix'] = [None, 'pre-', 'é-ü_'][(k + j) % 3]
                w['cp'] = [13, 255, 8, 100][(k + j) % 4]
            cases.append((k, w))
    hist = dict(written=0, rejected=0, with_refs=0, pt=0, prefix=dict(none=0, ascii=0, esc=0), precision_gt12=0)
    nviol = 0
    klass_hits = {}
    ncorr = 0
    model_ok = True
    nbad_skel = 0
    search_pool = []          # (case, dump) kept for the model-level search when a proof broke
    all_cases = cases
    BATCH = 2400              # results carry full dumps: processed in batches to bound memory
    for b0 in range(0, len(all_cases), BATCH):
        cases = all_cases[b0:b0 + BATCH]
        outs = ctx.rvh_batch(binp, 'c07-write', ["-\t%s\t%s" % (wopts_str(w), docs[k]) for k, w in cases])

        # ------------------------------------------------------------------ S: closure / numbers / re-parse oracle
        results = []
        for (k, w), o in zip(cases, outs):
            r = jload(o)
            results.append(r)
            lab = "%s [%s]" % (labels[k], wopts_str(w))
            if 'crash' in r or 'panic' in r:
                if nviol < 8:
                    ctx.violation("writing crashed: %s: %s" % (lab, str({x: r[x] for x in r if x != 'dump'})[:300]),
                                  dict(doc=docs[k], wopts=wopts_str(w), op='c07-write', result={x: r[x] for x in r if x != 'dump'}))
                nviol += 1
                continue
            if 'dump' not in r:
                hist['rejected'] += 1
                ctx.note_case('rej/' + lab, nontrivial=False)
                continue
            hist['written'] += 1
            hist['pt'] += 1 if w['pt'] else 0
            pk = 'none' if not w['prefix'] else ('ascii' if w['prefix'] == 'pre-' else 'esc')
            hist['prefix'][pk] += 1
            hist['precision_gt12'] += 1 if (w['cp'] > 12 or w['tp'] > 12) else 0
            nrefs = 0
            if r.get('skeleton'):
                cnt = [0]

                def cref(e, parent):
                    at = e[1]
                    cnt[0] += sum(1 for a in ('clip-path', 'mask', 'fill', 'stroke', 'filter') if a in at and at[a].startswith('url('))
                    cnt[0] += 1 if at.get('xlink:href', '').startswith('#') else 0
                sk_walk(r['skeleton'], cref)
                nrefs = cnt[0]
            hist['with_refs'] += 1 if nrefs else 0
            ctx.note_case("%s|%s" % (labels[k] if docs[k].startswith('@') else docs[k], wopts_str(w)), nontrivial=nrefs > 0)
            for cls, text in classify(r, w, src_of(docs[k])):
                full = "%s: %s" % (lab, text)
                rep = dict(doc=docs[k], wopts=wopts_str(w), op='c07-write', problem=text, klass=cls)
                if cls is None or k in strict:
                    if nviol < 8:
                        ctx.violation(full, rep)
                    nviol += 1
                else:
                    klass_hits[cls] = klass_hits.get(cls, 0) + 1
                    ctx.known_or_violation(cls, full, rep)

        # ------------------------------------------------------------------ K: writer-skeleton (in Coq)
        items = []
        imap = []
        for ci, ((k, w), r) in enumerate(zip(cases, results)):
            if not r.get('skeleton'):
                continue
            it = treeref.Intern()
            ct = treeref.CoqTree(it)
            tree = ct.tree(r['dump'])
            sk = CoqSkel(it, w['prefix'])
            x = sk.elem(r['skeleton'], root=True, xlink=r['xlink_declared'])
            items.append("(%d, %s, %s, (%s))" % (sk.ptok, 'true' if w['pt'] else 'false', tree, x))
            imap.append(ci)
        chunks = 8
        bad = []
        import concurrent.futures as cf

        def eval_chunk(c):
            idx = list(range(c, len(items), chunks))
            body = (PRELUDE + "Definition case_ok (c : N * bool * tree * xout) : bool :=\n"
                    "  match c with (p, pt, t, x) => xout_eqb (write {| w_prefix := p; w_preserve_text := pt |} t) x end.\n"
                    "Definition cases : list (N * bool * tree * xout) := [\n%s\n].\n"
                    "Eval vm_compute in (bad_indices case_ok cases).\n" % ";\n".join(items[j] for j in idx))
            rc, out = ctx.coq_eval('k_skel_%d' % c, body, ['Model.Tree', 'Model.Writer', 'Model.Corr'], timeout=1200)
            return idx, (ctx.parse_N_list(out) if rc == 0 else None), out

        with cf.ThreadPoolExecutor(max_workers=chunks) as ex:
            for idx, bl, out in ex.map(eval_chunk, range(chunks)):
                if bl is None:
                    model_ok = False
                    ctx.log("model evaluation (writer-skeleton) failed:\n" + out[-1500:])
                else:
                    bad += [imap[idx[b]] for b in bl]
        ncorr += len(items)
        if not proof_ok and len(search_pool) < 600:
            search_pool += [(cases[ci], results[ci]) for ci in imap[:600 - len(search_pool)]]
        for ci in sorted(bad)[:max(0, 4 - nbad_skel)]:
            k, w = cases[ci]
            ctx.violation("%s [%s]: the element / id / reference skeleton of the real output differs from Model/Writer.v `write` on the same tree"
                          % (labels[k], wopts_str(w)),
                          dict(doc=docs[k], wopts=wopts_str(w), op='c07-write', skeleton=results[ci].get('skeleton')))
            nbad_skel += 1
        del results, outs, items
    cases = all_cases
    ctx.cov['oracle_cases'] = hist
    ctx.cov['known_class_hits'] = klass_hits
    ctx.cov['e2e_cases'] = hist['written']
    ctx.cov['correspondence_cases'] = ncorr
    if not model_ok:
        ctx.violation("the writer-skeleton correspondence could not be evaluated", dict(op='writer-skeleton'), found_input=False)


    # ------------------------------------------------------------------ K: write-num
    nn = 400 if quick else 4000
    xs = gen_num_cases(rng, nn)
    ncases = []
    for i in range(0, len(xs) - 3, 4):
        p = rng.choice([0, 1, 2, 3, 5, 8, 11, 12, 13, 40, 255, rng.below(256)])
        ncases.append((p, xs[i:i + 4]))
    ndocs = ['<svg %s width="10" height="10"><path d="M %s %s L %s %s" stroke="black"/></svg>'
             % ((NS,) + tuple(repr(float(v)) for v in c[1])) for c in ncases]
    nouts = ctx.rvh_batch(binp, 'c07-write', ["-\t%s\t%s" % (wopts_str(dict(cp=p)), d) for (p, _), d in zip(ncases, ndocs)])
    nitems = []
    nmap = []
    from fractions import Fraction
    for ci, ((p, vals), d, o) in enumerate(zip(ncases, ndocs, nouts)):
        r = jload(o)
        if 'crash' in r or 'panic' in r:
            ctx.violation("write_num crashed with coordinates_precision=%d: %s" % (p, str({x: r[x] for x in r if x != 'dump'})[:200]),
                          dict(doc=d, wopts=wopts_str(dict(cp=p)), op='c07-write'))
            continue
        m = re.search(r' d=["\']M (\S+) (\S+) L (\S+) (\S+)["\']', r.get('text', ''))
        if not m:
            ctx.violation("write-num: path data not found in the output", dict(doc=d, wopts=wopts_str(dict(cp=p)), text=r.get('text', '')[:500]))
            continue
        for v, tok in zip(vals, m.groups()):
            try:
                real = Fraction(tok)
            except ValueError:
                ctx.violation("write_num wrote %r for %r at precision %d" % (tok, v, p), dict(doc=d, wopts=wopts_str(dict(cp=p)), token=tok))
                continue
            ctx.note_case("num/%r/%d" % (v, p), nontrivial=(v != int(v)))
            nitems.append("(%d%%Z, %s, (%d # %d))" % (p, vlib.qstr(v), real.numerator, real.denominator))
            nmap.append((ci, v, tok))
    ctx.cov['write_num_cases'] = len(nitems)
    if nitems:
        body = ("From Coq Require Import ZArith QArith Qround List Bool.\nImport ListNotations.\n" + NUM_DEFS +
                "Definition cases : list (Z * Q * Q) := [\n%s\n].\nEval vm_compute in (bad_indices num_ok cases).\n" % ";\n".join(nitems))
        rc, out = ctx.coq_eval('k_writenum', body, ['Gen.WriterNum', 'Model.WriteNum', 'Model.Corr'])
        bl = ctx.parse_N_list(out) if rc == 0 else None
        if bl is None:
            ctx.log("model evaluation (write-num) failed:\n" + out[-1500:])
            ctx.violation("the write-num correspondence could not be evaluated", dict(op='write-num'), found_input=False)
        for b in (bl or [])[:4]:
            ci, v, tok = nmap[b]
            ctx.violation("write_num: coordinate %r was written as %s at coordinates_precision=%d; Model/WriteNum.v (source-derived POW_VEC, "
                          "clamp, integer bound) disagrees" % (v, tok, ncases[ci][0]),
                          dict(doc=ndocs[ci], wopts=wopts_str(dict(cp=ncases[ci][0])), op='c07-write', value=v, written=tok))

    # ------------------------------------------------------------------ K: escape (xmlwriter layer)
    cdata_regression(ctx, binp)
    er = escape_tie(ctx, binp, 60 if quick else 600)
    esc_cex = []
    if er is None:
        ctx.violation("the escape correspondence could not be evaluated", dict(op='escape'), found_input=False)
    else:
        ctx.cov['escape_cases'] = er[0]
        esc_cex = er[2]
        for what, d, w, detail in er[1][:4]:
            ctx.violation("escape: %s: %s; Model/XmlEscape.v (escaping derived from the xmlwriter source and writer.rs) disagrees" % (what, detail),
                          dict(doc=d, wopts=w, op='c07-write', part='escape'))

    # ------------------------------------------------------------------ K: f32-parse (svgtree FromValue for f32)
    fr = f32_parse_tie(ctx, binp, 20 if quick else 400)
    f32_cex = []
    if fr is None:
        ctx.violation("the f32-parse correspondence could not be evaluated", dict(op='f32-parse'), found_input=False)
    else:
        ctx.cov['f32_parse_cases'] = fr[0]
        f32_cex = fr[2]
        for d, t, got in fr[1][:4]:
            ctx.violation("f32-parse: the attribute text %r gives k1=%r in the tree; Model/NumParse.v (step order of `FromValue for f32` derived from "
                          "svgtree/mod.rs) disagrees" % (t, got), dict(doc=d, op='dump', part='f32-parse', text=t))
    if not proof_ok and not ctx.violations and f32_cex:
        d, t, got = f32_cex[0]
        ctx.violation("model counterexample: with the source-derived step order `FromValue for f32` accepts %r as a non-finite number (it would be "
                      "written as inf / NaN)" % t, dict(doc=d, op='dump', part='f32-parse', text=t, failed_files=res['failed'], broken_ties=broken))

    # ------------------------------------------------------------------ proof broke: model-level search
    if not proof_ok and not ctx.violations and esc_cex:
        d, w, detail = esc_cex[0]
        ctx.violation("model counterexample: written as Model/XmlEscape.v (source-derived escaping) writes it, the %s is not well-formed or does not "
                      "read back as itself" % detail, dict(doc=d, wopts=w, op='c07-write', part='escape', failed_files=res['failed'], broken_ties=broken))
    if not proof_ok and not ctx.violations:
        found = False
        its = []
        smap = []
        for ci, ((k, w), r) in enumerate(search_pool):
            if r.get('skeleton') and len(its) < 600:
                it = treeref.Intern()
                ct = treeref.CoqTree(it)
                its.append("(%d, %s, %s)" % (it(w['prefix']) if w['prefix'] else 0, 'true' if w['pt'] else 'false', ct.tree(r['dump'])))
                smap.append(ci)
        body = (PRELUDE + "Definition cases : list (N * bool * tree) := [\n%s\n].\n"
                "Eval vm_compute in (bad_indices (fun c => match c with (p, pt, t) => "
                "chk_refs_closed (write {| w_prefix := p; w_preserve_text := pt |} t) end) cases).\n" % ";\n".join(its))
        rc, out = ctx.coq_eval('search_closed', body, ['Model.Tree', 'Model.Writer', 'Model.Corr'], timeout=900)
        bl = ctx.parse_N_list(out) if rc == 0 else None
        for b in bl or []:
            (k, w), rr = search_pool[smap[b]]
            probs = classify(rr, w)
            if all(c is not None for c, _ in probs) and probs:
                continue            # the model reproduces a known class on this input
            ctx.violation("model counterexample: Model/Writer.v writes a reference that is not defined exactly once for %s [%s]"
                          % (labels[k], wopts_str(w)), dict(doc=docs[k], wopts=wopts_str(w), failed_files=res['failed'], broken_ties=broken))
            found = True
            break
        if not found:
            # numbers: boolean form of the error bound on the generated table
            body = ("From Coq Require Import ZArith QArith List Bool.\nImport ListNotations.\n"
                    "Definition cases : list (Z * Q) := [\n%s\n].\n"
                    "Eval vm_compute in (bad_indices (fun c => chk_write_num (fst c) (snd c)) cases).\n"
                    % ";\n".join("(%d%%Z, %s)" % (p, vlib.qstr(v)) for p, vals in ncases for v in vals))
            rc, out = ctx.coq_eval('search_num', body, ['Gen.WriterNum', 'Model.WriteNum', 'Model.Corr'])
            bl = ctx.parse_N_list(out) if rc == 0 else None
            if bl:
                flat = [(p, v) for p, vals in ncases for v in vals]
                p, v = flat[bl[0]]
                ctx.violation("model counterexample: write_num (source-derived constants) panics or misses the error bound for %r at precision %d" % (v, p),
                              dict(doc='<svg %s width="10" height="10"><path d="M %r 1 L 2 3" stroke="black"/></svg>' % (NS, v),
                                   wopts=wopts_str(dict(cp=p)), op='c07-write', failed_files=res['failed'], broken_ties=broken))
                found = True
        if not found:
            ctx.violation("C07 proof obligations no longer check: %s %s" % (res['failed'] + res['audit'], [b['name'] for b in broken]),
                          dict(failed_files=res['failed'], audit=res['audit'], broken_ties=broken, log_tail=res['log'][-3000:]),
                          found_input=False)

    ctx.add_sample(dict(op='c07-write', doc=gen_docs[0], wopts=wopts_str(cases[-1][1])))
    ctx.add_sample(dict(op='c07-write', doc=labels[nwit + len(extra)], wopts=wopts_str(cases[2 * (nwit + len(extra))][1])))
    ctx.add_sample(dict(op='write-num', doc=ndocs[0], precision=ncases[0][0]))
    ctx.cov['rule'] = (
        "every witness, every corpus file and generated reference-graph documents (tools/props/refgen.py), each written with "
        "%d WriteOptions drawn from: id_prefix none / ascii / non-ASCII or XML- or url-special characters, preserve_text, quotes, "
        "5 indent x 4 attribute-indent modes, coordinate and transform precisions sampled over 0..255 (always some > 12).  A case is "
        "non-trivial when the written text contains at least one url(#..) or href=\"#..\" reference; distinct by (document, options).  "
        "write-num: f32 coordinates (boundary values, uniform, dyadic, huge integers) x precisions; non-trivial when the value has a "
        "fractional part." % per_doc)


def replay(ctx, path):
    r = json.load(open(path))
    rp = r.get('replay', {})
    print(json.dumps({k: v for k, v in r.items() if k != 'replay'}, indent=1))
    print(json.dumps({k: (v if k != 'skeleton' else '...') for k, v in rp.items()}, indent=1)[:3000])
    doc = rp.get('doc')
    if doc:
        binp, _ = ctx.harness('release')
        if binp:
            wo = rp.get('wopts', '-')
            o = jload(ctx.rvh_batch(binp, 'c07-write', ["-\t%s\t%s" % (wo, doc)])[0])
            print("now: %s" % json.dumps({k: v for k, v in o.items() if k not in ('dump', 'skeleton')})[:3000])
            if 'dump' in o:
                w = dict(prefix=None, pt='pt=1' in wo)
                m = re.search(r"prefix=([0-9a-f]*)", wo)
                if m:
                    w['prefix'] = bytes.fromhex(m.group(1)).decode('utf-8', 'replace')
                for cls, text in classify(o, w, src_of(doc)):
                    print("oracle: [%s] %s" % (cls, text))
    return 0
