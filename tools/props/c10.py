"""C10  Structural constructs resolve to the same tree as their expansions.

Parts:
  proof   coq/Props/C10.v over Gen/StructTables.v, Gen/LeafViewBox.v (source-derived) and Model/Structure.v
  K       use-convert      : use -> symbol / nested svg documents: accumulated transform of a probe vs
                             Model.Structure.viewport_ts (C17's source-derived to_transform inside), in Coq
          switch           : which child a switch renders vs Model.Structure.switch_choice
          transform-origin : group transform vs resolve_transform
          rect-radii       : radii recovered from the converted rect vs rect_radii
          shape-path       : segment list of every converted basic shape (degenerate point lists, invalid sizes) vs
                             Gen/ShapePaths.v (builder scripts transcribed from shapes.rs) run through Model/ShapePath.v
          use-symbol       : viewport clip decision / rectangle vs Gen/UseClip.v get_clip_rect; opacity / transform / clip
                             chain of the content of use -> symbol vs convert_use_symbol
  S       e2e-C10          : construct-vs-expansion document pairs compared on the JSON dump of the tree after
                             normalisation (pure-transform groups dissolved into accumulated transforms, ids of
                             groups / definitions ignored, numbers within 1e-4 relative)
Noise floor (thorough tier, seeds 1, 2, 3 = 3 x 12 749 pairs, + quick runs): largest relative numeric difference
between a construct and its expansion 1.5e-5 before / 3.7e-6 after comparing accumulated transforms as matrices
(use chains of depth 5 with scale factors; transform-origin 5.5e-6; path data 1.5e-6; shapes 0) (f32 products of transforms against f64 products rounded once); tolerance 1e-4.
"""
import copy
import gzip
import json
import math
import re
from fractions import Fraction

import vlib
from vlib import qstr
import gen_structure

NS = 'xmlns="http://www.w3.org/2000/svg" xmlns:xlink="http://www.w3.org/1999/xlink"'
MY_TIES = ('StructTables', 'ShapePaths', 'UseClip', 'GzipMagic', 'gen_structure', 'SvgTables', 'gen_svgtree', 'aligned_pos', 'to_transform', 'translate.py')
ALIGNS = ['none', 'xMinYMin', 'xMidYMin', 'xMaxYMin', 'xMinYMid', 'xMidYMid', 'xMaxYMid', 'xMinYMax', 'xMidYMax', 'xMaxYMax']
COQ_ALIGN = {'none': 'ANone', 'xMinYMin': 'XMinYMin', 'xMidYMin': 'XMidYMin', 'xMaxYMin': 'XMaxYMin',
             'xMinYMid': 'XMinYMid', 'xMidYMid': 'XMidYMid', 'xMaxYMid': 'XMaxYMid',
             'xMinYMax': 'XMinYMax', 'xMidYMax': 'XMidYMax', 'xMaxYMax': 'XMaxYMax'}
VIEW = 200.0      # root viewport (percentages resolve against it)


def fnum(x):
    """shortest text of a float"""
    if x == int(x) and abs(x) < 1e15:
        return str(int(x))
    return repr(float(x))


def hexs(b):
    return b.hex() if isinstance(b, bytes) else b.encode().hex()


# ------------------------------------------------------------------------------------------------ affine
def mul(a, b):
    """a * b (apply b first); row order sx, ky, kx, sy, tx, ty"""
    return [a[0] * b[0] + a[2] * b[1], a[1] * b[0] + a[3] * b[1], a[0] * b[2] + a[2] * b[3],
            a[1] * b[2] + a[3] * b[3], a[0] * b[4] + a[2] * b[5] + a[4], a[1] * b[4] + a[3] * b[5] + a[5]]


IDENT = [1.0, 0.0, 0.0, 1.0, 0.0, 0.0]


def tr(x, y):
    return [1.0, 0.0, 0.0, 1.0, float(x), float(y)]


def sc(x, y):
    return [float(x), 0.0, 0.0, float(y), 0.0, 0.0]


def rot(deg):
    a = math.radians(deg)
    return [math.cos(a), math.sin(a), -math.sin(a), math.cos(a), 0.0, 0.0]


def mat_text(m):
    return "matrix(%s)" % ' '.join(repr(float(v)) for v in m)


def viewbox_ts(vb, align, slice_, w, h):
    """python rendering of the preserveAspectRatio rules (independent of the Coq model)"""
    vx, vy, vw, vh = vb
    sx, sy = w / vw, h / vh
    if align != 'none':
        s = max(sx, sy) if slice_ else min(sx, sy)
        sx = sy = s
    x = -vx * sx
    y = -vy * sy
    ww = w - vw * sx
    hh = h - vh * sy
    if align != 'none':
        ax, ay = align[1:4], align[5:8]
        x += {'Min': 0.0, 'Mid': ww / 2, 'Max': ww}[ax]
        y += {'Min': 0.0, 'Mid': hh / 2, 'Max': hh}[ay]
    return [sx, 0.0, 0.0, sy, x, y]


# ------------------------------------------------------------------------------------------------ mini DOM
class N:
    def __init__(self, tag, attrs=None, kids=None, text=None):
        self.tag = tag
        self.attrs = dict(attrs or {})
        self.kids = list(kids or [])
        self.text = text

    def ser(self, root=False):
        a = (' ' + NS) if root else ''
        for k, v in self.attrs.items():
            a += ' %s="%s"' % (k, v)
        inner = (self.text or '') + ''.join(k.ser() for k in self.kids)
        return '<%s%s>%s</%s>' % (self.tag, a, inner, self.tag)

    def walk(self):
        yield self
        for k in self.kids:
            for x in k.walk():
                yield x


GEOM = {'x', 'y', 'width', 'height', 'xlink:href', 'transform', 'id', 'viewBox', 'preserveAspectRatio', 'overflow'}


def strip_ids(n):
    m = copy.deepcopy(n)
    for x in m.walk():
        x.attrs.pop('id', None)
    return m


def pres_of(n):
    return {k: v for k, v in n.attrs.items() if k not in GEOM}


def length(v, axis_total):
    if v is None:
        return None
    v = str(v)
    if v.endswith('%'):
        return float(v[:-1]) * axis_total / 100.0
    return float(v)


class Expander:
    def __init__(self, root):
        self.root = root
        self.ids = {}
        for n in root.walk():
            if 'id' in n.attrs and n.attrs['id'] not in self.ids:
                self.ids[n.attrs['id']] = n
        self.clips = []

    def new_clip(self, x, y, w, h):
        cid = 'gc%d' % (len(self.clips) + 1)
        self.clips.append(N('clipPath', {'id': cid}, [N('rect', {'x': fnum(x), 'y': fnum(y), 'width': fnum(w), 'height': fnum(h)})]))
        return cid

    def expand(self, n, vp=(VIEW, VIEW)):
        """-> list of nodes without use / nested svg / symbol"""
        if n.tag == 'use':
            return self.expand_use(n, vp)
        if n.tag == 'svg':
            return self.expand_svg(n, None, None, vp)
        if n.tag in ('symbol', 'defs', 'clipPath'):
            return []
        m = N(n.tag, n.attrs, [], n.text)
        if n.tag == 'a':                       # `a` is a `g`
            m.tag = 'g'
            m.attrs.pop('xlink:href', None)
        for k in n.kids:
            m.kids += self.expand(k, vp)
        return [m]

    def viewport(self, el, w, h, x, y, vp):
        """(new_ts, clip rect or None) for symbol / svg element `el` with resolved size"""
        new_ts = tr(x, y)
        if 'viewBox' in el.attrs and w > 0 and h > 0:
            vb = [float(v) for v in el.attrs['viewBox'].split()]
            par = el.attrs.get('preserveAspectRatio', 'xMidYMid meet').split()
            align = par[0]
            slice_ = len(par) > 1 and par[1] == 'slice'
            new_ts = mul(new_ts, viewbox_ts(vb, align, slice_, w, h))
        return new_ts

    def expand_svg(self, s, use_w, use_h, vp):
        x = length(s.attrs.get('x', '0'), vp[0])
        y = length(s.attrs.get('y', '0'), vp[1])
        w = use_w if use_w is not None else length(s.attrs.get('width', '100%'), vp[0])
        h = use_h if use_h is not None else length(s.attrs.get('height', '100%'), vp[1])
        new_ts = self.viewport(s, w, h, x, y, vp)
        clip = s.attrs.get('overflow') not in ('visible', 'auto')
        if clip and use_w is None and use_h is None and not ('width' in s.attrs and 'height' in s.attrs):
            clip = False
        if not (w > 0 and h > 0):
            clip = False
        if 'viewBox' in s.attrs:
            vb = [float(v) for v in s.attrs['viewBox'].split()]
            inner_vp = (vb[2], vb[3])
        else:
            inner_vp = (w, h) if (w > 0 and h > 0) else vp
        # a group with the element's own style (and transform), the viewport clip group, the viewport transform
        inner = N('g', dict(transform=mat_text(new_ts)))
        for k in s.kids:
            inner.kids += self.expand(k, inner_vp)
        own = pres_of(s)
        if 'transform' in s.attrs:
            own['transform'] = s.attrs['transform']
        if clip:
            return [N('g', own, [N('g', {'clip-path': 'url(#%s)' % self.new_clip(x, y, w, h)}, [inner])])]
        return [N('g', own, [inner])]

    def expand_use(self, u, vp):
        tgt = self.ids.get(u.attrs.get('xlink:href', '#')[1:])
        if tgt is None:
            return []
        c = strip_ids(tgt)
        x = length(u.attrs.get('x', '0'), vp[0])
        y = length(u.attrs.get('y', '0'), vp[1])
        T = u.attrs.get('transform', '')
        pres = pres_of(u)
        uid = {'id': u.attrs['id']} if 'id' in u.attrs else {}
        if c.tag == 'symbol':
            w = length(u.attrs.get('width', '100%'), vp[0])
            h = length(u.attrs.get('height', '100%'), vp[1])
            # percentages inside the symbol resolve against the use's width / height when given
            inner_vp = (w if 'width' in u.attrs and w > 0 and h > 0 else vp[0], h if 'height' in u.attrs and w > 0 and h > 0 else vp[1])
            new_ts = self.viewport(c, w, h, x, y, vp)
            clip = c.attrs.get('overflow') not in ('visible', 'auto') and w > 0 and h > 0
            kids = []
            for k in c.kids:
                kids += self.expand(k, inner_vp)
            if clip:
                inner = N('g', dict(pres_of(c), transform=mat_text(new_ts)), kids)
                if 'filter' in pres:
                    # SPEC nesting: group(use transform + style) > viewport clip > content.  A filter does not commute with the
                    # clip; usvg nests the other way round (known class use-symbol-filter-inside-viewport-clip)
                    a = dict(uid, **pres)
                    if T:
                        a['transform'] = T
                    return [N('g', a, [N('g', {'clip-path': 'url(#%s)' % self.new_clip(x, y, w, h)}, [inner])])]
                # clip-path / mask / opacity commute with the viewport clip (C10_use_symbol_as_groups: same set of effects in the
                # same coordinate systems): written in usvg's nesting order so that the trees can be compared node by node
                g2 = N('g', pres, [inner])
                a = dict(uid)
                if T:
                    a['transform'] = T
                a['clip-path'] = 'url(#%s)' % self.new_clip(x, y, w, h)
                return [N('g', a, [g2])]
            # group(use transform + style) > group(translate . viewBox transform, symbol style) > copy.  Until 214a8de this
            # expansion put the use's transform on the INNER group (as the implementation did), which hid the class
            # use-symbol-style-in-parent-space from the oracle.
            inner = N('g', dict(pres_of(c), transform=mat_text(new_ts)), kids)
            a = dict(uid, **pres)
            if T:
                a['transform'] = T
            return [N('g', a, [inner])]
        a = dict(uid, **pres)
        a['transform'] = (T + ' translate(%s %s)' % (fnum(x), fnum(y))).strip()
        if c.tag == 'svg':
            uw = length(u.attrs['width'], vp[0]) if 'width' in u.attrs else None
            uh = length(u.attrs['height'], vp[1]) if 'height' in u.attrs else None
            return [N('g', a, self.expand_svg(c, uw, uh, vp))]
        return [N('g', a, self.expand(c, vp))]

    def document(self):
        """the expansion of the whole document"""
        out = N('svg', self.root.attrs, [])
        defs = None
        for k in self.root.kids:
            if k.tag == 'defs':
                # definitions that are not use targets stay (gradients etc.); symbols / targets are dropped
                keep = [d for d in k.kids if d.tag in ('linearGradient', 'radialGradient')]
                defs = N('defs', {}, copy.deepcopy(keep))
                out.kids.append(defs)
            else:
                out.kids += self.expand(k)
        if self.clips:
            if defs is None:
                defs = N('defs', {}, [])
                out.kids.insert(0, defs)
            defs.kids += self.clips
        return out


# ------------------------------------------------------------------------------------------------ tree comparison
IGNORE = {'abs_ts', 'bbox', 'abs_bbox', 'sbbox', 'abs_sbbox', 'lbbox', 'abs_lbbox', 'fbbox', 'ptr', 'path_ptr',
          'should_isolate', 'len', 'has_text_nodes'}


def norm_children(children, acc):
    out = []
    for n in children:
        if n.get('t') == 'g':
            A = mul(acc, n['ts'])
            kids = norm_children(n.get('children', []), A)
            eff = (abs(n['opacity'] - 1.0) > 1e-9 or n['blend'] != 'Normal' or n['isolate'] or n.get('clip') is not None
                   or n.get('mask') is not None or n.get('filters'))
            if not eff:
                out += kids
            else:
                out.append({'t': 'g', 'acc': A, 'opacity': n['opacity'], 'blend': n['blend'], 'isolate': n['isolate'],
                            'clip': norm_value(n.get('clip')), 'mask': norm_value(n.get('mask')),
                            'filters': norm_value(n.get('filters')), 'children': kids})
        else:
            m = norm_value(n)
            m['acc'] = acc
            out.append(m)
    return out


def norm_value(v):
    if isinstance(v, list):
        return [norm_value(x) for x in v]
    if isinstance(v, dict):
        out = {}
        defn = 'root' in v or 'primitives' in v or 'stops' in v or 'def' in v
        for k, x in v.items():
            if k in IGNORE:
                continue
            if k == 'id' and defn:
                continue
            if k in ('root', 'flattened') and isinstance(x, dict) and x.get('t') == 'g':
                out[k] = norm_children([x], IDENT)
            else:
                out[k] = norm_value(x)
        return out
    return v


def norm_tree(tree):
    return {'size': tree['size'], 'root': norm_children([tree['root']], IDENT)}


class Diff(Exception):
    pass


def cmp_val(a, b, path, st, tol=1e-4):
    if isinstance(a, bool) or isinstance(b, bool) or a is None or b is None or isinstance(a, str) or isinstance(b, str):
        if a != b:
            raise Diff("%s: %r vs %r" % (path, a, b))
        return
    if isinstance(a, (int, float)) and isinstance(b, (int, float)):
        rel = abs(a - b) / max(1.0, abs(a), abs(b))
        if rel > tol:
            raise Diff("%s: %r vs %r" % (path, a, b))
        st[0] = max(st[0], rel)
        return
    if isinstance(a, list) and isinstance(b, list):
        if len(a) != len(b):
            raise Diff("%s: %d vs %d entries" % (path, len(a), len(b)))
        if path.endswith('.acc') and len(a) == 6 and all(isinstance(x, (int, float)) for x in a + b):
            # an accumulated transform is compared as a matrix: entries relative to its largest entry (a translation
            # obtained by cancellation carries the absolute error of the factors)
            scale = max([1.0] + [abs(x) for x in a + b])
            for i, (x, y) in enumerate(zip(a, b)):
                rel = abs(x - y) / scale
                if rel > tol:
                    raise Diff("%s[%d]: %r vs %r" % (path, i, x, y))
                st[0] = max(st[0], rel)
            return
        for i, (x, y) in enumerate(zip(a, b)):
            cmp_val(x, y, "%s[%d]" % (path, i), st, tol)
        return
    if isinstance(a, dict) and isinstance(b, dict):
        if set(a) != set(b):
            raise Diff("%s: keys %s vs %s" % (path, sorted(set(a) - set(b)), sorted(set(b) - set(a))))
        for k in a:
            cmp_val(a[k], b[k], path + '.' + k, st, tol)
        return
    raise Diff("%s: %r vs %r" % (path, type(a).__name__, type(b).__name__))


def same_tree(ja, jb):
    """-> (equal?, first difference, largest relative numeric difference)"""
    st = [0.0]
    try:
        cmp_val(norm_tree(ja), norm_tree(jb), 'tree', st)
    except Diff as e:
        return False, str(e), st[0]
    return True, '', st[0]


# ------------------------------------------------------------------------------------------------ generators
FILLS = ['red', '#00ff00', 'blue', '#123456', 'none', 'url(#lg)']
PNG = ('data:image/png;base64,iVBORw0KGgoAAAANSUhEUgAAAAIAAAACCAIAAAD91JpzAAAAFklEQVR4AWP8z8DAwMDAxMDAwMDAAAANHQEDasKb6QAAAABJRU5ErkJggg==')


def dy(rng, lo, hi, den=4):
    return (int(lo * den) + rng.below(int((hi - lo) * den) + 1)) / float(den)


def rand_pres(rng, group=True):
    a = {}
    if rng.below(2):
        a['fill'] = rng.choice(FILLS)
    if rng.below(3) == 0:
        a['stroke'] = rng.choice(['black', 'blue', 'none'])
        a['stroke-width'] = rng.choice(['1', '2.5', '4'])
    if group and rng.below(3) == 0:
        a['opacity'] = rng.choice(['0.5', '0.25', '1'])
    if rng.below(5) == 0:
        a['fill-rule'] = 'evenodd'
    if rng.below(6) == 0:
        a['visibility'] = rng.choice(['visible', 'hidden'])
    return a


def rand_leaf(rng, k):
    r = rng.below(7)
    p = rand_pres(rng)
    if r == 0:
        return N('rect', dict(p, x=fnum(dy(rng, 0, 50)), y=fnum(dy(rng, 0, 50)), width=fnum(dy(rng, 5, 60)), height=fnum(dy(rng, 5, 60))))
    if r == 1:
        return N('circle', dict(p, cx=fnum(dy(rng, 10, 80)), cy=fnum(dy(rng, 10, 80)), r=fnum(dy(rng, 3, 30))))
    if r == 2:
        return N('path', dict(p, d='M %s %s L %s %s L %s %s Z' % tuple(fnum(dy(rng, 0, 90)) for _ in range(6))))
    if r == 3:
        return N('ellipse', dict(p, cx='40', cy='30', rx=fnum(dy(rng, 3, 30)), ry=fnum(dy(rng, 3, 20))))
    if r == 4:
        return N('image', dict(x=fnum(dy(rng, 0, 40)), y='5', width='20', height='20', **{'xlink:href': PNG}))
    if r == 5:
        return N('text', dict(p, x=fnum(dy(rng, 5, 40)), y='40', **{'font-family': 'Noto Sans', 'font-size': '16'}), text='Ab')
    return N('polygon', dict(p, points='5,5 40,10 20,45'))


def rand_link(rng):
    """an `a` element: empty, with shapes, nested a > g > shape / a > a, or containing a text element"""
    a = N('a', dict(rand_pres(rng), **{'xlink:href': 'http://example.org/'}))
    r = rng.below(5)
    if r == 0:
        pass
    elif r == 1:
        a.kids = [rand_leaf(rng, 0) for _ in range(1 + rng.below(3))]
    elif r == 2:
        a.kids = [N('g', rand_pres(rng), [rand_leaf(rng, 0)])]
    elif r == 3:
        a.kids = [N('a', {'xlink:href': '#x'}, [rand_leaf(rng, 0)]), rand_leaf(rng, 0)]
    else:
        a.kids = [N('text', {'x': '10', 'y': '40', 'font-family': 'Noto Sans', 'font-size': '16'}, text='Link')]
    if rng.below(3) == 0:
        a.attrs['transform'] = rand_transform(rng)
    return a


def a_to_g(n):
    """the expansion of `a`: the same element as a `g` (the link itself is dropped)"""
    m = copy.deepcopy(n)
    for x in m.walk():
        if x.tag == 'a':
            x.tag = 'g'
            x.attrs.pop('xlink:href', None)
    return m


def rand_transform(rng):
    fs = []
    for _ in range(1 + rng.below(3)):
        r = rng.below(5)
        if r == 0:
            fs.append('translate(%s %s)' % (fnum(dy(rng, -30, 60)), fnum(dy(rng, -30, 60))))
        elif r == 1:
            fs.append('scale(%s)' % fnum(rng.choice([0.5, 2, 1.5, 0.25])))
        elif r == 2:
            fs.append('rotate(%s)' % fnum(rng.choice([30, 45, 90, -60, 17.5])))
        elif r == 3:
            fs.append('scale(%s %s)' % (fnum(rng.choice([0.5, 2, -1])), fnum(rng.choice([1, 1.5, 3]))))
        else:
            fs.append('skewX(%s)' % fnum(rng.choice([10, 30, -20])))
    return ' '.join(fs)


def shaped_viewbox(rng, w, h):
    """viewBox whose SIZE is in a special relation to the viewport size (w, h), always with a non-zero origin: equal, same
    aspect, swapped, off by a tiny amount - the places where a 'nothing to fit' shortcut would be tempting"""
    ox = rng.choice([-20.0, 30.0, 12.5, -7.25])
    oy = rng.choice([-20.0, 10.0, -3.5, 40.0])
    r = rng.below(5)
    if r == 0:
        return [ox, oy, w, h], 'equal'
    if r == 1:
        k = rng.choice([2.0, 0.5, 4.0, 0.25])
        return [ox, oy, w * k, h * k], 'same-aspect'
    if r == 2:
        return [ox, oy, h, w], 'swapped'
    if r == 3:
        e = rng.choice([1.0 + 2.0 ** -10, 1.0 - 2.0 ** -12, 1.0 + 2.0 ** -16])
        return [ox, oy, w * e, h], 'tiny-diff'
    return [ox, oy, w, h * rng.choice([2.0, 0.5])], 'one-side-equal'


def gen_use_doc(rng, nth):
    """document with use chains over every target kind"""
    root = N('svg', {'width': '200', 'height': '200', 'viewBox': '0 0 200 200'})
    defs = N('defs', {}, [N('linearGradient', {'id': 'lg'}, [N('stop', {'offset': '0', 'stop-color': 'red'}),
                                                             N('stop', {'offset': '1', 'stop-color': 'blue'})])])
    root.kids.append(defs)
    targets = []

    def add_target(n, where):
        n.attrs['id'] = 't%d' % (len(targets) + 1)
        targets.append(n)
        where.kids.append(n)
    kinds = ['shape', 'g', 'svg', 'symbol', 'image', 'text', 'use', 'a']
    want = [kinds[nth % len(kinds)]] + [rng.choice(kinds) for _ in range(rng.below(3))]
    body = N('g', rand_pres(rng, group=False))
    root.kids.append(body)
    for kind in want:
        where = defs if rng.below(2) else body
        if kind == 'shape':
            add_target(rand_leaf(rng, 0), where)
        elif kind in ('image', 'text'):
            leaf = rand_leaf(rng, 0)
            while leaf.tag != kind:
                leaf = rand_leaf(rng, 0)
            add_target(leaf, where)
        elif kind == 'a':
            add_target(rand_link(rng), where)
        elif kind == 'g':
            g = N('g', rand_pres(rng), [rand_leaf(rng, 0) for _ in range(1 + rng.below(3))])
            if rng.below(2):
                g.attrs['transform'] = rand_transform(rng)
            for i, k in enumerate(g.kids):
                if rng.below(2):
                    k.attrs['id'] = 'k%d_%d' % (len(targets), i)
            add_target(g, where)
        elif kind in ('svg', 'symbol'):
            a = rand_pres(rng)
            if kind == 'svg' and rng.below(4) == 0:
                a['transform'] = rand_transform(rng)
            if kind == 'svg':
                if rng.below(4) > 0:
                    a['x'] = fnum(dy(rng, 0, 40))
                    a['y'] = fnum(dy(rng, 0, 40))
                if rng.below(4) > 0:
                    a['width'] = fnum(dy(rng, 20, 120))
                if rng.below(4) > 0:
                    a['height'] = fnum(dy(rng, 20, 120))
            if rng.below(3) > 0:
                a['viewBox'] = '%s %s %s %s' % (fnum(dy(rng, -20, 20)), fnum(dy(rng, -20, 20)), fnum(dy(rng, 20, 150)), fnum(dy(rng, 20, 150)))
                if rng.below(2):
                    al = rng.choice(ALIGNS)
                    a['preserveAspectRatio'] = al if al == 'none' else al + rng.choice(['', ' meet', ' slice'])
            if rng.below(2):
                a['overflow'] = rng.choice(['visible', 'hidden', 'auto', 'scroll'])
            add_target(N(kind, a, [rand_leaf(rng, 0) for _ in range(1 + rng.below(2))]), defs if kind == 'symbol' else where)
        else:  # use -> use chain
            if targets:
                t = rng.choice(targets)
                u = N('use', {'xlink:href': '#' + t.attrs['id']})
                if rng.below(2):
                    u.attrs['x'] = fnum(dy(rng, -10, 30))
                if rng.below(3) == 0:
                    u.attrs['transform'] = rand_transform(rng)
                u.attrs.update(rand_pres(rng))
                add_target(u, where)
    if not targets:
        add_target(rand_leaf(rng, 0), defs)
    # uses (chains up to depth 4 arise from use targets that are uses)
    for i in range(1 + rng.below(3)):
        t = rng.choice(targets)
        u = N('use', {'xlink:href': '#' + t.attrs['id'], 'id': 'u%d' % i})
        if rng.below(4) > 0:
            u.attrs['x'] = fnum(dy(rng, -20, 60))
            u.attrs['y'] = fnum(dy(rng, -20, 60))
        if rng.below(3) == 0:
            u.attrs['transform'] = rand_transform(rng)
        pct = t.tag in ('svg', 'symbol')
        if rng.below(2):
            u.attrs['width'] = rng.choice([fnum(dy(rng, 20, 150)), '50%' if pct else fnum(dy(rng, 20, 150))])
        if rng.below(2):
            u.attrs['height'] = rng.choice([fnum(dy(rng, 20, 150)), '25%' if pct else fnum(dy(rng, 20, 150))])
        u.attrs.update(rand_pres(rng))
        body.kids.append(u)
        if rng.below(4) == 0 and len(targets) < 6:
            # a use of this use: chain one level deeper
            u2 = N('use', {'xlink:href': '#u%d' % i, 'x': fnum(dy(rng, 0, 20))})
            body.kids.append(u2)
    if nth % 4 == 0:
        # an explicit chain use -> use -> .. -> target (depth 1 .. 8), every level with its own offsets / style
        t = rng.choice(targets)
        prev = t.attrs['id']
        # chain length 1 .. 8 (seeded/C10-16 attacks a depth guard): depth = levels + 1
        for lvl in range(rng.choice([0, 1, 2, 3, 3, 3, 4, 4, 5, 6, 7])):
            u = N('use', {'xlink:href': '#' + prev, 'id': 'ch%d' % lvl})
            if rng.below(3) > 0:
                u.attrs['x'] = fnum(dy(rng, -10, 25))
                u.attrs['y'] = fnum(dy(rng, -10, 25))
            if rng.below(3) == 0:
                u.attrs['transform'] = rand_transform(rng)
            u.attrs.update(rand_pres(rng))
            (defs if rng.below(2) else body).kids.append(u)
            prev = 'ch%d' % lvl
        top = N('use', {'xlink:href': '#' + prev, 'id': 'top', 'x': fnum(dy(rng, 0, 40))})
        if t.tag == 'svg' and rng.below(2):
            top.attrs['width'] = fnum(dy(rng, 20, 150))
        body.kids.append(top)
    return root


def chain_depth(root):
    ids = {n.attrs['id']: n for n in root.walk() if 'id' in n.attrs}

    def d(n, seen=()):
        if n.tag != 'use':
            return max([0] + [d(k, seen) for k in n.kids])
        t = ids.get(n.attrs['xlink:href'][1:])
        if t is None or t in seen:
            return 1
        return 1 + d(t, seen + (t,))
    return max(d(n) for n in root.walk())


# ---- shapes vs paths
def rect_path(x, y, w, h, rx, ry):
    def neg(v):
        return v is not None and (v < 0 or (v == 0 and math.copysign(1, v) < 0))
    if neg(rx):
        rx = None
    if neg(ry):
        ry = None
    if rx is None and ry is None:
        rx = ry = 0.0
    elif ry is None:
        ry = rx
    elif rx is None:
        rx = ry
    rx = min(rx, w / 2)
    ry = min(ry, h / 2)
    if rx == 0:
        return 'M %s %s L %s %s L %s %s L %s %s Z' % tuple(fnum(v) for v in (x, y, x + w, y, x + w, y + h, x, y + h))
    f = fnum
    return ('M %s %s L %s %s A %s %s 0 0 1 %s %s L %s %s A %s %s 0 0 1 %s %s L %s %s A %s %s 0 0 1 %s %s L %s %s A %s %s 0 0 1 %s %s Z'
            % (f(x + rx), f(y), f(x + w - rx), f(y), f(rx), f(ry), f(x + w), f(y + ry),
               f(x + w), f(y + h - ry), f(rx), f(ry), f(x + w - rx), f(y + h),
               f(x + rx), f(y + h), f(rx), f(ry), f(x), f(y + h - ry),
               f(x), f(y + ry), f(rx), f(ry), f(x + rx), f(y)))


def ellipse_path(cx, cy, rx, ry):
    f = fnum
    return ('M %s %s A %s %s 0 0 1 %s %s A %s %s 0 0 1 %s %s A %s %s 0 0 1 %s %s A %s %s 0 0 1 %s %s Z'
            % (f(cx + rx), f(cy), f(rx), f(ry), f(cx), f(cy + ry), f(rx), f(ry), f(cx - rx), f(cy),
               f(rx), f(ry), f(cx), f(cy - ry), f(rx), f(ry), f(cx + rx), f(cy)))


def degenerate_points(rng):
    """-> (points that count, text of the points attribute, class): point lists at the edges of points_to_path"""
    mode = rng.below(8)
    pts = [(dy(rng, 0, 180), dy(rng, 0, 180)) for _ in range(3 + rng.below(4))]
    tail = ''
    if mode == 0:                                  # the last point repeats the first one (explicitly closed)
        pts.append(pts[0])
        cls = 'closing-repeat'
    elif mode == 1:                                # repeated consecutive points (also at the start / the end)
        j = rng.choice([0, len(pts) - 1, rng.below(len(pts))])
        pts.insert(j, pts[j])
        cls = 'duplicate'
    elif mode == 2:                                # all points coincide
        pts = [pts[0]] * (2 + rng.below(3))
        cls = 'all-same'
    elif mode == 3:
        pts = pts[:1]
        cls = 'single'
    elif mode == 4:
        pts = pts[:2]
        cls = 'two'
    elif mode == 5:                                # odd number of coordinates: the lone one is dropped
        pts = pts[:1 + rng.below(4)]
        tail = ' %s' % fnum(dy(rng, 0, 180))
        cls = 'odd-count'
    elif mode == 6:                                # closed, and the closing point given twice
        pts = pts + [pts[0], pts[0]]
        cls = 'closing-twice'
    else:                                          # first == second == last
        pts = [pts[0]] + pts + [pts[0]]
        pts.insert(1, pts[0])
        cls = 'closing-and-start-duplicate'
    sep = rng.choice([',', ' '])
    return pts, rng.choice([' ', ', ']).join('%s%s%s' % (fnum(a), sep, fnum(b)) for a, b in pts) + tail, cls


def gzip_member(data, rng, flags):
    """RFC 1952 member around a raw deflate stream, with the optional header fields named in `flags`
    (FTEXT 1, FHCRC 2, FEXTRA 4, FNAME 8, FCOMMENT 16), any MTIME / XFL / OS"""
    import struct
    import zlib
    co = zlib.compressobj(rng.choice([1, 6, 9]), zlib.DEFLATED, -15)
    raw = co.compress(data) + co.flush()
    hdr = bytes([0x1f, 0x8b, 8, flags]) + struct.pack('<I', rng.choice([0, 1, 1700000000])) + bytes([rng.choice([0, 2, 4]), rng.choice([0, 3, 255])])
    if flags & 4:
        extra = bytes(rng.below(256) for _ in range(rng.below(12)))
        hdr += struct.pack('<H', len(extra)) + extra
    if flags & 8:
        hdr += rng.choice([b'drawing.svg', b'a', b'x' * 40]) + b'\0'
    if flags & 16:
        hdr += rng.choice([b'made by hand', b'']) + b'\0'
    if flags & 2:
        hdr += struct.pack('<H', zlib.crc32(hdr) & 0xffff)
    return hdr + raw + struct.pack('<II', zlib.crc32(data) & 0xffffffff, len(data) & 0xffffffff)


def gen_shape_pair(rng):
    """-> (shape element text, equivalent path element text)"""
    p = rand_pres(rng, group=False)
    p.setdefault('stroke', 'black')
    pa = ''.join(' %s="%s"' % kv for kv in p.items())
    k = rng.below(6)

    def val(v, total):
        """attribute text of a length, sometimes as a percentage of the viewport"""
        if rng.below(5) == 0:
            return '%s%%' % fnum(v * 100.0 / total)
        return fnum(v)
    if k == 0:
        x, y, w, h = dy(rng, 0, 60), dy(rng, 0, 60), dy(rng, 8, 100), dy(rng, 8, 100)
        rx = rng.choice([None, None, dy(rng, 0, 20), dy(rng, 30, 80), -3.0])
        ry = rng.choice([None, None, dy(rng, 0, 20), dy(rng, 30, 80), -2.0])
        a = ' x="%s" y="%s" width="%s" height="%s"' % (val(x, VIEW), val(y, VIEW), val(w, VIEW), val(h, VIEW))
        if rx is not None:
            a += ' rx="%s"' % (val(rx, VIEW) if rx >= 0 else fnum(rx))
        if ry is not None:
            a += ' ry="%s"' % (val(ry, VIEW) if ry >= 0 else fnum(ry))
        return '<rect id="s"%s%s/>' % (a, pa), '<path id="s"%s d="%s"/>' % (pa, rect_path(x, y, w, h, rx, ry)), 'rect'
    if k == 1:
        cx, cy, r = dy(rng, 10, 100), dy(rng, 10, 100), dy(rng, 2, 60)
        return ('<circle id="s" cx="%s" cy="%s" r="%s"%s/>' % (val(cx, VIEW), val(cy, VIEW), fnum(r), pa),
                '<path id="s"%s d="%s"/>' % (pa, ellipse_path(cx, cy, r, r)), 'circle')
    if k == 2:
        cx, cy, rx, ry = dy(rng, 10, 100), dy(rng, 10, 100), dy(rng, 2, 60), dy(rng, 2, 60)
        form = rng.below(3)
        if form == 0:
            a = ' rx="%s" ry="%s"' % (val(rx, VIEW), val(ry, VIEW))
        elif form == 1:
            a = ' rx="%s"' % fnum(rx)
            ry = rx
        else:
            a = ' ry="%s"' % fnum(ry)
            rx = ry
        return ('<ellipse id="s" cx="%s" cy="%s"%s%s/>' % (fnum(cx), fnum(cy), a, pa),
                '<path id="s"%s d="%s"/>' % (pa, ellipse_path(cx, cy, rx, ry)), 'ellipse')
    if k == 3:
        x1, y1, x2, y2 = dy(rng, 0, 150), dy(rng, 0, 150), dy(rng, 0, 150), dy(rng, 0, 150)
        if (x1, y1) == (x2, y2):
            x2 += 5
        return ('<line id="s" x1="%s" y1="%s" x2="%s" y2="%s"%s/>' % (val(x1, VIEW), val(y1, VIEW), fnum(x2), fnum(y2), pa),
                '<path id="s"%s d="M %s %s L %s %s"/>' % (pa, fnum(x1), fnum(y1), fnum(x2), fnum(y2)), 'line')
    if rng.below(2):
        # seeded/C10-12: closing / repeated / coinciding points, one or two points, odd coordinate counts
        pts, ptxt, cls = degenerate_points(rng)
        el = 'polyline' if k == 4 else 'polygon'
        if len(pts) < 2:
            return '<%s id="s" points="%s"%s/>' % (el, ptxt, pa), '', el + '-degenerate'
        d = 'M %s %s' % (fnum(pts[0][0]), fnum(pts[0][1])) + ''.join(' L %s %s' % (fnum(a), fnum(b)) for a, b in pts[1:])
        return ('<%s id="s" points="%s"%s/>' % (el, ptxt, pa), '<path id="s"%s d="%s%s"/>' % (pa, d, ' Z' if k == 5 else ''),
                el + '-degenerate')
    pts = [(dy(rng, 0, 180), dy(rng, 0, 180)) for _ in range(2 + rng.below(5))]
    sep = rng.choice([',', ' '])
    ptxt = rng.choice([' ', ', ']).join('%s%s%s' % (fnum(a), sep, fnum(b)) for a, b in pts)
    d = 'M %s %s' % (fnum(pts[0][0]), fnum(pts[0][1])) + ''.join(' L %s %s' % (fnum(a), fnum(b)) for a, b in pts[1:])
    if k == 4:
        return '<polyline id="s" points="%s"%s/>' % (ptxt, pa), '<path id="s"%s d="%s"/>' % (pa, d), 'polyline'
    return '<polygon id="s" points="%s"%s/>' % (ptxt, pa), '<path id="s"%s d="%s Z"/>' % (pa, d), 'polygon'


# ---- path data forms
def gen_path_pair(rng):
    """-> (d in random relative / shorthand forms, d with absolute explicit commands)"""
    cur = (dy(rng, 0, 100), dy(rng, 0, 100))
    start = cur
    segs = [('M', cur)]
    last_c2 = None
    last_q1 = None
    for _ in range(2 + rng.below(7)):
        r = rng.below(9)
        nxt = (dy(rng, 0, 180), dy(rng, 0, 180))
        if r <= 1:
            segs.append(('L', nxt))
        elif r == 2:
            nxt = (nxt[0], cur[1]) if rng.below(2) else (cur[0], nxt[1])
            if nxt == cur:
                nxt = (cur[0] + 10, cur[1])
            segs.append(('L', nxt))
        elif r == 3:
            segs.append(('C', (dy(rng, 0, 180), dy(rng, 0, 180)), (dy(rng, 0, 180), dy(rng, 0, 180)), nxt))
        elif r == 4 and last_c2 is not None:
            c1 = (2 * cur[0] - last_c2[0], 2 * cur[1] - last_c2[1])       # smooth: reflected control point
            segs.append(('C', c1, (dy(rng, 0, 180), dy(rng, 0, 180)), nxt, 'smooth'))
        elif r == 5:
            segs.append(('Q', (dy(rng, 0, 180), dy(rng, 0, 180)), nxt))
        elif r == 6 and last_q1 is not None:
            q1 = (2 * cur[0] - last_q1[0], 2 * cur[1] - last_q1[1])
            segs.append(('Q', q1, nxt, 'smooth'))
        elif r == 7:
            segs.append(('A', dy(rng, 5, 60), dy(rng, 5, 60), rng.choice([0, 30, 45]), rng.below(2), rng.below(2), nxt))
        else:
            if cur != start and segs[-1][0] != 'M':
                segs.append(('Z',))
                nxt = start
                if rng.below(2):
                    start2 = (dy(rng, 0, 100), dy(rng, 0, 100))
                    segs.append(('M', start2))
                    start = start2
                    nxt = start2
            else:
                segs.append(('L', nxt))
        s = segs[-1]
        last_c2 = s[2] if s[0] == 'C' else None
        last_q1 = s[1] if s[0] == 'Q' else None
        cur = nxt
    f = fnum
    absd = []
    for s in segs:
        if s[0] in ('M', 'L'):
            absd.append('%s %s %s' % (s[0], f(s[1][0]), f(s[1][1])))
        elif s[0] == 'C':
            absd.append('C %s %s %s %s %s %s' % (f(s[1][0]), f(s[1][1]), f(s[2][0]), f(s[2][1]), f(s[3][0]), f(s[3][1])))
        elif s[0] == 'Q':
            absd.append('Q %s %s %s %s' % (f(s[1][0]), f(s[1][1]), f(s[2][0]), f(s[2][1])))
        elif s[0] == 'A':
            absd.append('A %s %s %s %d %d %s %s' % (f(s[1]), f(s[2]), f(s[3]), s[4], s[5], f(s[6][0]), f(s[6][1])))
        else:
            absd.append('Z')
    # variant
    out = []
    cur = (0.0, 0.0)
    start = cur
    prev_cmd = None
    for s in segs:
        rel = rng.below(2) == 1
        ox, oy = (cur if rel else (0.0, 0.0))

        def P(p):
            return '%s%s%s' % (f(p[0] - ox), rng.choice([' ', ',', ' , ']), f(p[1] - oy))
        if s[0] == 'M':
            out.append(('m' if rel else 'M') + ' ' + P(s[1]))
            cur = s[1]
            start = cur
            prev_cmd = 'm' if rel else 'M'
        elif s[0] == 'L':
            p = s[1]
            if p[1] == cur[1] and rng.below(3) > 0:
                out.append(('h %s' % f(p[0] - cur[0])) if rel else ('H %s' % f(p[0])))
                prev_cmd = None
            elif p[0] == cur[0] and rng.below(3) > 0:
                out.append(('v %s' % f(p[1] - cur[1])) if rel else ('V %s' % f(p[1])))
                prev_cmd = None
            elif prev_cmd in ('m', 'M', 'l', 'L') and ((prev_cmd in ('m', 'l')) == rel) and rng.below(2):
                out.append(P(p))                       # implicit lineto
                prev_cmd = 'l' if rel else 'L'
            else:
                out.append(('l' if rel else 'L') + ' ' + P(p))
                prev_cmd = 'l' if rel else 'L'
            cur = p
        elif s[0] == 'C':
            if len(s) == 5 and rng.below(4) > 0:
                out.append(('s' if rel else 'S') + ' ' + P(s[2]) + ' ' + P(s[3]))
            else:
                out.append(('c' if rel else 'C') + ' ' + P(s[1]) + ' ' + P(s[2]) + ' ' + P(s[3]))
            cur = s[3]
            prev_cmd = None
        elif s[0] == 'Q':
            if len(s) == 4 and rng.below(4) > 0:
                out.append(('t' if rel else 'T') + ' ' + P(s[2]))
            else:
                out.append(('q' if rel else 'Q') + ' ' + P(s[1]) + ' ' + P(s[2]))
            cur = s[2]
            prev_cmd = None
        elif s[0] == 'A':
            flags = rng.choice(['%d %d ', '%d,%d,', '%d%d ']) % (s[4], s[5])
            out.append(('a' if rel else 'A') + ' %s %s %s %s%s' % (f(s[1]), f(s[2]), f(s[3]), flags, P(s[6])))
            cur = s[6]
            prev_cmd = None
        else:
            out.append(rng.choice(['z', 'Z']))
            cur = start
            prev_cmd = None
    text = ''
    for tok in out:
        if text and (not tok[0].isalpha() or rng.below(2)):
            text += ' '
        text += tok
    return text, ' '.join(absd)


# ---- transform lists
def gen_transform_pair(rng):
    """-> (attrs of the construct, attrs of the expansion, kind)"""
    fs = []
    m = list(IDENT)
    for _ in range(1 + rng.below(4)):
        r = rng.below(8)
        if r == 0:
            a, b = dy(rng, -50, 80), dy(rng, -50, 80)
            if rng.below(3) == 0:
                fs.append('translate(%s)' % fnum(a))
                b = 0.0
            else:
                fs.append('translate(%s%s%s)' % (fnum(a), rng.choice([' ', ',', ', ']), fnum(b)))
            m = mul(m, tr(a, b))
        elif r == 1:
            a = rng.choice([0.5, 2, 1.5, -1, 0.25])
            if rng.below(2):
                fs.append('scale(%s)' % fnum(a))
                m = mul(m, sc(a, a))
            else:
                b = rng.choice([0.5, 2, 3, -2])
                fs.append('scale(%s %s)' % (fnum(a), fnum(b)))
                m = mul(m, sc(a, b))
        elif r == 2:
            a = rng.choice([30, 45, 90, -60, 17.5, 180, 270])
            fs.append('rotate(%s)' % fnum(a))
            m = mul(m, rot(a))
        elif r == 3:
            a, cx, cy = rng.choice([30, 45, 90, -60]), dy(rng, 0, 100), dy(rng, 0, 100)
            fs.append('rotate(%s %s %s)' % (fnum(a), fnum(cx), fnum(cy)))
            m = mul(mul(mul(m, tr(cx, cy)), rot(a)), tr(-cx, -cy))
        elif r == 4:
            a = rng.choice([10, 30, -20, 45])
            fs.append('skewX(%s)' % fnum(a))
            m = mul(m, [1.0, 0.0, math.tan(math.radians(a)), 1.0, 0.0, 0.0])
        elif r == 5:
            a = rng.choice([10, 30, -20, 45])
            fs.append('skewY(%s)' % fnum(a))
            m = mul(m, [1.0, math.tan(math.radians(a)), 0.0, 1.0, 0.0, 0.0])
        else:
            v = [rng.choice([1, 0.5, 2, -1]), rng.choice([0, 0.25]), rng.choice([0, -0.5]), rng.choice([1, 1.5]), dy(rng, -20, 40), dy(rng, -20, 40)]
            fs.append('matrix(%s)' % rng.choice([' ', ',']).join(fnum(x) for x in v))
            m = mul(m, [float(x) for x in v])
    text = rng.choice([' ', ', ', '  ']).join(fs)
    if rng.below(3) == 0:
        ox, oy = dy(rng, 0, 120), dy(rng, 0, 120)
        ot = '%s %s' % (fnum(ox), fnum(oy))
        if rng.below(3) == 0:
            ot = '%s%% %s%%' % (fnum(ox * 100 / VIEW), fnum(oy * 100 / VIEW))
        mm = mul(mul(tr(ox, oy), m), tr(-ox, -oy))
        return {'transform': text, 'transform-origin': ot}, {'transform': mat_text(mm)}, 'transform-origin'
    return {'transform': text}, {'transform': mat_text(m)}, 'transform-list'


FEATURE_OK = "http://www.w3.org/TR/SVG11/feature#Shape"
FEATURE_OK2 = "http://www.w3.org/TR/SVG11/feature#BasicStructure"
FEATURE_BAD = "http://www.w3.org/TR/SVG11/feature#Font"


def gen_switch(rng, features_ok):
    """-> (children as (attr text, passes?), languages option)"""
    langs = rng.choice([['en'], ['en'], ['de', 'fr'], ['ru-RU'], []])
    kids = []
    for _ in range(1 + rng.below(5)):
        a = {}
        ok = True
        r = rng.below(8)
        if r == 0:
            a['requiredExtensions'] = rng.choice(['', 'http://example.org/ext'])
            ok = False
        if rng.below(3) == 0:
            fs = [rng.choice(features_ok + [FEATURE_BAD, 'bogus']) for _ in range(1 + rng.below(3))]
            a['requiredFeatures'] = ' '.join(fs)
            if any(f not in features_ok for f in fs):
                ok = False
        if rng.below(2) == 0:
            ls = [rng.choice(['en', 'en-US', 'de', 'fr-CA', 'ru', 'ru-RU', 'x']) for _ in range(1 + rng.below(3))]
            a['systemLanguage'] = rng.choice([',', ', ', ' , ']).join(ls)
            hit = False
            for l in ls:
                if l in langs or ('-' in l and l.split('-')[0] in langs):
                    hit = True
            if not hit:
                ok = False
        kids.append((a, ok))
    return kids, langs


# =================================================================================================
def parse_json(o):
    try:
        return json.loads(o)
    except (TypeError, ValueError):
        return {'error': 'unparsable harness output'}


def first_path(tree, pred):
    found = []

    def walk(n, acc):
        if n.get('t') == 'g':
            A = mul(acc, n['ts'])
            for c in n.get('children', []):
                walk(c, A)
        elif pred(n):
            found.append((n, acc))
    if 'root' in tree:
        walk(tree['root'], IDENT)
    return found


def coq_ts(t):
    return "(from_row %s)" % ' '.join(qstr(v) for v in t)


def run_k(ctx, binp, T, quick):
    rng = ctx.rng
    ok_all = True
    # ---------------------------------------------------------------- use-convert (viewport of symbol / nested svg)
    cases = []
    n = 240 if quick else 1500
    shapes_hist = {}
    for i in range(n):
        kind = ['symbol', 'svg'][i % 2]
        vb = [dy(rng, -40, 40), dy(rng, -40, 40), dy(rng, 8, 200), dy(rng, 8, 200)] if rng.below(5) > 0 else None
        al = rng.choice(ALIGNS)
        sl = bool(rng.below(2))
        x, y = dy(rng, -30, 60), dy(rng, -30, 60)
        uw = dy(rng, 10, 180) if rng.below(2) else None
        uh = dy(rng, 10, 180) if rng.below(2) else None
        # symbol targets: sometimes a percentage of the viewport
        pw = rng.choice([50.0, 25.0, 80.0]) if (kind == 'symbol' and rng.below(4) == 0) else None
        ph = rng.choice([50.0, 40.0]) if (kind == 'symbol' and rng.below(4) == 0) else None
        sw_, sh_ = dy(rng, 10, 180), dy(rng, 10, 180)          # the nested svg's own size
        sx, sy = (dy(rng, -10, 30), dy(rng, -10, 30)) if kind == 'svg' else (0.0, 0.0)
        tm = [rng.choice([1.0, 2.0, 0.5]), 0.0, 0.0, rng.choice([1.0, 1.5]), dy(rng, -10, 20), dy(rng, -10, 20)] if rng.below(2) else None
        if pw is None and ph is None and i % 3 == 0:
            # viewBox size in a special relation to the resolved viewport size (equal, same aspect, swapped, tiny difference)
            rw_ = (uw if uw is not None else (VIEW if kind == 'symbol' else sw_))
            rh_ = (uh if uh is not None else (VIEW if kind == 'symbol' else sh_))
            vb, shape_ = shaped_viewbox(rng, rw_, rh_)
            shapes_hist[shape_] = shapes_hist.get(shape_, 0) + 1
        a = ''
        if vb:
            a += ' viewBox="%s"' % ' '.join(fnum(v) for v in vb)
            a += ' preserveAspectRatio="%s"' % (al if al == 'none' else al + (' slice' if sl else ' meet'))
        a += ' overflow="visible"'
        probe = '<rect id="probe" fill="#010203" x="1" y="2" width="3" height="4"/>'
        ua = ' x="%s" y="%s"' % (fnum(x), fnum(y))
        if pw is not None:
            ua += ' width="%s%%"' % fnum(pw)
        elif uw is not None:
            ua += ' width="%s"' % fnum(uw)
        if ph is not None:
            ua += ' height="%s%%"' % fnum(ph)
        elif uh is not None:
            ua += ' height="%s"' % fnum(uh)
        if tm:
            ua += ' transform="%s"' % mat_text(tm)
        vbq = ("(Some {| vb_rect := {| rx := %s; ry := %s; rw := %s; rh := %s |}; vb_aspect := {| ar_align := %s; ar_slice := %s |} |})"
               % (qstr(vb[0]), qstr(vb[1]), qstr(vb[2]), qstr(vb[3]), COQ_ALIGN[al], 'true' if sl else 'false')) if vb else 'None'
        orig = coq_ts(tm) if tm else 'ts_identity'

        def oq(v):
            return 'None' if v is None else '(Some %s)' % qstr(v)
        if kind == 'symbol':
            d = '<svg %s width="200" height="200"><symbol id="t"%s>%s</symbol><use xlink:href="#t"%s/></svg>' % (NS, a, probe, ua)
            def sl_(p_, a_):
                if p_ is not None:
                    return '(Some (LPct %s))' % qstr(p_)
                return 'None' if a_ is None else '(Some (LAbs %s))' % qstr(a_)
            e = "(viewport_ts %s %s %s %s {| sw := symbol_use_side %s %s; sh := symbol_use_side %s %s |})" % (
                orig, qstr(x), qstr(y), vbq, qstr(VIEW), sl_(pw, uw), qstr(VIEW), sl_(ph, uh))
        else:
            d = ('<svg %s width="200" height="200"><defs><svg id="t" x="%s" y="%s" width="%s" height="%s"%s>%s</svg></defs>'
                 '<use xlink:href="#t"%s/></svg>' % (NS, fnum(sx), fnum(sy), fnum(sw_), fnum(sh_), a, probe, ua))
            e = ("(ts_concat (use_group_ts %s %s %s) (viewport_ts ts_identity %s %s %s (override_size %s %s {| sw := %s; sh := %s |})))"
                 % (orig, qstr(x), qstr(y), qstr(sx), qstr(sy), vbq, oq(uw), oq(uh), qstr(sw_), qstr(sh_)))
        cases.append((d, e, kind))
    outs = ctx.rvh_batch(binp, 'dump', ["-\t" + d for d, _, _ in cases])
    items, idx = [], []
    for i, ((d, e, kind), o) in enumerate(zip(cases, outs)):
        tree = parse_json(o)
        pr = first_path(tree, lambda nn: nn.get('t') == 'path' and nn.get('fill') and nn['fill']['paint'].get('rgb') == [1, 2, 3])
        if len(pr) != 1:
            ctx.violation("use-convert: probe not found in the converted tree of a use -> %s document: %s" % (kind, str(tree)[:150]),
                          dict(op='dump', doc=d))
            continue
        ctx.note_case('use-convert/' + d)
        items.append("(%s, %s)" % (e, coq_ts(pr[0][1])))
        idx.append(i)
    ctx.cov['use_convert_cases'] = len(cases)
    ctx.cov['use_convert_viewbox_shapes'] = shapes_hist
    if cases:
        ctx.add_sample(dict(op='use-convert', doc=cases[0][0]))
    if items:
        body = ("Local Open Scope Q_scope.\nDefinition cases : list (ts * ts) := [\n%s\n].\n"
                "Eval vm_compute in (bad_indices (fun p => ts_close (1 # 5000) (fst p) (snd p)) cases).\n" % ";\n".join(items))
        rc, out = ctx.coq_eval('k_useconvert', body, ['Model.Base', 'Model.GeomPrims', 'Model.Corr', 'Gen.SvgTables', 'Gen.StructTables',
                                                        'Gen.LeafViewBox', 'Model.Structure'])
        bad = ctx.parse_N_list(out) if rc == 0 else None
        if bad is None:
            ctx.log("use-convert: model evaluation failed:\n" + out[-1500:])
            ok_all = False
        else:
            ctx.cov['correspondence_cases'] = ctx.cov.get('correspondence_cases', 0) + len(items)
            for b in bad[:3]:
                i = idx[b]
                ctx.violation("use-convert: the transform generated for use -> %s differs from the model (orig . translate . "
                              "to_transform(viewBox, use-overridden size))" % cases[i][2],
                              dict(op='dump', doc=cases[i][0], model_expr=cases[i][1]))
    # ---------------------------------------------------------------- switch
    feats = T.get('features', [FEATURE_OK, FEATURE_OK2])
    scases = []
    for i in range(400 if quick else 2500):
        kids, langs = gen_switch(rng, feats[:6] if len(feats) >= 6 else feats)
        inner = ''
        conds = []
        for j, (a, okk) in enumerate(kids):
            if rng.below(10) == 0:
                inner += 'text'
                conds.append("{| c_element := false; c_req_ext := false; c_features := None; c_langs := None |}")
            at = ''.join(' %s="%s"' % kv for kv in a.items())
            inner += '<rect%s width="10" height="10" fill="#0000%02x"/>' % (at, j + 1)
            fe = ('Some [%s]' % '; '.join('"%s"' % f for f in a['requiredFeatures'].split(' '))) if 'requiredFeatures' in a else 'None'
            la = ('Some [%s]' % '; '.join('"%s"' % l.strip() for l in a['systemLanguage'].split(','))) if 'systemLanguage' in a else 'None'
            conds.append("{| c_element := true; c_req_ext := %s; c_features := %s; c_langs := %s |}" % (
                'true' if 'requiredExtensions' in a else 'false', fe, la))
        d = '<svg %s width="100" height="100"><switch>%s</switch></svg>' % (NS, inner)
        scases.append((d, langs, conds, kids))
    outs = ctx.rvh_batch(binp, 'dump', ["%s\t%s" % (('lang=' + ','.join(l)) if l else 'lang=', d) for d, l, _, _ in scases])
    items, idx = [], []
    for i, ((d, langs, conds, kids), o) in enumerate(zip(scases, outs)):
        tree = parse_json(o)
        if 'root' not in tree:
            ctx.violation("switch: document failed to parse: %s" % str(tree)[:150], dict(op='dump', doc=d, languages=langs))
            continue
        ps = first_path(tree, lambda nn: nn.get('t') == 'path')
        if len(ps) > 1:
            ctx.violation("switch: more than one child of a switch was rendered", dict(op='dump', doc=d, languages=langs))
            continue
        chosen = 'None'
        if ps:
            b = ps[0][0]['fill']['paint']['rgb'][2] - 1
            # index among all children including text nodes
            k = -1
            seen = -1
            for ci, c in enumerate(conds):
                if 'c_element := true' in c:
                    seen += 1
                    if seen == b:
                        k = ci
            chosen = 'Some %d%%nat' % k
        ctx.note_case('switch/' + d + ','.join(langs), nontrivial=len(kids) > 1)
        items.append("([%s], [%s], %s)" % ('; '.join('"%s"' % l for l in langs), '; '.join(conds), chosen))
        idx.append(i)
    ctx.cov['switch_cases'] = len(scases)
    if scases:
        ctx.add_sample(dict(op='switch', doc=scases[0][0], languages=scases[0][1]))
    if items:
        body = ("From Coq Require Import String.\nLocal Open Scope string_scope.\n"
                "Definition cases : list (list string * list cond * option nat) := [\n%s\n].\n"
                "Eval vm_compute in (bad_indices (fun c => match c with (u, cs, r) => opt_nat_eqb (switch_choice u cs) r end) cases).\n"
                % ";\n".join(items))
        rc, out = ctx.coq_eval('k_switch', body, ['Model.Base', 'Model.Corr', 'Gen.SvgTables', 'Gen.StructTables', 'Model.Structure'])
        bad = ctx.parse_N_list(out) if rc == 0 else None
        if bad is None:
            ctx.log("switch: model evaluation failed:\n" + out[-1500:])
            ok_all = False
        else:
            ctx.cov['correspondence_cases'] = ctx.cov.get('correspondence_cases', 0) + len(items)
            for b in bad[:3]:
                i = idx[b]
                ctx.violation("switch: the rendered child differs from the first child passing the model's condition test",
                              dict(op='dump', doc=scases[i][0], languages=scases[i][1], model_case=items[b]))
    # ---------------------------------------------------------------- transform-origin and rect radii
    tcases = []
    for i in range(200 if quick else 1500):
        m = [rng.choice([1.0, 2.0, 0.5, -1.0]), rng.choice([0.0, 0.5]), rng.choice([0.0, -0.25]), rng.choice([1.0, 1.5]), dy(rng, -20, 40), dy(rng, -20, 40)]
        o = (dy(rng, -20, 120), dy(rng, -20, 120)) if rng.below(4) > 0 else None
        a = ' transform="%s"' % mat_text(m)
        if o:
            a += ' transform-origin="%s %s"' % (fnum(o[0]), fnum(o[1]))
        d = '<svg %s width="200" height="200"><g%s><rect width="10" height="10"/></g></svg>' % (NS, a)
        e = "(resolve_transform %s %s)" % (coq_ts(m), ("(Some (%s, %s))" % (qstr(o[0]), qstr(o[1]))) if o else 'None')
        tcases.append((d, e))
    rcases = []
    for i in range(300 if quick else 2000):
        w, h = dy(rng, 4, 120), dy(rng, 4, 120)
        rx = rng.choice([None, dy(rng, 0, 30), dy(rng, 30, 90), -dy(rng, 1, 5)])
        ry = rng.choice([None, dy(rng, 0, 30), dy(rng, 30, 90), -dy(rng, 1, 5)])
        a = ''
        if rx is not None:
            a += ' rx="%s"' % fnum(rx)
        if ry is not None:
            a += ' ry="%s"' % fnum(ry)
        d = '<svg %s width="200" height="200"><rect x="16" y="32" width="%s" height="%s"%s/></svg>' % (NS, fnum(w), fnum(h), a)
        rcases.append((d, w, h, rx, ry))
    outs = ctx.rvh_batch(binp, 'dump', ["-\t" + d for d, _ in tcases] + ["-\t" + c[0] for c in rcases])
    items, idx = [], []
    for i, ((d, e), o) in enumerate(zip(tcases, outs[:len(tcases)])):
        tree = parse_json(o)
        ps = first_path(tree, lambda nn: nn.get('t') == 'path')
        if len(ps) != 1:
            ctx.violation("transform-origin: probe missing: %s" % str(tree)[:150], dict(op='dump', doc=d))
            continue
        ctx.note_case('transform-origin/' + d)
        items.append("(%s, %s)" % (e, coq_ts(ps[0][1])))
        idx.append(i)
    ritems, ridx = [], []
    for i, (c, o) in enumerate(zip(rcases, outs[len(tcases):])):
        d, w, h, rx, ry = c
        tree = parse_json(o)
        ps = first_path(tree, lambda nn: nn.get('t') == 'path')
        if len(ps) != 1:
            ctx.violation("rect-radii: rect missing from the tree: %s" % str(tree)[:150], dict(op='dump', doc=d))
            continue
        segs = ps[0][0]['segs']
        if any(sg[0] == 'C' for sg in segs):
            irx = segs[0][1] - 16.0
            j = min(q for q, sg in enumerate(segs) if sg[0] == 'C')
            while j + 1 < len(segs) and segs[j + 1][0] == 'C':
                j += 1
            iry = segs[j][-1] - 32.0          # the first arc ends at (x + w, y + ry)
            curved = 'true'
        else:
            irx, iry = 0.0, 0.0
            curved = 'false'
        ctx.note_case('rect-radii/' + d, nontrivial=(rx is not None or ry is not None))

        def oq(v):
            return 'None' if v is None else '(Some %s)' % qstr(v)
        ritems.append("(rect_radii %s %s %s %s, (%s, %s), %s)" % (qstr(w), qstr(h), oq(rx), oq(ry), qstr(irx), qstr(iry), curved))
        ridx.append(i)
    ctx.cov['transform_origin_cases'] = len(tcases)
    ctx.cov['rect_radii_cases'] = len(rcases)
    if items or ritems:
        body = ("Local Open Scope Q_scope.\nDefinition cases : list (ts * ts) := [\n%s\n].\n"
                "Eval vm_compute in (bad_indices (fun p => ts_close (1 # 5000) (fst p) (snd p)) cases).\n"
                "Definition rcases : list ((Q * Q) * (Q * Q) * bool) := [\n%s\n].\n"
                "Eval vm_compute in (bad_indices (fun p => match p with (m, i, c) => radii_observed_ok (1 # 1000) m i c end) rcases).\n" % (";\n".join(items), ";\n".join(ritems)))
        rc, out = ctx.coq_eval('k_origin_radii', body, ['Model.Base', 'Model.GeomPrims', 'Model.Corr', 'Gen.SvgTables', 'Gen.StructTables',
                                                          'Gen.LeafViewBox', 'Model.Structure'])
        lists = re.findall(r"=\s*\[(.*?)\]\s*:\s*list", out, re.S) if rc == 0 else None
        if not lists or len(lists) != 2:
            ctx.log("transform-origin / rect-radii: model evaluation failed:\n" + out[-1500:])
            ok_all = False
        else:
            ctx.cov['correspondence_cases'] = ctx.cov.get('correspondence_cases', 0) + len(items) + len(ritems)
            def plist(body_):
                body_ = body_.strip()
                return [int(re.sub(r"%\w+", "", x).strip().strip('()')) for x in body_.split(';')] if body_ else []
            for b in plist(lists[0])[:3]:
                i = idx[b]
                ctx.violation("transform-origin: the group transform differs from the model's resolve_transform (T(o) . M . T(-o))",
                              dict(op='dump', doc=tcases[i][0], model_expr=tcases[i][1]))
            for b in plist(lists[1])[:3]:
                i = ridx[b]
                ctx.violation("rect-radii: the corner radii of the converted rect differ from the model's rect_radii "
                              "(one-sided / negative / clamp rules)", dict(op='dump', doc=rcases[i][0], model_case=ritems[b]))
    # ---------------------------------------------------------------- nested svg
    ncases = []
    for i in range(60 if quick else 400):
        x, y, w, h = dy(rng, 0, 40), dy(rng, 0, 40), dy(rng, 20, 120), dy(rng, 20, 120)
        op = rng.choice([None, None, 0.5, 0.25])
        tt = (dy(rng, -10, 20), dy(rng, -10, 20)) if rng.below(3) == 0 else None
        ov = rng.choice(['hidden', 'visible', None])
        a = ' x="%s" y="%s" width="%s" height="%s"' % (fnum(x), fnum(y), fnum(w), fnum(h))
        if op is not None:
            a += ' opacity="%s"' % fnum(op)
        if tt:
            a += ' transform="translate(%s %s)"' % (fnum(tt[0]), fnum(tt[1]))
        if ov:
            a += ' overflow="%s"' % ov
        vbq = 'None'
        if i % 2 == 0:
            vb, _ = shaped_viewbox(rng, w, h) if i % 4 == 0 else ([dy(rng, -30, 30), dy(rng, -30, 30), dy(rng, 10, 150), dy(rng, 10, 150)], '')
            al, sl = rng.choice(ALIGNS), bool(rng.below(2))
            a += ' viewBox="%s" preserveAspectRatio="%s"' % (' '.join(fnum(v) for v in vb), al if al == 'none' else al + (' slice' if sl else ' meet'))
            vbq = ("(Some {| vb_rect := {| rx := %s; ry := %s; rw := %s; rh := %s |}; vb_aspect := {| ar_align := %s; ar_slice := %s |} |})"
                   % (qstr(vb[0]), qstr(vb[1]), qstr(vb[2]), qstr(vb[3]), COQ_ALIGN[al], 'true' if sl else 'false'))
        d = '<svg %s width="200" height="200"><svg%s><rect id="probe" width="10" height="10"/></svg></svg>' % (NS, a)
        st = "{| g_opacity := %s; g_blend := 0%%N; g_isolate := false; g_clip := None; g_mask := None; g_filter := [] |}" % qstr(op if op is not None else 1.0)
        e = "(leaves_of (convert_nested_svg %s %s (viewport_ts ts_identity %s %s %s {| sw := %s; sh := %s |}) %s [TLeaf 1%%N 0%%N]))" % (
            ("(from_translate %s %s)" % (qstr(tt[0]), qstr(tt[1]))) if tt else 'ts_identity', st, qstr(x), qstr(y), vbq, qstr(w), qstr(h),
            '(Some 1%N)' if ov != 'visible' else 'None')
        ncases.append((d, e))
    outs = ctx.rvh_batch(binp, 'dump', ["-\t" + d for d, _ in ncases])
    items, idx = [], []
    for i, ((d, e), o) in enumerate(zip(ncases, outs)):
        tree = parse_json(o)
        found = []

        def walk(nn, acc, opa):
            if nn.get('t') == 'g':
                for c in nn.get('children', []):
                    walk(c, mul(acc, nn['ts']), opa * nn['opacity'])
            elif nn.get('t') == 'path':
                found.append((acc, opa))
        if 'root' in tree:
            walk(tree['root'], IDENT, 1.0)
        if len(found) != 1:
            ctx.violation("nested-svg: probe missing: %s" % str(tree)[:150], dict(op='dump', doc=d))
            continue
        ctx.note_case('nested-svg/' + d)
        items.append("(%s, (1%%N, %s, %s))" % (e, qstr(found[0][1]), coq_ts(found[0][0])))
        idx.append(i)
    ctx.cov['nested_svg_cases'] = len(ncases)
    if items:
        body = ("Local Open Scope Q_scope.\nDefinition cases : list (list (N * Q * ts) * (N * Q * ts)) := [\n%s\n].\n"
                "Eval vm_compute in (bad_indices (fun p => match fst p with [l] => leaf_close (1 # 5000) l (snd p) | _ => false end) cases).\n"
                % ";\n".join(items))
        rc, out = ctx.coq_eval('k_nested', body, ['Model.Base', 'Model.GeomPrims', 'Model.Corr', 'Gen.SvgTables', 'Gen.StructTables',
                                                   'Gen.LeafViewBox', 'Model.Structure'])
        bad = ctx.parse_N_list(out) if rc == 0 else None
        if bad is None:
            ctx.log("nested-svg: model evaluation failed:\n" + out[-1500:])
            ok_all = False
        else:
            ctx.cov['correspondence_cases'] = ctx.cov.get('correspondence_cases', 0) + len(items)
            for b in bad[:3]:
                i = idx[b]
                ctx.violation("nested-svg: accumulated opacity / transform of the content of a nested svg differ from the model "
                              "(convert_nested_svg: own style and transform once, viewport clip group, viewport transform)",
                              dict(op='dump', doc=ncases[i][0], model_expr=ncases[i][1]))
    return ok_all


def coq_segs(segs):
    names = {'M': 'SM', 'L': 'SL', 'Q': 'SQ', 'C': 'SC', 'Z': 'SZ'}
    return '[%s]' % '; '.join(('%s %s' % (names[sg[0]], ' '.join(qstr(v) for v in sg[1:]))).strip() for sg in segs)


def run_k_shapes(ctx, binp, quick):
    """shape-path: the segment list of every converted basic shape vs Gen/ShapePaths.v (scripts transcribed from shapes.rs)
    run through the PathBuilder model of Model/ShapePath.v; arcs of the model match runs of cubics ending in the arc's end point"""
    rng = ctx.rng
    cases = []
    n = 420 if quick else 3000

    def plist(pts):
        return '[%s]' % '; '.join('(%s, %s)' % (qstr(a), qstr(b)) for a, b in pts)

    def oq(v):
        return 'None' if v is None else '(Some %s)' % qstr(v)
    hist = {}
    for i in range(n):
        k = i % 7
        if k in (0, 1, 2):
            if k == 2:
                pts = [(dy(rng, 0, 180), dy(rng, 0, 180)) for _ in range(rng.below(7))]
                txt, cls = ' '.join('%s,%s' % (fnum(a), fnum(b)) for a, b in pts), 'plain-%d' % min(len(pts), 3)
            else:
                pts, txt, cls = degenerate_points(rng)
            el = rng.choice(['polyline', 'polygon'])
            hist[cls] = hist.get(cls, 0) + 1
            cases.append(('<%s points="%s" stroke="black"/>' % (el, txt), '(convert_%s %s)' % (el, plist(pts)), el + '/' + cls))
        elif k == 3:
            x1, y1, x2, y2 = dy(rng, 0, 150), dy(rng, 0, 150), dy(rng, 0, 150), dy(rng, 0, 150)
            if rng.below(4) == 0:
                x2, y2 = x1, y1
            cases.append(('<line x1="%s" y1="%s" x2="%s" y2="%s" stroke="black"/>' % (fnum(x1), fnum(y1), fnum(x2), fnum(y2)),
                          '(convert_line %s %s %s %s)' % (qstr(x1), qstr(y1), qstr(x2), qstr(y2)), 'line'))
        elif k == 4:
            cx, cy, r = dy(rng, 10, 100), dy(rng, 10, 100), rng.choice([dy(rng, 1, 60), dy(rng, 1, 60), 0.0, -dy(rng, 1, 9)])
            cases.append(('<circle cx="%s" cy="%s" r="%s" stroke="black"/>' % (fnum(cx), fnum(cy), fnum(r)),
                          '(convert_circle %s %s %s)' % (qstr(cx), qstr(cy), qstr(r)), 'circle'))
        elif k == 5:
            cx, cy = dy(rng, 10, 100), dy(rng, 10, 100)
            rx = rng.choice([None, dy(rng, 1, 60), dy(rng, 1, 60), 0.0, -dy(rng, 1, 9)])
            ry = rng.choice([None, dy(rng, 1, 60), dy(rng, 1, 60), 0.0, -dy(rng, 1, 9)])
            a = (' rx="%s"' % fnum(rx) if rx is not None else '') + (' ry="%s"' % fnum(ry) if ry is not None else '')
            cases.append(('<ellipse cx="%s" cy="%s"%s stroke="black"/>' % (fnum(cx), fnum(cy), a),
                          '(let r := resolve_rx_ry %s %s in convert_ellipse %s %s (fst r) (snd r))' % (oq(rx), oq(ry), qstr(cx), qstr(cy)), 'ellipse'))
        else:
            x, y = dy(rng, 0, 60), dy(rng, 0, 60)
            w = rng.choice([dy(rng, 4, 120), dy(rng, 4, 120), dy(rng, 4, 120), 0.0, -dy(rng, 1, 9)])
            h = rng.choice([dy(rng, 4, 120), dy(rng, 4, 120), dy(rng, 4, 120), 0.0, -dy(rng, 1, 9)])
            rx = rng.choice([None, dy(rng, 0, 30), dy(rng, 30, 90), -dy(rng, 1, 5), 0.0])
            ry = rng.choice([None, dy(rng, 0, 30), dy(rng, 30, 90), -dy(rng, 1, 5), 0.0])
            a = (' rx="%s"' % fnum(rx) if rx is not None else '') + (' ry="%s"' % fnum(ry) if ry is not None else '')
            cases.append(('<rect x="%s" y="%s" width="%s" height="%s"%s stroke="black"/>' % (fnum(x), fnum(y), fnum(w), fnum(h), a),
                          '(convert_rect %s %s %s %s %s %s)' % (qstr(x), qstr(y), qstr(w), qstr(h), oq(rx), oq(ry)), 'rect'))
    docs = ['<svg %s width="200" height="200">%s</svg>' % (NS, c[0]) for c in cases]
    outs = ctx.rvh_batch(binp, 'dump', ["-\t" + d for d in docs])
    items, idx = [], []
    for i, (c, o) in enumerate(zip(cases, outs)):
        tree = parse_json(o)
        if 'root' not in tree:
            ctx.violation("shape-path: document failed to parse: %s" % str(tree)[:150], dict(op='dump', doc=docs[i]))
            continue
        ps = first_path(tree, lambda nn: nn.get('t') == 'path')
        if len(ps) > 1:
            ctx.violation("shape-path: one basic shape gave %d paths" % len(ps), dict(op='dump', doc=docs[i]))
            continue
        impl = '(Some %s)' % coq_segs(ps[0][0]['segs']) if ps else 'None'
        ctx.note_case('shape-path/' + c[0], nontrivial=bool(ps))
        items.append("(%s, %s)" % (c[1], impl))
        idx.append(i)
    ctx.cov['shape_path_cases'] = len(cases)
    ctx.cov['shape_path_point_classes'] = hist
    if cases:
        ctx.add_sample(dict(op='shape-path', doc=docs[0], model_expr=cases[0][1]))
    if not items:
        return True
    # tolerance: coordinates are f32 sums of dyadic inputs (exact); arc end points come from kurbo in f64 (<= 1e-4 observed 0)
    body = ("Local Open Scope Q_scope.\nDefinition cases : list (option (list seg) * option (list seg)) := [\n%s\n].\n"
            "Eval vm_compute in (bad_indices (fun p => osegs_match (1 # 2000) (fst p) (snd p)) cases).\n" % ";\n".join(items))
    rc, out = ctx.coq_eval('k_shapepath', body, ['Model.Base', 'Model.GeomPrims', 'Model.Corr', 'Gen.SvgTables', 'Gen.StructTables',
                                                 'Gen.LeafViewBox', 'Model.ShapePath', 'Gen.ShapePaths', 'Model.Structure'])
    bad = ctx.parse_N_list(out) if rc == 0 else None
    if bad is None:
        ctx.log("shape-path: model evaluation failed:\n" + out[-1500:])
        return False
    ctx.cov['correspondence_cases'] = ctx.cov.get('correspondence_cases', 0) + len(items)
    for b in bad[:3]:
        i = idx[b]
        ctx.violation("shape-path: the segments of the converted %s differ from the model (Gen/ShapePaths.v: builder script of shapes.rs "
                      "= the equivalent path `M p0 L p1 .. [Z]` / the SVG 1.1 shape path)" % cases[i][2],
                      dict(op='dump', doc=docs[i], model_expr=cases[i][1], model_case=items[b]))
    return True


def run_k_use_symbol(ctx, binp, quick):
    """use-symbol: group structure of use -> symbol (accumulated opacity / transform of the content, clips above it with the
    transform accumulated at each clip group) vs Model.Structure.convert_use_symbol, and the viewport clip decision / rectangle of
    use -> symbol and of nested svg elements vs Gen.UseClip.get_clip_rect (transcribed from use_node.rs)"""
    rng = ctx.rng
    cases = []
    for i in range(240 if quick else 1600):
        ov = rng.choice([None, 'visible', 'auto', 'hidden', 'scroll'])
        x, y = dy(rng, -20, 60), dy(rng, -20, 60)
        ovq = 'None' if ov is None else '(Some "%s"%%string)' % ov
        if i % 3 == 2:
            # nested svg: clip only with a use size or both of its own width and height
            hw, hh = bool(rng.below(3)), bool(rng.below(3))
            w = rng.choice([dy(rng, 10, 150), dy(rng, 10, 150), 0.0]) if hw else VIEW
            h = rng.choice([dy(rng, 10, 150), dy(rng, 10, 150), 0.0]) if hh else VIEW
            a = ' x="%s" y="%s"' % (fnum(x), fnum(y)) + (' width="%s"' % fnum(w) if hw else '') + (' height="%s"' % fnum(h) if hh else '')
            if ov:
                a += ' overflow="%s"' % ov
            # seeded/C10-17: `overflow` is read on the viewport element itself, never on its parent
            pov = rng.choice([None, 'visible', 'auto'])
            d = ('<svg %s width="200" height="200"><g%s><svg%s><rect id="probe" width="10" height="10"/></svg></g></svg>'
                 % (NS, ' overflow="%s"' % pov if pov else '', a))
            rect_e = "(svg_clip_rect %s None None %s %s %s %s %s %s)" % (ovq, 'true' if hw else 'false', 'true' if hh else 'false',
                                                                      qstr(x), qstr(y), qstr(w), qstr(h))
            cases.append((d, 'svg', rect_e, None))
            continue
        uw = rng.choice([None, dy(rng, 10, 150), dy(rng, 10, 150), 0.0, -4.0])
        uh = rng.choice([None, dy(rng, 10, 150), dy(rng, 10, 150), 0.0])
        tm = [rng.choice([1.0, 2.0, 0.5]), 0.0, 0.0, rng.choice([1.0, 1.5]), dy(rng, -10, 20), dy(rng, -10, 20)] if rng.below(2) else None
        op = rng.choice([None, 0.5, 0.25])
        sop = rng.choice([None, None, 0.5])
        ucp = rng.below(4) == 0
        umk = rng.below(5) == 0
        ufl = rng.below(5) == 0
        ua = ' x="%s" y="%s"' % (fnum(x), fnum(y))
        if uw is not None:
            ua += ' width="%s"' % fnum(uw)
        if uh is not None:
            ua += ' height="%s"' % fnum(uh)
        if tm:
            ua += ' transform="%s"' % mat_text(tm)
        if op is not None:
            ua += ' opacity="%s"' % fnum(op)
        if ucp:
            ua += ' clip-path="url(#cp)"'
        if umk:
            ua += ' mask="url(#mk)"'
        if ufl:
            ua += ' filter="url(#fl)"'
        if rng.below(3) == 0:
            ua += ' overflow="%s"' % rng.choice(['visible', 'auto'])      # on the use (the copy's parent): must not matter
        sa = (' overflow="%s"' % ov if ov else '') + (' opacity="%s"' % fnum(sop) if sop is not None else '')
        d = ('<svg %s width="200" height="200"><clipPath id="cp"><rect width="500" height="500"/></clipPath>'
             '<mask id="mk" maskUnits="userSpaceOnUse" x="-500" y="-500" width="1000" height="1000"><rect x="-500" y="-500" width="1000" height="1000" fill="white"/></mask>'
             '<filter id="fl" filterUnits="userSpaceOnUse" x="-500" y="-500" width="1000" height="1000"><feOffset dx="1"/></filter><symbol id="t"%s>'
             '<rect id="probe" width="10" height="10"/></symbol><use id="u" xlink:href="#t"%s/></svg>' % (NS, sa, ua))
        w, h = (uw if uw is not None else VIEW), (uh if uh is not None else VIEW)
        rect_e = "(symbol_clip_rect %s %s %s %s %s)" % (ovq, qstr(x), qstr(y), qstr(w), qstr(h))

        def st(o, c, m='None', f='[]'):
            return ("{| g_opacity := %s; g_blend := 0%%N; g_isolate := false; g_clip := %s; g_mask := %s; g_filter := %s |}"
                    % (qstr(o if o is not None else 1.0), c, m, f))
        conv_e = ("(cleaves_of (convert_use_symbol 1%%N %s (from_translate %s %s) %s %s (match %s with Some _ => Some 9%%N | None => None end) "
                  "[TLeaf 1%%N 0%%N]))" % (coq_ts(tm) if tm else 'ts_identity', qstr(x), qstr(y), st(op, '(Some 1%N)' if ucp else 'None', '(Some 2%N)' if umk else 'None', '[3%N]' if ufl else '[]'),
                                          st(sop, 'None'), rect_e))
        cases.append((d, 'symbol', rect_e, conv_e))
    outs = ctx.rvh_batch(binp, 'dump', ["-\t" + c[0] for c in cases])
    items, idx = [], []
    for i, (c, o) in enumerate(zip(cases, outs)):
        tree = parse_json(o)
        found = []

        def walk(nn, acc, opa, clips):
            if nn.get('t') == 'g':
                A = mul(acc, nn['ts'])
                cl = list(clips)
                if nn.get('clip'):
                    cl.append((nn['clip'], A))
                if nn.get('mask'):
                    cl.append(('mask', A))
                for _f in nn.get('filters', []):
                    cl.append(('filter', A))
                for ch in nn.get('children', []):
                    walk(ch, A, opa * nn['opacity'], cl)
            elif nn.get('t') == 'path':
                found.append((acc, opa, clips))
        if 'root' in tree:
            walk(tree['root'], IDENT, 1.0, [])
        if len(found) != 1:
            ctx.violation("use-symbol: probe missing: %s" % str(tree)[:150], dict(op='dump', doc=c[0]))
            continue
        acc, opa, clips = found[0]
        vrect = 'None'
        cl_items = []
        for cp, A in clips:
            if cp == 'mask':
                cl_items.append("(1%%N, 2%%N, %s)" % coq_ts(A))
                continue
            if cp == 'filter':
                cl_items.append("(2%%N, 3%%N, %s)" % coq_ts(A))
                continue
            if cp['id'] == 'cp':
                cl_items.append("(0%%N, 1%%N, %s)" % coq_ts(A))
                continue
            segs = [sg for n2 in cp['root'].get('children', []) if n2.get('t') == 'path' for sg in n2['segs']]
            xs = [sg[1] for sg in segs if len(sg) > 1]
            ys = [sg[2] for sg in segs if len(sg) > 2]
            if xs:
                vrect = "(Some {| rx := %s; ry := %s; rw := %s; rh := %s |})" % (qstr(min(xs)), qstr(min(ys)), qstr(max(xs) - min(xs)), qstr(max(ys) - min(ys)))
            cl_items.append("(0%%N, 9%%N, %s)" % coq_ts(A))
        ctx.note_case('use-symbol/' + c[0])
        conv = c[3] if c[3] else "[]"
        leaf = "(1%%N, %s, %s, [%s])" % (qstr(opa), coq_ts(acc), '; '.join(cl_items)) if c[3] else "(0%N, 0, ts_identity, [])"
        items.append("(%s, %s, %s, %s)" % (c[2], vrect, conv, leaf))
        idx.append(i)
    ctx.cov['use_symbol_cases'] = len(cases)
    if cases:
        ctx.add_sample(dict(op='use-symbol', doc=cases[0][0], model_expr=cases[0][2]))
    if not items:
        return True
    body = ("From Coq Require Import String.\nLocal Open Scope Q_scope.\n"
            "Definition cl_close (a b : list (N * N * ts)) : bool :=\n"
            "  Nat.eqb (List.length a) (List.length b) && forallb (fun p => N.eqb (fst (fst (fst p))) (fst (fst (snd p))) && N.eqb (snd (fst (fst p))) (snd (fst (snd p))) && ts_close (1 # 5000) (snd (fst p)) (snd (snd p))) (combine a b).\n"
            "Definition ok (c : option qrect * option qrect * list (N * Q * ts * list (N * N * ts)) * (N * Q * ts * list (N * N * ts))) : bool :=\n"
            "  match c with (m, i, conv, leaf) =>\n"
            "    qrect_close (1 # 1000) m i &&\n"
            "    match conv with\n"
            "    | [] => true\n"
            "    | [(k, o, t, cl)] => match leaf with (k', o', t', cl') => Qclose (1 # 5000) o o' && ts_close (1 # 5000) t t' && cl_close cl cl' end\n"
            "    | _ => false\n"
            "    end\n"
            "  end.\n"
            "Definition cases := [\n%s\n].\nEval vm_compute in (bad_indices ok cases).\n" % ";\n".join(items))
    rc, out = ctx.coq_eval('k_usesymbol', body, ['Model.Base', 'Model.GeomPrims', 'Model.Corr', 'Gen.SvgTables', 'Gen.StructTables',
                                                 'Gen.LeafViewBox', 'Gen.UseClip', 'Model.Structure'])
    bad = ctx.parse_N_list(out) if rc == 0 else None
    if bad is None:
        ctx.log("use-symbol: model evaluation failed:\n" + out[-1500:])
        return False
    ctx.cov['correspondence_cases'] = ctx.cov.get('correspondence_cases', 0) + len(items)
    for b in bad[:3]:
        i = idx[b]
        ctx.violation("use-symbol: viewport clip decision / rectangle (Gen/UseClip.v get_clip_rect) or the group structure of a use -> %s "
                      "(convert_use_symbol: accumulated opacity, transform, clips and their coordinate systems) differs from the model"
                      % cases[i][1], dict(op='dump', doc=cases[i][0], model_expr=cases[i][2], model_case=items[b]))
    return True


def run_k_inherit(ctx, binp, quick):
    """inherit-chain: fill of a target referenced through a chain of 1..8 uses (each with or without its own fill; the target is
    defined inside a group with another fill) vs Model.Structure.resolved / use_chain"""
    rng = ctx.rng
    cases = []
    for i in range(120 if quick else 800):
        n = 1 + rng.below(8)
        owns = [rng.choice([None, None, 10 + rng.below(200)]) for _ in range(n)]
        town = rng.choice([None, None, None, 5])
        root_fill = rng.choice([None, 3])
        defs = '<g fill="#0000ee"><rect id="c%d" width="10" height="10"%s/></g>' % (n, ' fill="#000005"' if town else '')
        for lvl in range(n - 1, 0, -1):
            defs += '<use id="c%d" xlink:href="#c%d"%s/>' % (lvl, lvl + 1, ' fill="#0000%02x"' % owns[lvl] if owns[lvl] else '')
        d = ('<svg %s width="50" height="50"%s><defs>%s</defs><use xlink:href="#c1"%s/></svg>'
             % (NS, ' fill="#000003"' if root_fill else '', defs, ' fill="#0000%02x"' % owns[0] if owns[0] else ''))
        e = "(resolved %d%%N (use_chain [%s] (ILeaf 1%%N %s)))" % (root_fill or 0, '; '.join('Some %d%%N' % o if o else 'None' for o in owns),
                                                                '(Some 5%N)' if town else 'None')
        cases.append((d, e, n))
    outs = ctx.rvh_batch(binp, 'dump', ["-\t" + c[0] for c in cases])
    items, idx, hist = [], [], {}
    for i, (c, o) in enumerate(zip(cases, outs)):
        tree = parse_json(o)
        ps = first_path(tree, lambda nn: nn.get('t') == 'path')
        if len(ps) != 1 or not ps[0][0].get('fill'):
            ctx.violation("inherit-chain: the target of a use chain of length %d is missing from the tree: %s" % (c[2], str(tree)[:120]),
                          dict(op='dump', doc=c[0], model_expr=c[1]))
            continue
        hist[c[2]] = hist.get(c[2], 0) + 1
        ctx.note_case('inherit-chain/' + c[0], nontrivial=c[2] > 1)
        items.append("(%s, %d%%N)" % (c[1], ps[0][0]['fill']['paint']['rgb'][2]))
        idx.append(i)
    ctx.cov['inherit_chain_lengths'] = hist
    if not items:
        return True
    body = ("Definition cases : list (list (N * N) * N) := [\n%s\n].\n"
            "Eval vm_compute in (bad_indices (fun c => match fst c with [(_, v)] => N.eqb v (snd c) | _ => false end) cases).\n" % ";\n".join(items))
    rc, out = ctx.coq_eval('k_inherit', body, ['Model.Base', 'Model.GeomPrims', 'Model.Corr', 'Gen.SvgTables', 'Gen.StructTables',
                                               'Gen.LeafViewBox', 'Model.Structure'])
    bad = ctx.parse_N_list(out) if rc == 0 else None
    if bad is None:
        ctx.log("inherit-chain: model evaluation failed:\n" + out[-1500:])
        return False
    ctx.cov['correspondence_cases'] = ctx.cov.get('correspondence_cases', 0) + len(items)
    for b in bad[:3]:
        i = idx[b]
        ctx.violation("inherit-chain: the fill a use chain of length %d hands to its target differs from the model (innermost value set "
                      "along the chain, else inherited by the outermost use)" % cases[i][2], dict(op='dump', doc=cases[i][0], model_expr=cases[i][1]))
    return True


# =================================================================================================
def known_scenarios(rng):
    """regressions for the two former known classes (fixed by fb5447a and 72e1d38): must pass"""
    out = []
    attr = rng.choice(['opacity="0.5"', 'transform="translate(7 3)"', 'style="mix-blend-mode:multiply" opacity="0.5"'])
    svg = '<svg id="n" x="10" y="20" width="80" height="60" %s><rect width="30" height="30" fill="blue"/></svg>' % attr
    a = '<svg %s width="200" height="200">%s</svg>' % (NS, svg)
    b = ('<svg %s width="200" height="200"><defs><clipPath id="c"><rect x="10" y="20" width="80" height="60"/></clipPath></defs>'
         '<g %s><g clip-path="url(#c)"><g transform="translate(10 20)"><rect width="30" height="30" fill="blue"/></g></g></g></svg>'
         % (NS, attr))
    out.append((None, a, b, 'regression fb5447a: nested svg with %s vs its expansion' % attr))
    pw = rng.choice([50, 25, 80])
    a = ('<svg %s width="200" height="200"><symbol id="s" viewBox="0 0 40 40"><rect width="40" height="40" fill="blue"/></symbol>'
         '<use xlink:href="#s" x="10" y="20" width="%d%%" height="100"/></svg>' % (NS, pw))
    b = ('<svg %s width="200" height="200"><symbol id="s" viewBox="0 0 40 40"><rect width="40" height="40" fill="blue"/></symbol>'
         '<use xlink:href="#s" x="10" y="20" width="%s" height="100"/></svg>' % (NS, fnum(pw * VIEW / 100.0)))
    out.append((None, a, b, 'regression 72e1d38: use of a symbol with width="%d%%" vs the same width in user units' % pw))
    # former class use-symbol-style-in-parent-space (fixed by 214a8de): use -> symbol with a transform and clip-path / mask /
    # filter / opacity, with and without a viewport clip, vs group(transform, style) > viewport clip > group(translate) > content
    defs = ('<clipPath id="cp"><rect width="20" height="20"/></clipPath>'
            '<mask id="mk" maskUnits="userSpaceOnUse" x="0" y="0" width="25" height="25"><rect width="25" height="25" fill="white"/></mask>'
            '<filter id="fl" filterUnits="userSpaceOnUse" x="0" y="0" width="30" height="30"><feOffset dx="2" dy="1"/></filter>')
    a = ('<svg %s width="100" height="100">%s<symbol id="s" overflow="visible"><rect width="40" height="40"/></symbol>'
         '<use xlink:href="#s" transform="translate(50 0)" clip-path="url(#cp)"/></svg>' % (NS, defs))
    b = '<svg %s width="100" height="100">%s<g transform="translate(50 0)" clip-path="url(#cp)"><rect width="40" height="40"/></g></svg>' % (NS, defs)
    out.append((None, a, b, 'regression 214a8de: witness C10-use-symbol-clip-path-transform vs its expansion'))
    wd = ('<filter id="fl30" filterUnits="userSpaceOnUse" x="0" y="0" width="200" height="200"><feOffset dx="30"/></filter>'
          '<clipPath id="vp"><rect width="40" height="40"/></clipPath>')
    a = ('<svg %s width="200" height="200">%s<symbol id="s"><rect width="100" height="100"/></symbol>'
         '<use xlink:href="#s" width="40" height="40" filter="url(#fl30)"/></svg>' % (NS, wd))
    b = '<svg %s width="200" height="200">%s<g filter="url(#fl30)"><g clip-path="url(#vp)"><rect width="100" height="100"/></g></g></svg>' % (NS, wd)
    out.append(('use-symbol-filter-inside-viewport-clip', a, b, 'witness corpus/witness/C10-use-symbol-filter-viewport-clip.svg vs the SPEC nesting'))
    b = '<svg %s width="200" height="200">%s<g clip-path="url(#vp)"><g filter="url(#fl30)"><rect width="100" height="100"/></g></g></svg>' % (NS, wd)
    out.append((None, a, b, 'the witness equals the expansion with the viewport clip outside the filter group'))
    for style in ['clip-path="url(#cp)"', 'mask="url(#mk)"', 'filter="url(#fl)"', 'opacity="0.5"',
                  'clip-path="url(#cp)" mask="url(#mk)" opacity="0.5"']:
        for vclip in (False, True):
            tf = rng.choice(['translate(50 0)', 'translate(%s %s)' % (fnum(dy(rng, 5, 60)), fnum(dy(rng, 5, 60))),
                             'matrix(2 0 0 1.5 %s %s)' % (fnum(dy(rng, 5, 40)), fnum(dy(rng, 5, 40))), 'rotate(90) translate(10 -60)'])
            x, y = dy(rng, 0, 20), dy(rng, 0, 20)
            w, h = dy(rng, 20, 80), dy(rng, 20, 80)
            sym = '<symbol id="s"%s><rect width="40" height="40" fill="blue"/></symbol>' % ('' if vclip else ' overflow="visible"')
            a = ('<svg %s width="200" height="200">%s%s<use xlink:href="#s" x="%s" y="%s" width="%s" height="%s" transform="%s" %s/></svg>'
                 % (NS, defs, sym, fnum(x), fnum(y), fnum(w), fnum(h), tf, style))
            inner = '<g transform="translate(%s %s)"><rect width="40" height="40" fill="blue"/></g>' % (fnum(x), fnum(y))
            vdef = '<clipPath id="vp"><rect x="%s" y="%s" width="%s" height="%s"/></clipPath>' % (fnum(x), fnum(y), fnum(w), fnum(h))
            if vclip and 'filter' in style:
                # known class use-symbol-filter-inside-viewport-clip, judged narrowly: the construct must DIFFER from the SPEC nesting
                # (style group outside, viewport clip inside) only by the nesting order, i.e. it must EQUAL the same expansion
                # with the two groups swapped (must-pass); anything else is a violation
                b_impl = ('<svg %s width="200" height="200">%s%s<g transform="%s" clip-path="url(#vp)"><g %s>%s</g></g></svg>'
                          % (NS, defs, vdef, tf, style, inner))
                out.append((None, a, b_impl, 'use -> clipped symbol with a filter on the use: equals the expansion with the viewport clip '
                            'OUTSIDE the filter group (the only deviation the known class covers)'))
                b = ('<svg %s width="200" height="200">%s%s<g transform="%s" %s><g clip-path="url(#vp)">%s</g></g></svg>'
                     % (NS, defs, vdef, tf, style, inner))
                out.append(('use-symbol-filter-inside-viewport-clip', a, b, 'use -> clipped symbol with transform and %s vs the SPEC nesting' % style))
                continue
            if vclip:
                # clip-path / mask / opacity commute with the viewport clip: written in usvg's nesting order (clip outermost)
                b = ('<svg %s width="200" height="200">%s%s<g transform="%s" clip-path="url(#vp)"><g %s>%s</g></g></svg>'
                     % (NS, defs, vdef, tf, style, inner))
            else:
                b = '<svg %s width="200" height="200">%s%s<g transform="%s" %s>%s</g></svg>' % (NS, defs, vdef, tf, style, inner)
            out.append((None, a, b, 'regression 214a8de: use -> symbol with transform and %s, %s viewport clip, vs its expansion'
                        % (style, 'with' if vclip else 'without')))
    return out


def run_e2e(ctx, binp, T, n):
    rng = ctx.rng
    pairs = []     # (kind, opts, docA, docB, known class)
    hist = {}

    def add(kind, a, b, opts='-', cls=None):
        pairs.append((kind, opts, a, b, cls))
    depth_hist = {}
    for i in range(n):
        # use chains
        root = gen_use_doc(rng, i)
        dep = chain_depth(root)
        depth_hist[dep] = depth_hist.get(dep, 0) + 1
        ex = Expander(root).document()
        add('use', root.ser(True), ex.ser(True))
    for i in range(n):
        s, p, kind = gen_shape_pair(rng)
        add('shape-' + kind, '<svg %s width="200" height="200">%s</svg>' % (NS, s), '<svg %s width="200" height="200">%s</svg>' % (NS, p))
        d1, d2 = gen_path_pair(rng)
        pa = ' fill="none" stroke="black" stroke-width="2"'
        add('path-data', '<svg %s width="200" height="200"><path id="p"%s d="%s"/></svg>' % (NS, pa, d1),
            '<svg %s width="200" height="200"><path id="p"%s d="%s"/></svg>' % (NS, pa, d2))
        ca, ea, kind = gen_transform_pair(rng)
        el = rng.choice(['g', 'rect'])
        inner = '<rect x="5" y="5" width="40" height="30" fill="green"/>'

        def wrap(at):
            at = ''.join(' %s="%s"' % kv for kv in at.items())
            if el == 'g':
                return '<svg %s width="200" height="200"><g id="w"%s>%s</g></svg>' % (NS, at, inner)
            return '<svg %s width="200" height="200"><rect id="w" x="5" y="5" width="40" height="30"%s/></svg>' % (NS, at)
        add(kind, wrap(ca), wrap(ea))
    for i in range(max(4, n // 3)):
        # a vs g
        pr = ''.join(' %s="%s"' % kv for kv in rand_pres(rng).items())
        tf = (' transform="%s"' % rand_transform(rng)) if rng.below(2) else ''
        kids = ''.join(k.ser() for k in [rand_leaf(rng, 0) for _ in range(1 + rng.below(3))])
        body = '<svg %s width="200" height="200"><defs><linearGradient id="lg"><stop offset="0" stop-color="red"/></linearGradient></defs><%s id="l"%s%s%s>%s</%s></svg>'
        add('a-vs-g', body % (NS, 'a', ' xlink:href="http://example.org/"', pr, tf, kids, 'a'), body % (NS, 'g', '', pr, tf, kids, 'g'))
        # `a` in every role where a `g` can stand: use target (directly and through a use chain), switch child, container
        root = N('svg', {'width': '200', 'height': '200'})
        dfs = N('defs', {}, [N('linearGradient', {'id': 'lg'}, [N('stop', {'offset': '0', 'stop-color': 'red'})])])
        root.kids.append(dfs)
        role = i % 4
        la = rand_link(rng)
        la.attrs['id'] = 'la'
        if role == 0:
            (dfs if rng.below(2) else root).kids.append(la)
            root.kids.append(N('use', dict(rand_pres(rng), **{'xlink:href': '#la', 'x': fnum(dy(rng, 0, 40)), 'y': fnum(dy(rng, 0, 40))})))
        elif role == 1:
            dfs.kids.append(la)
            dfs.kids.append(N('use', {'xlink:href': '#la', 'id': 'u1', 'x': '5'}))
            root.kids.append(N('use', {'xlink:href': '#u1', 'id': 'u2', 'y': fnum(dy(rng, 0, 30))}))
        elif role == 2:
            root.kids.append(N('switch', rand_pres(rng), [N('rect', {'width': '5', 'height': '5', 'requiredExtensions': 'x'}), la,
                                                         rand_leaf(rng, 0)]))
        else:
            root.kids.append(N('g', rand_pres(rng), [la, N('a', {'xlink:href': '#y'}, [rand_link(rng)])]))
        add('a-vs-g-' + ['use-target', 'use-chain', 'switch-child', 'nested'][role], root.ser(True), a_to_g(root).ser(True))
        # switch vs first passing child
        feats = T.get('features', [FEATURE_OK])
        sk, langs = gen_switch(rng, feats[:6])
        inner = ''
        chosen = None
        for j, (a, okk) in enumerate(sk):
            at = ''.join(' %s="%s"' % kv for kv in a.items())
            leaf = rand_leaf(rng, 0)
            leaf.attrs['id'] = 'c%d' % j
            txt = leaf.ser()
            inner += txt.replace('<%s' % leaf.tag, '<%s%s' % (leaf.tag, at), 1)
            if okk and chosen is None:
                chosen = txt
        body = '<svg %s width="200" height="200"><defs><linearGradient id="lg"><stop offset="0" stop-color="red"/></linearGradient></defs><%s%s%s>%s</%s></svg>'
        if chosen is None:
            expansion = '<svg %s width="200" height="200"></svg>' % NS      # nothing passes: the switch renders nothing
        else:
            expansion = body % (NS, 'g', pr, tf, chosen, 'g')
        add('switch', body % (NS, 'switch', pr, tf, inner, 'switch'), expansion, opts=('lang=' + ','.join(langs)))
        # gzip vs plain
        doc = gen_use_doc(rng, i).ser(True)
        add('gzip', 'hex:' + hexs(gzip.compress(doc.encode(), compresslevel=rng.choice([1, 6, 9]), mtime=0)), doc)
    # seeded/C10-15: gzip members whose header sets FLG bits (FNAME as written by `gzip file.svg`, FCOMMENT, FEXTRA, FHCRC, FTEXT)
    flag_hist = {}
    for i in range(max(10, n // 25)):
        doc = gen_use_doc(rng, i).ser(True)
        fl = [8, 1, 2, 4, 16, 8 | 16, 8 | 2, 4 | 8 | 16, 1 | 2 | 4 | 8 | 16, 0][i % 10]
        flag_hist[fl] = flag_hist.get(fl, 0) + 1
        add('gzip-header-flags', 'hex:' + hexs(gzip_member(doc.encode(), rng, fl)), doc)
    ctx.cov['gzip_header_flags'] = flag_hist
    # viewports whose viewBox size is in a special relation to the viewport size (non-zero origin)
    for i in range(max(12, n // 4)):
        W, H = dy(rng, 20, 150), dy(rng, 20, 150)
        vb, shape_ = shaped_viewbox(rng, W, H)
        al = rng.choice(ALIGNS)
        par = al if al == 'none' else al + rng.choice(['', ' meet', ' slice'])
        va = {'viewBox': ' '.join(fnum(v) for v in vb), 'preserveAspectRatio': par}
        if rng.below(2):
            va['overflow'] = rng.choice(['visible', 'hidden'])
        root = N('svg', {'width': '200', 'height': '200', 'viewBox': '0 0 200 200'})
        kids = [rand_leaf(rng, 0) for _ in range(1 + rng.below(2))]
        k = i % 3
        if k == 0:       # nested svg
            root.kids.append(N('svg', dict(va, x=fnum(dy(rng, 0, 40)), y=fnum(dy(rng, 0, 40)), width=fnum(W), height=fnum(H)), kids))
        elif k == 1:     # use -> symbol with the use's size
            root.kids.append(N('defs', {}, [N('symbol', dict(va, id='sy'), kids)]))
            root.kids.append(N('use', {'xlink:href': '#sy', 'id': 'u', 'x': fnum(dy(rng, 0, 40)), 'y': fnum(dy(rng, 0, 40)),
                                       'width': fnum(W), 'height': fnum(H)}))
        else:            # use -> svg, size partly from the use
            root.kids.append(N('defs', {}, [N('svg', dict(va, id='ns', width=fnum(W), height=fnum(dy(rng, 20, 150))), kids)]))
            root.kids.append(N('use', {'xlink:href': '#ns', 'id': 'u', 'x': fnum(dy(rng, 0, 40)), 'height': fnum(H)}))
        add('viewport-' + shape_, root.ser(True), Expander(root).document().ser(True))
    # highly compressible input: deflate ratios far above what ordinary documents reach
    ratios = []
    for i in range(6 if n <= 300 else 24):
        pad = rng.choice([150000, 400000, 1000000] if n <= 300 else [150000, 400000, 1000000, 2500000, 4000000])
        junk = ''.join('%016x' % rng.next() for _ in range(rng.choice([0, 20, 120, 400])))
        k = i % 3
        if k == 0:
            body = '<!--%s %s-->' % (junk, 'a' * pad) + '<rect width="10" height="10"/>'
        elif k == 1:
            body = '<rect width="10" height="10"/>' + ' ' * pad + '<!--%s--><circle r="5"/>' % junk
        else:
            reps = min(3000, pad // 60)
            body = '<!--%s-->' % junk + '<rect x="1" y="2" width="10" height="10" fill="red"/>' * reps
        doc = '<svg %s width="200" height="200">%s</svg>' % (NS, body)
        gz = gzip.compress(doc.encode(), compresslevel=9, mtime=0)
        while len(doc) < 150 * len(gz) and len(doc) < 6000000:
            doc = doc.replace('</svg>', '<!--%s--></svg>' % ('b' * len(doc)))      # more padding until the ratio is above 150:1
            gz = gzip.compress(doc.encode(), compresslevel=9, mtime=0)
        if len(gz) > 65536 or len(doc) < 150 * len(gz):
            continue
        ratios.append(round(len(doc) / float(len(gz)), 1))
        add('gzip-compressible', 'hex:' + hexs(gz), doc)
    ctx.cov['gzip_ratios'] = sorted(ratios)
    # large COMPRESSED input (33 .. 64 KiB, beyond a decoder's 32 KiB input buffer): low-ratio content and stored blocks
    import base64
    csizes = []
    for i in range(6 if n <= 300 else 24):
        target = 34000 + rng.below(30000)
        k = i % 3
        if k == 0:       # random payload in a comment (base64 of random bytes: ratio about 1.3)
            raw = bytes(rng.next() & 0xFF for _ in range(int(target * 0.76)))
            body = '<!--%s--><rect width="10" height="10" fill="blue"/>' % base64.b64encode(raw).decode().replace('--', '-_')
            level = 6
        elif k == 1:     # long random-looking path data
            pts = ' '.join('L %d.%02d %d.%02d' % (rng.below(200), rng.below(100), rng.below(200), rng.below(100))
                           for _ in range(int(target / 5.6)))
            body = '<path fill="none" stroke="black" d="M 0 0 %s"/>' % pts
            level = 9
        else:            # stored deflate blocks (no compression at all): plain size == compressed size
            body = '<rect width="10" height="10"/><!--%s-->' % ''.join('%016x' % rng.next() for _ in range(target // 16))
            level = 0
        doc = '<svg %s width="200" height="200">%s</svg>' % (NS, body)
        gz = gzip.compress(doc.encode(), compresslevel=level, mtime=0)
        if not (33 * 1024 < len(gz) <= 64 * 1024):
            continue
        csizes.append(len(gz))
        add('gzip-large-compressed', 'hex:' + hexs(gz), doc)
    ctx.cov['gzip_compressed_sizes'] = sorted(csizes)
    for _ in range(max(2, n // 20)):
        for cls, a, b, desc in known_scenarios(rng):
            add('regression', a, b, cls=cls)
    items = []
    for kind, opts, a, b, cls in pairs:
        items.append("%s\t%s" % (opts, a))
        items.append("%s\t%s" % (opts, b))
    outs = ctx.rvh_batch(binp, 'dump', items, per_item_timeout=30)
    worst = 0.0
    worst_kind = {}
    nfail = 0
    known_seen = {}
    for k, (kind, opts, a, b, cls) in enumerate(pairs):
        ja, jb = parse_json(outs[2 * k]), parse_json(outs[2 * k + 1])
        replay = dict(op='pair', kind=kind, opts=opts, construct=a, expansion=b)
        key = cls or kind
        hist[key] = hist.get(key, 0) + 1
        if 'root' not in ja or 'root' not in jb:
            if ja.get('error') and ja.get('error') == jb.get('error'):
                ctx.note_case('e2e/' + a, nontrivial=False)
                continue
            ctx.violation("e2e-C10 (%s): one of the two documents failed to parse or crashed: %s / %s" % (kind, str(ja)[:100], str(jb)[:100]), replay)
            nfail += 1
            continue
        eq, why, w = same_tree(ja, jb)
        nontrivial = bool(first_path(ja, lambda nn: True))
        ctx.note_case('e2e/' + kind + a[:4000], nontrivial=nontrivial)
        if eq:
            worst = max(worst, w)
            worst_kind[key] = max(worst_kind.get(key, 0.0), w)
        if cls is not None:
            known_seen.setdefault(cls, [0, 0])
            known_seen[cls][0] += 1
            if not eq:
                known_seen[cls][1] += 1
                replay['difference'] = why
                ctx.known_or_violation(cls, "e2e-C10 (%s): %s -> %s" % (cls, kind, why), replay)
            continue
        if not eq:
            nfail += 1
            if nfail <= 5:
                replay['difference'] = why
                ctx.violation("e2e-C10: a %s construct and its expansion convert to different trees: %s" % (kind, why), replay)
    ctx.cov['e2e_pairs'] = len(pairs)
    ctx.cov['e2e_kinds'] = hist
    ctx.cov['use_chain_depth'] = depth_hist
    ctx.cov['e2e_max_rel_diff'] = worst
    ctx.cov['e2e_max_rel_diff_by_kind'] = worst_kind
    ctx.cov['known_class_pairs'] = {k: dict(run=v[0], differing=v[1]) for k, v in known_seen.items()}
    for kind in ('use', 'path-data', 'switch'):
        for p in pairs:
            if p[0] == kind:
                ctx.add_sample(dict(op='e2e-C10', kind=kind, construct=p[2][:700], expansion=p[3][:700]))
                break
    return nfail


def run(ctx):
    quick = ctx.tier == 'quick'
    ctx.cov['trusted_base'] = vlib.BASE_TRUSTED + [
        "svgtypes (transform list, path data, points grammars), kurbo (arc -> cubic), flate2 (gzip), roxmltree: unmodelled; "
        "validated by the construct-vs-expansion oracle only",
        "Model/Structure.v (converter skeleton for g / a / use / switch, rect radii) is hand-written: tied by the use-convert / "
        "switch / transform-origin / rect-radii correspondences; FEATURES, the a->g rule, the transform-origin and use transform "
        "products and the clamp divisors are source-derived",
        "Model/ShapePath.v (tiny_skia_path::PathBuilder 0.11.4, path_from_rect) is hand-written: tied by the shape-path correspondence; "
        "the builder scripts of every basic shape (Gen/ShapePaths.v) and get_clip_rect (Gen/UseClip.v) are transcribed from shapes.rs / "
        "use_node.rs; arcs stay symbolic (kurbo unmodelled); convert_use_symbol is hand-written, tied by the use-symbol correspondence",
        "the expansions themselves (tools/props/c10.py Expander, rect_path, ellipse_path, path-data and transform rewriting) are "
        "written from the SVG specification, independently of the Coq model",
    ]
    ctx.assumptions = ["known class use-symbol-filter-inside-viewport-clip (filter on a use of a clipped symbol is applied before the "
                       "viewport clip): only the dedicated filter x viewport-clip pairs are judged through known_or_violation, and each "
                       "must equal the expansion with the two groups swapped",
                       "trees are compared after dissolving pure-transform groups into accumulated transforms; ids of groups and "
                       "definitions are not compared (ids of copies are dropped by construction)",
                       "no known class left: nested-svg-group-attrs-twice (fb5447a) and use-symbol-percent-size (72e1d38) were fixed; "
                       "their witnesses are must-pass regression pairs"]
    broken = [b for b in ctx.translate() if b['name'] in MY_TIES or b['kind'] == 'translator']
    for b in broken:
        ctx.log("broken tie relevant to C10: %s" % b)
    res = ctx.coq_props(extra_targets=['Model/Corr.v'])
    proof_ok = res['ok'] and not broken
    if not quick and res['ok'] and hasattr(ctx, 'coqchk'):
        if not ctx.coqchk():
            ctx.violation("coqchk rejects the compiled C10 development or reports an unexpected axiom",
                          dict(coqchk=ctx.cov.get('coqchk')), found_input=False)
    binp, blog = ctx.harness('release')
    if binp is None:
        ctx.violation("harness does not build against the current tree (correspondence cannot run)",
                      dict(build_log=blog[-2000:]), found_input=False)
        return
    import os

    def rd(rel):
        with open(os.path.join(vlib.REPO, rel), encoding='utf-8') as f:
            return f.read()
    try:
        T = gen_structure.parse_tables(rd, strict=False)
    except (gen_structure.Missing, OSError) as e:
        T = {'errors': [str(e)]}
    model_ok = True
    if 'Model/Structure.v' not in res['failed']:
        model_ok = run_k(ctx, binp, T, quick)
        if 'Model/ShapePath.v' not in res['failed']:
            model_ok = run_k_shapes(ctx, binp, quick) and model_ok
        model_ok = run_k_use_symbol(ctx, binp, quick) and model_ok
        model_ok = run_k_inherit(ctx, binp, quick) and model_ok
    if quick and proof_ok:
        run_e2e(ctx, binp, T, 300)
    else:
        run_e2e(ctx, binp, T, 2500 if proof_ok else 400)
    if not model_ok and not ctx.violations:
        ctx.violation("a C10 correspondence could not be evaluated (model does not compile): the hand model is no longer tied",
                      dict(failed_files=res['failed'], log_tail=res['log'][-2000:]), found_input=False)
    if not proof_ok and not ctx.violations:
        ctx.violation("C10 proof obligations no longer check: %s %s" % (res['failed'] + res['audit'], [b['name'] for b in broken]),
                      dict(failed_files=res['failed'], audit=res['audit'], broken_ties=broken, log_tail=res['log'][-3000:]),
                      found_input=False)
    ctx.cov['rule'] = (
        "use-convert: use -> symbol / nested svg with random x, y, width, height, transform, viewBox (aspect 1:25..25:1), all 10 aligns "
        "x meet/slice; switch: 1-5 children with requiredExtensions / requiredFeatures / systemLanguage under 5 language settings, text "
        "nodes in between; transform-origin and rect-radii: random dyadic values incl. negative and oversize radii.  e2e-C10: use "
        "documents (targets: shape, g, a, svg, symbol, image, text, use; chains to depth 4; with/without x, y, width, height, transform, "
        "viewBox, preserveAspectRatio, overflow) vs full expansion; rect / circle / ellipse / line / polyline / polygon (percent units, "
        "one-sided / negative / oversize radii) vs paths; relative / shorthand / implicit path commands vs absolute; transform lists of "
        "1-4 functions and transform-origin vs matrix(); a vs g (container, use target directly and through a chain, switch child, nested, empty, with text); switch vs first passing child; gzip vs plain, incl. highly compressible input (deflate ratios 150:1 .. 1000:1, up to 4 MB of text) and compressed input of 33 .. 64 KiB (random payload, long path data, stored blocks); viewports whose viewBox size equals / is proportional to / is swapped with / differs minimally from the viewport size, non-zero origin.  Distinct by document text; "
        "non-trivial = the tree has at least one leaf.")


def replay(ctx, path):
    r = json.load(open(path))
    rp = r.get('replay', {})
    print("what: %s" % r.get('what'))
    binp, _ = ctx.harness('release')
    if binp is None:
        print("harness does not build")
        return 1
    if rp.get('op') == 'pair':
        outs = ctx.rvh_batch(binp, 'dump', ["%s\t%s" % (rp['opts'], rp['construct']), "%s\t%s" % (rp['opts'], rp['expansion'])])
        ja, jb = parse_json(outs[0]), parse_json(outs[1])
        print("construct (%s, options %s):\n%s\n" % (rp.get('kind'), rp['opts'], rp['construct'][:3000]))
        print("expansion:\n%s\n" % rp['expansion'][:3000])
        if 'root' in ja and 'root' in jb:
            print("normalised tree of the construct:\n%s\n" % json.dumps(norm_tree(ja))[:3000])
            print("normalised tree of the expansion:\n%s\n" % json.dumps(norm_tree(jb))[:3000])
            eq, why, _ = same_tree(ja, jb)
            print("equal" if eq else "DIFFERENT: " + why)
            return 0 if eq else 1
        print(str(ja)[:500], str(jb)[:500])
        return 1
    if rp.get('op') == 'dump':
        opts = ('lang=' + ','.join(rp['languages'])) if 'languages' in rp else '-'
        outs = ctx.rvh_batch(binp, 'dump', ["%s\t%s" % (opts, rp['doc'])])
        print("document (options %s):\n%s\n" % (opts, rp['doc']))
        tree = parse_json(outs[0])
        if 'root' in tree:
            print("tree: %s" % json.dumps(norm_tree(tree))[:3000])
        else:
            print(str(tree)[:500])
        print("model: %s" % (rp.get('model_expr') or rp.get('model_case')))
        return 1
    print(json.dumps(r, indent=1))
    return 1
