"""C12  Reported bounding boxes and transforms agree with what is painted.

proof      coq/Props/C12.v over Model/BBox.v (exact rationals)
tie        tools/gen_bbox.py (anchors of BBox / calculate_bounding_boxes / Path::new / image / abs_transform
           threading -> Gen/BBoxTables.v, lock lemma) + the `bbox` correspondence
K bbox     every group of every dumped tree AND of every clip-path / mask / pattern / feImage sub-tree at every nesting depth
           (groups_of_ex; roots against the identity: C12_forest_product_is_local): boxes recomputed from the children by the Coq model and compared inside
           Coq (tolerance 1e-4 relative: f32 rounding of transformed boxes; untransformed unions are exact), and
           abs_transform == parent abs * transform for every group / == parent abs for every leaf
S e2e-C12  node-paint: every (sampled) node painted alone, placed by the product of its ancestors' transforms; the
           non-transparent pixels must lie inside the reported absolute layer box (groups) / absolute stroke box
           (paths, text, images) grown by 2 px.  Measured floor on the whole corpus: 6104 nodes, 0 pixels outside
           except the two known classes.
"""
import json
import os
import re

import vlib
from vlib import qstr

NS = 'xmlns="http://www.w3.org/2000/svg" xmlns:xlink="http://www.w3.org/1999/xlink"'
IMPORTS = ['Model.Base', 'Model.BBox']
TOL = '(1 # 10000)'


# ------------------------------------------------------------------------------------------------
# dump -> Coq
# ------------------------------------------------------------------------------------------------
def finite(v):
    return all(isinstance(x, (int, float)) for x in v)


def cbox(xywh):
    x, y, w, h = xywh
    # right/bottom as the implementation computes them: f32 additions
    return "(mkbox %s %s %s %s)" % (qstr(x), qstr(y), qstr(f32(x + w)), qstr(f32(y + h)))


def f32(x):
    import struct
    try:
        return struct.unpack('f', struct.pack('f', x))[0]
    except OverflowError:
        return x


def cts(t):
    return "(from_row %s)" % ' '.join(qstr(v) for v in t)


def child_coq(n):
    if n['t'] == 'g' and not n['children'] and not n.get('filters'):
        return "CEmptyGroup"
    if n['t'] == 'g':
        return ("(CGroup %s {| gb_obj := %s; gb_abs := %s; gb_stroke := %s; gb_abs_stroke := %s; gb_layer := %s; gb_abs_layer := %s |})"
                % (cts(n['ts']), cbox(n['bbox']), cbox(n['abs_bbox']), cbox(n['sbbox']), cbox(n['abs_sbbox']), cbox(n['lbbox']), cbox(n['abs_lbbox'])))
    return ("(CLeaf {| lb_obj := %s; lb_abs := %s; lb_stroke := %s; lb_abs_stroke := %s |})"
            % (cbox(n['bbox']), cbox(n['abs_bbox']), cbox(n['sbbox']), cbox(n['abs_sbbox'])))


def node_numbers_ok(n):
    keys = ['bbox', 'abs_bbox', 'sbbox', 'abs_sbbox', 'abs_ts'] + (['ts', 'lbbox', 'abs_lbbox'] if n['t'] == 'g' else [])
    return all(finite(n[k]) for k in keys)


def subroots_of(n):
    """-> [(label, root group, Arc identity)]: the roots of the sub-trees hanging off node n: ClipPath::root (and the clip path's own
    clip-path chain), Mask::root (and the mask's own mask chain), Pattern::root of fill / stroke paints, feImage roots."""
    out = []
    if n['t'] == 'g':
        c, k = n.get('clip'), 0
        while c and k < 8:
            out.append(('clip%d' % k, c['root'], c.get('ptr')))
            c, k = c.get('clip'), k + 1
        m, k = n.get('mask'), 0
        while m and k < 8:
            out.append(('mask%d' % k, m['root'], m.get('ptr')))
            m, k = m.get('mask'), k + 1
        for i, f in enumerate(n.get('filters') or []):
            for j, pr in enumerate(f.get('primitives') or []):
                kd = pr.get('kind') or {}
                if kd.get('k') == 'Image' and isinstance(kd.get('root'), dict):
                    out.append(('feimage%d.%d' % (i, j), kd['root'], None))
    elif n['t'] == 'path':
        for key in ('fill', 'stroke'):
            pt = (n.get(key) or {}).get('paint') or {}
            if pt.get('k') == 'pattern' and isinstance((pt.get('def') or {}).get('root'), dict):
                out.append((key + '-pattern', pt['def']['root'], pt['def'].get('ptr')))
    return out


def ts_near(a, b, tol=1e-4):
    try:
        return all(abs(x - y) <= tol * max(1, abs(x), abs(y)) for x, y in zip(a, b))
    except TypeError:
        return False


ID6 = [1, 0, 0, 1, 0, 0]


def groups_of_ex(tree, subtrees=True):
    """-> list of (path, group node, parent abs or None, info).  With `subtrees` also every group of every clip-path / mask /
    pattern / feImage sub-tree, at every nesting depth (a sub-tree root is a Group::empty(): its parent abs is the identity);
    their paths carry a `#label` component.  info['stale'] (pattern sub-trees only, below a group P that is the only child
    of the root and has transform == abs_transform != identity, i.e. the wrapper of push_pattern_transform): the product of
    the transforms from below P down to this group - what abs_transform is when P's transform was not propagated."""
    out = []
    seen = set()

    def rec(g, pabs, path, label, stale_parent, parent=None, ppabs=None):
        stale = None
        if stale_parent is not None:
            stale = list(mul6(stale_parent, g['ts'])) if finite(g['ts']) else None
        elif (label or '').endswith('-pattern') and path.endswith('#%s/0' % label) and finite(g['ts']) and finite(g['abs_ts']) \
                and ts_near(g['ts'], g['abs_ts']) and not ts_near(g['ts'], ID6):
            stale = ID6       # g is P
        out.append((path, g, pabs, dict(sub=label, stale=stale, parent_ts=parent['ts'] if parent else None, gp_abs=ppabs,
                                        wrap_ok=bool(g.get('clip')) or bool(parent and parent.get('clip')))))
        if subtrees:
            for lab, r, ptr in subroots_of(g):
                sub(r, "%s#%s" % (path, lab), ptr, lab)
        for i, c in enumerate(g['children']):
            if c['t'] == 'g':
                rec(c, g['abs_ts'], "%s/%d" % (path, i), label, stale, g, pabs)
            elif subtrees:
                for lab, r, ptr in subroots_of(c):
                    sub(r, "%s/%d#%s" % (path, i, lab), ptr, lab)

    def sub(r, path, ptr, lab):
        # shared definitions (Arc) are dumped at every use: walk each once per tree
        if path.count('#') > 6 or (ptr is not None and ptr in seen):
            return
        if ptr is not None:
            seen.add(ptr)
        rec(r, None, path, lab, None)
    rec(tree['root'], None, '', None, None)
    return out


def groups_of(tree, subtrees=True):
    return [(p, g, pabs) for p, g, pabs, _ in groups_of_ex(tree, subtrees)]


DUMMY_BOXES = dict(bbox=[0, 0, 0, 0], abs_bbox=[0, 0, 0, 0], sbbox=[0, 0, 0, 0], abs_sbbox=[0, 0, 0, 0], lbbox=[0, 0, 1, 1], abs_lbbox=[0, 0, 1, 1])


def pattern_pushed_class(g, info):
    """KNOWN class pattern_pushed_transform: the group lies in a pattern sub-tree at or below the wrapper P made by
    paint_server.rs push_pattern_transform (transform == abs_transform != identity directly below the pattern root), and its
    abs_transform and its leaves' abs_transforms are exactly what they were before the push (product without P)."""
    st = info.get('stale')
    if st is None:
        return False
    own_ok = ts_near(g['abs_ts'], st) or (st == ID6 and ts_near(g['abs_ts'], g['ts']))
    expect_leaf = st
    return own_ok and all(ts_near(c['abs_ts'], expect_leaf) for c in g['children'] if c['t'] != 'g')


def group_case(g, pabs):
    """Coq tuple for one group or None when a number is not finite."""
    if not node_numbers_ok(g) or not all(node_numbers_ok(c) for c in g['children']):
        return None
    filters = [f['rect'] for f in g.get('filters', [])]
    if not all(finite(r) for r in filters):
        return None
    leaf_abs = [c['abs_ts'] for c in g['children'] if c['t'] != 'g']
    rep = ("{| gb_obj := %s; gb_abs := %s; gb_stroke := %s; gb_abs_stroke := %s; gb_layer := %s; gb_abs_layer := %s |}"
           % (cbox(g['bbox']), cbox(g['abs_bbox']), cbox(g['sbbox']), cbox(g['abs_sbbox']), cbox(g['lbbox']), cbox(g['abs_lbbox'])))
    return ("(%s, %s, %s, [%s], [%s], %s, [%s])"
            % (cts(pabs if pabs is not None else [1, 0, 0, 1, 0, 0]), cts(g['ts']), cts(g['abs_ts']),
               '; '.join(cbox(r) for r in filters), '; '.join(child_coq(c) for c in g['children']), rep,
               '; '.join(cts(t) for t in leaf_abs)))


COQ_HEAD = ("Local Open Scope Q_scope.\n"
            "Definition case := (ts * ts * ts * list box * list child * gboxes * list ts)%type.\n"
            "Definition c_pabs (c : case) := match c with (p, _, _, _, _, _, _) => p end.\n"
            "Definition c_ts (c : case) := match c with (_, t, _, _, _, _, _) => t end.\n"
            "Definition c_abs' (c : case) := match c with (_, _, a, _, _, _, _) => a end.\n"
            "Definition c_filters (c : case) := match c with (_, _, _, f, _, _, _) => f end.\n"
            "Definition c_children (c : case) := match c with (_, _, _, _, k, _, _) => k end.\n"
            "Definition c_rep (c : case) := match c with (_, _, _, _, _, r, _) => r end.\n"
            "Definition c_leaf_abs (c : case) := match c with (_, _, _, _, _, _, l) => l end.\n"
            "Fixpoint bad_from {A} (f : A -> bool) (l : list A) (i : N) : list N :=\n"
            "  match l with [] => [] | x :: r => if f x then bad_from f r (N.succ i) else i :: bad_from f r (N.succ i) end.\n")


def coq_body(cases):
    return (COQ_HEAD + "Definition cases : list case := [\n%s\n].\n" % ";\n".join(cases) +
            "Eval vm_compute in (bad_from (fun c => ts_closeb %s (ts_concat (c_pabs c) (c_ts c)) (c_abs' c) && "
            "forallb (fun a => ts_closeb %s a (c_abs' c)) (c_leaf_abs c)) cases 0%%N).\n" % (TOL, TOL) +
            "Eval vm_compute in (bad_from (fun c => chk_group %s (c_abs' c) (c_filters c) (c_children c) (c_rep c)) cases 0%%N).\n" % TOL)


def parse_two_lists(out):
    ms = re.findall(r"=\s*\[(.*?)\]\s*:\s*list", out, re.S)
    if len(ms) != 2:
        return None
    res = []
    for body in ms:
        body = body.strip()
        res.append([int(re.sub(r"%\w+", "", x).strip().strip('()')) for x in body.split(';')] if body else [])
    return res


# ------------------------------------------------------------------------------------------------
# known classes (decidable on the failing input: the source document and the node)
# ------------------------------------------------------------------------------------------------
def parse_transform(s):
    """SVG transform list -> (sx, ky, kx, sy, tx, ty) or None"""
    import math
    m = (1.0, 0.0, 0.0, 1.0, 0.0, 0.0)

    def mul(a, b):
        return (a[0] * b[0] + a[2] * b[1], a[1] * b[0] + a[3] * b[1], a[0] * b[2] + a[2] * b[3], a[1] * b[2] + a[3] * b[3],
                a[0] * b[4] + a[2] * b[5] + a[4], a[1] * b[4] + a[3] * b[5] + a[5])
    for name, args in re.findall(r"(matrix|translate|scale|rotate|skewX|skewY)\s*\(([^)]*)\)", s):
        try:
            v = [float(x) for x in re.split(r"[\s,]+", args.strip()) if x]
        except ValueError:
            return None
        if name == 'matrix' and len(v) == 6:
            t = tuple(v)
        elif name == 'translate' and len(v) in (1, 2):
            t = (1, 0, 0, 1, v[0], v[1] if len(v) == 2 else 0)
        elif name == 'scale' and len(v) in (1, 2):
            t = (v[0], 0, 0, v[1] if len(v) == 2 else v[0], 0, 0)
        elif name == 'rotate' and len(v) in (1, 3):
            a = math.radians(v[0])
            t = (math.cos(a), math.sin(a), -math.sin(a), math.cos(a), 0, 0)
            if len(v) == 3:
                t = mul(mul((1, 0, 0, 1, v[1], v[2]), t), (1, 0, 0, 1, -v[1], -v[2]))
        elif name == 'skewX' and len(v) == 1:
            t = (1, 0, math.tan(math.radians(v[0])), 1, 0, 0)
        elif name == 'skewY' and len(v) == 1:
            t = (1, math.tan(math.radians(v[0])), 0, 1, 0, 0)
        else:
            return None
        m = mul(m, t)
    return m


def source_text(doc):
    if doc.startswith('@'):
        try:
            return open(doc[1:], encoding='utf-8').read()
        except (OSError, UnicodeDecodeError):
            return ''
    return doc


def _attr(attrs, name):
    m = re.search(r"(?<![\w:-])%s\s*=\s*\"([^\"]*)\"|(?<![\w:-])%s\s*=\s*'([^']*)'" % (name, name), attrs)
    return (m.group(1) if m.group(1) is not None else m.group(2)) if m else None


def _nonid_transform(attrs):
    tv = _attr(attrs, 'transform')
    if tv is None:
        return False
    t = parse_transform(tv)
    return t is None or any(abs(a - b) > 1e-9 for a, b in zip(t, (1, 0, 0, 1, 0, 0)))


def use_transform_class(src):
    """KNOWN class use_transform_twice, as wide as the defect that is left after 214a8de (use_node.rs convert):
      (a) a `use` element with its own non-identity `transform` whose target is NOT a symbol converted without a viewport clip:
          the target is not a `symbol` (use_node::convert_children gets orig_ts and convert_group resolves the attribute again),
          or it is a `symbol` that gets the viewport clip (overflow other than visible / auto: clip_element's group carries
          orig_ts with abs_transform = parent abs);
      (b) a `symbol` element with its own non-identity `transform` (convert_children pre-concats new_ts, convert_group adds the
          symbol's attribute to abs_transform only).
    A `use` with transform -> `symbol overflow="visible|auto"` left the class with 214a8de (the use group keeps its transform:
    GK_Plain); nested `svg` elements left it with fb5447a."""
    elems = {}
    for m in re.finditer(r"<(?:\w+:)?(\w+)\b([^>]*)>", src):
        i = _attr(m.group(2), 'id')
        if i is not None and i not in elems:
            elems[i] = (m.group(1), m.group(2))
    for m in re.finditer(r"<(?:\w+:)?(use|symbol)\b([^>]*)>", src):
        tag, attrs = m.group(1), m.group(2)
        if not _nonid_transform(attrs):
            continue
        if tag == 'symbol':
            return True
        href = _attr(attrs, 'xlink:href') or _attr(attrs, 'href') or ''
        tgt = elems.get(href.lstrip('#').strip())
        if tgt is None:
            return True         # unresolved in the text (entities, CSS): stay on the wide side
        if tgt[0] != 'symbol':
            return True
        ov = _attr(tgt[1], 'overflow')
        if ov is None:
            st = _attr(tgt[1], 'style') or ''
            mo = re.search(r"overflow\s*:\s*([\w-]+)", st)
            ov = mo.group(1) if mo else None
        if ov not in ('visible', 'auto'):
            return True
    return False


def _flt(v, default=0.0):
    try:
        return float(v) if v is not None else default
    except ValueError:
        return None


def _resolved_transform(attrs):
    """transform attribute with a numeric transform-origin applied (resolve_transform) -> 6-tuple or None"""
    tv = _attr(attrs, 'transform')
    t = parse_transform(tv) if tv is not None else (1, 0, 0, 1, 0, 0)
    if t is None:
        return None
    ov = _attr(attrs, 'transform-origin')
    if ov is not None:
        try:
            o = [float(x) for x in re.split(r"[\s,]+", ov.strip()) if x]
        except ValueError:
            return None
        if len(o) != 2:
            return None
        t = mul6(mul6((1, 0, 0, 1, o[0], o[1]), t), (1, 0, 0, 1, -o[0], -o[1]))
    return tuple(t)


def use_candidates(src):
    """-> [(use_passed, passed, aux)]: for every `use` with a transform T (and x, y): (True, T * translate(x, y), T);
    for every `symbol` with a transform S: (False, identity, S).  The formulas are decided in Coq (known_wrong_use)."""
    out = []
    for m in re.finditer(r"<(?:\w+:)?(use|symbol)\b([^>]*)>", src):
        tag, attrs = m.group(1), m.group(2)
        if not _nonid_transform(attrs):
            continue
        t = _resolved_transform(attrs)
        if t is None:
            continue
        if tag == 'symbol':
            out.append((False, ID6, list(t)))
        else:
            x, y = _flt(_attr(attrs, 'x')), _flt(_attr(attrs, 'y'))
            if x is None or y is None:
                out.append((False, ID6, list(t)))     # units / percentages: without the constraint on ts
            else:
                out.append((True, list(mul6(t, (1, 0, 0, 1, x, y))), list(t)))
    return out[:12]


def stroke_skew_class(b):
    """KNOWN class stroke_box_skew: a stroked path whose abs_transform has skew / rotation and is not a pure rotation
    (Path::new strokes the transformed path with the untransformed stroke width); all painted pixels are inside the
    object-space stroke box mapped by the product transform, i.e. only the reported absolute stroke box is too small."""
    if b['kind'] != 'path' or not b.get('stroked') or b.get('outside_loose', 1) != 0:
        return False
    sx, ky, kx, sy, _, _ = b['abs_ts']
    if abs(kx) < 1e-9 and abs(ky) < 1e-9:
        return False
    ortho = abs(sx * sx + ky * ky - 1) < 1e-4 and abs(kx * kx + sy * sy - 1) < 1e-4 and abs(sx * kx + ky * sy) < 1e-4
    return not ortho


def dash_caps_class(b):
    """KNOWN class dash_caps_outside_stroke_box: the node is (or contains) a dashed path with round / square caps; the stroke
    box ignores the dash pattern, the caps of dashes that end at a join or at the path end reach up to half the (scaled)
    stroke width further."""
    if not b.get('dash_caps'):
        return False
    sx, ky, kx, sy, _, _ = b['abs_ts']
    scale = max((sx * sx + ky * ky) ** 0.5, (kx * kx + sy * sy) ** 0.5, 1e-9)
    return b['excess'] <= 0.75 * b.get('stroke_width', 0) * scale + 1.0


def in_use_subtree(tree, path):
    """the node at `path` or one of its ancestors is a group whose abs_ts is not parent abs * ts"""
    node = tree['root']
    pabs = [1, 0, 0, 1, 0, 0]
    bad = False
    for i in [int(x) for x in path.split('/') if x]:
        if node['t'] != 'g' or i >= len(node['children']):
            break
        child = node['children'][i]
        if child['t'] == 'g':
            exp = mul6(node['abs_ts'], child['ts'])
            if any(abs(a - b) > 1e-3 * max(1, abs(a), abs(b)) for a, b in zip(exp, child['abs_ts'])):
                bad = True
        node = child
    return bad


def mul6(a, b):
    return (a[0] * b[0] + a[2] * b[1], a[1] * b[0] + a[3] * b[1], a[0] * b[2] + a[2] * b[3], a[1] * b[2] + a[3] * b[3],
            a[0] * b[4] + a[2] * b[5] + a[4], a[1] * b[4] + a[3] * b[5] + a[5])


# ------------------------------------------------------------------------------------------------
# generated documents: the risky corners
# ------------------------------------------------------------------------------------------------
def gen_docs(rng, n):
    docs = []
    caps = ['butt', 'round', 'square']
    joins = ['miter', 'round', 'bevel', 'miter-clip']
    tss = ['', 'translate(30 20)', 'scale(1.5 0.7)', 'rotate(25 100 100)', 'skewX(30)', 'skewY(-20) translate(10 30)',
           'matrix(1.2 0.4 -0.5 0.9 40 10)', 'scale(-1 1) translate(-200 0)', 'rotate(90 100 100) scale(0.5)', 'skewX(45) scale(2 0.5)']
    shapes = ['<path d="M 40 40 L 120 50 L 60 130 Z"', '<path d="M 30 100 L 100 20 L 170 100"', '<rect x="40" y="50" width="90" height="60"',
              '<circle cx="100" cy="100" r="45"', '<path d="M 40 100 C 60 10 140 190 160 100"', '<line x1="30" y1="40" x2="170" y2="150"',
              '<polyline points="40 150 70 40 100 150 130 40 160 150"', '<path d="M 50 50 L 150 50 L 52 56"']
    # transform-origin (converter.rs SvgNode::resolve_transform: translate(o) * transform * translate(-o)); it only has an
    # effect under a transform that is not a pure translation
    origins = ['150 150', '40 200', 'center', '50% 25%', '-30 60', 'right bottom', '0 80']
    nontrans = [t for t in tss if t and not t.startswith('translate')]

    def tattr(t, p_origin=2):
        """-> ' transform="t" [transform-origin="o"]' (origin with probability 1/p_origin; always for p_origin == 1)"""
        if not t:
            return ''
        if rng.below(p_origin) == 0:
            return 'transform="%s" transform-origin="%s"' % (t, rng.choice(origins))
        return 'transform="%s"' % t
    for i in range(n):
        k = rng.below(11)
        t1 = rng.choice(tss)
        t2 = rng.choice(tss)
        sw = rng.choice([1, 3, 8, 15, 0.5])
        stroke = ('stroke="#2060c0" stroke-width="%s" stroke-linecap="%s" stroke-linejoin="%s" stroke-miterlimit="%s" fill="%s"'
                  % (sw, rng.choice(caps), rng.choice(joins), rng.choice([1, 4, 10, 30]), rng.choice(['none', '#e0a020'])))
        sh = rng.choice(shapes)
        body = ''
        if k == 0:      # stroked shapes under nested transforms
            body = '<g id="g1" %s><g id="g2" %s>%s id="p1" %s/>%s id="p2" %s %s/></g></g>' % (
                tattr(t1), tattr(t2), sh, stroke, rng.choice(shapes), stroke, tattr(rng.choice(tss), 3))
        elif k == 1:    # markers
            body = ('<defs><marker id="m" markerWidth="8" markerHeight="8" refX="4" refY="4" orient="auto" markerUnits="%s">'
                    '<path d="M 0 0 L 8 4 L 0 8 Z" fill="red"/></marker></defs>'
                    '<g transform="%s"><path id="p1" d="M 40 40 L 120 60 L 60 140" fill="none" stroke="black" stroke-width="%s" '
                    'marker-start="url(#m)" marker-mid="url(#m)" marker-end="url(#m)"/></g>' % (rng.choice(['strokeWidth', 'userSpaceOnUse']), t1, sw))
        elif k == 2:    # use / symbol / nested svg without their own transform attribute
            body = ('<defs><symbol id="s" viewBox="0 0 50 50">%s id="ps" %s transform="scale(0.25)"/></symbol>'
                    '<symbol id="sv" overflow="visible"><rect id="pv" x="5" y="5" width="30" height="20" fill="#508030"/></symbol>'
                    '<g id="d1">%s id="pd" %s/></g></defs><g id="g1" transform="%s"><use id="u1" xlink:href="#s" x="20" y="30" width="100" height="80"/>'
                    '<use id="u3" xlink:href="#sv" x="8" y="12" %s/>'
                    '<use id="u2" xlink:href="#d1" x="10" y="5"/><svg id="n1" x="60" y="60" width="90" height="70" viewBox="0 0 200 200" %s>%s id="pn" %s/></svg></g>'
                    % (sh, stroke, rng.choice(shapes), stroke, t1, tattr(t2, 2), rng.choice(['', 'transform="translate(7 3)"', 'transform="rotate(15) scale(1.2)" opacity="0.6"']),
                       rng.choice(shapes), stroke))
        elif k == 3:    # filters: region larger and smaller than the content
            reg = rng.choice(['x="-0.3" y="-0.3" width="1.6" height="1.6"', 'x="0.25" y="0.25" width="0.5" height="0.5"',
                              'filterUnits="userSpaceOnUse" x="20" y="30" width="150" height="90"'])
            body = ('<defs><filter id="f" %s><feGaussianBlur stdDeviation="%s"/><feOffset dx="12" dy="-8"/></filter></defs>'
                    '<g id="g1" transform="%s"><g id="g2" filter="url(#f)">%s id="p1" %s/></g></g>' % (reg, rng.choice([0, 2, 6]), t1, sh, stroke))
        elif k == 4:    # clip paths and masks
            body = ('<defs><clipPath id="c"><circle cx="100" cy="90" r="50"/></clipPath><mask id="mk"><rect x="50" y="40" width="100" height="100" fill="white"/></mask></defs>'
                    '<g id="g1" transform="%s" %s>%s id="p1" %s/></g>' % (t1, rng.choice(['clip-path="url(#c)"', 'mask="url(#mk)"', 'opacity="0.5"']), sh, stroke))
        elif k == 5:    # text
            body = ('<g id="g1" transform="%s"><text id="t1" x="30" y="100" font-family="Noto Sans" font-size="%s" %s>Bbox <tspan dy="12" fill="red">Text</tspan></text></g>'
                    % (t1, rng.choice([12, 24, 40]), rng.choice(['', 'stroke="blue" stroke-width="3"', 'text-decoration="underline"', 'writing-mode="tb"'])))
        elif k == 6:    # images (nested svg picture)
            import base64
            inner = '<svg xmlns="http://www.w3.org/2000/svg" width="20" height="20"><rect width="20" height="20" fill="green"/><circle cx="10" cy="10" r="9" fill="red"/></svg>'
            href = 'data:image/svg+xml;base64,' + base64.b64encode(inner.encode()).decode()
            body = ('<g id="g1" transform="%s"><image id="i1" x="50" y="60" width="%s" height="%s" preserveAspectRatio="%s" xlink:href="%s"/></g>'
                    % (t1, rng.choice([40, 90, 20]), rng.choice([40, 30, 100]), rng.choice(['xMidYMid', 'none', 'xMinYMax slice']), href))
        elif k == 7:    # dashes, opacity groups, nested groups
            body = ('<g id="g1" %s opacity="0.7"><g id="g2" %s>%s id="p1" %s stroke-dasharray="9 4"/></g>%s id="p2" %s/></g>'
                    % (tattr(t1, 3), tattr(t2, 3), sh, stroke, rng.choice(shapes), stroke))
        elif k == 8:    # transform-origin on containers (g, nested svg, filtered / clipped / isolated groups) with non-translation transforms
            n1, n2 = rng.choice(nontrans), rng.choice(nontrans)
            deco = rng.choice(['', 'opacity="0.6"', 'clip-path="url(#c)"', 'mask="url(#mk)"', 'filter="url(#f)"'])
            body = ('<defs><clipPath id="c"><circle cx="100" cy="90" r="70"/></clipPath><mask id="mk"><rect x="20" y="20" width="170" height="170" fill="white"/></mask>'
                    '<filter id="f" x="-0.2" y="-0.2" width="1.4" height="1.4"><feOffset dx="6" dy="4"/></filter></defs>'
                    '<g id="o1" transform="%s"><g id="g1" %s %s><g id="g2" %s>%s id="p1" %s/></g>%s id="p2" fill="#30a050"/></g>'
                    '<svg id="n1" x="20" y="30" width="120" height="100" viewBox="0 0 200 200" %s>%s id="pn" fill="#a03050"/></svg></g>'
                    % (rng.choice(['', 'translate(20 10)', 'scale(0.8)']), tattr(n1, 1), deco, tattr(n2, 2), sh, stroke, rng.choice(shapes),
                       tattr(rng.choice(nontrans), 1), rng.choice(shapes)))
        elif k == 10:   # sub-trees: nested clip paths with transformed children, masks (both content units), patterns (viewBox, nested)
            n1 = rng.choice(nontrans)
            pcu = rng.choice(['', '', 'patternContentUnits="objectBoundingBox"'])
            pat_child = ('<rect x="0.1" y="0.1" width="0.5" height="0.5" fill="#205080"/>' if pcu else
                         '<g transform="%s"><rect x="2" y="2" width="9" height="9" fill="#205080"/><g %s><circle cx="12" cy="12" r="4" fill="#c03030"/></g></g>'
                         % (rng.choice(tss), tattr(n1, 2)))
            body = ('<defs><clipPath id="c2"><rect x="20" y="20" width="150" height="140" transform="%s"/></clipPath>'
                    '<clipPath id="c1" clip-path="url(#c2)" %s><circle cx="100" cy="90" r="70" %s/><use xlink:href="#cr"/>'
                    '<text x="40" y="120" font-family="Noto Sans" font-size="40" transform="%s">Clip</text></clipPath><rect id="cr" x="30" y="100" width="100" height="60"/>'
                    '<mask id="m2"><rect x="0" y="0" width="200" height="120" fill="white"/></mask>'
                    '<mask id="m1" mask="url(#m2)" %s><g transform="%s"><rect x="%s" fill="white"/><g %s><circle cx="%s" fill="#888"/></g></g></mask>'
                    '<pattern id="pt" width="%s" height="%s" %s %s %s>%s</pattern></defs>'
                    '<g id="g1" transform="%s" clip-path="url(#c1)"><g id="g2" mask="url(#m1)">%s id="p1" fill="url(#pt)" stroke="url(#pt)" stroke-width="6"/></g></g>'
                    % (rng.choice(['', 'translate(5 5)', 'rotate(10)']), rng.choice(['', 'transform="scale(0.9)"', 'clipPathUnits="userSpaceOnUse"']),
                       tattr(rng.choice(tss[:4]), 2), rng.choice(['', 'translate(10 0)', 'scale(0.8)']),
                       'maskContentUnits="objectBoundingBox"' if rng.below(2) else '',
                       rng.choice(['', 'translate(0.05 0.05)', 'scale(0.9)']), '0" y="0" width="160" height="150' if rng.below(2) else '0.1" y="0.1" width="0.8" height="0.8',
                       tattr(rng.choice(['scale(0.5)', 'rotate(20)']), 2), '80" cy="80" r="50' if rng.below(2) else '0.5" cy="0.5" r="0.3',
                       '0.2' if pcu else '20', '0.2' if pcu else '20', '' if pcu else 'patternUnits="userSpaceOnUse"', pcu,
                       '' if pcu else rng.choice(['', 'viewBox="0 0 30 30"', 'patternTransform="rotate(30)"']), pat_child, t1, sh))
        else:           # transform-origin on leaves (shapes, text, images) with non-translation transforms, under a transformed parent
            n1 = rng.choice(nontrans)
            leaf = rng.choice(['%s id="p1" %s %s/>' % (sh, stroke, tattr(n1, 1)),
                               '<text id="t1" x="60" y="110" font-family="Noto Sans" font-size="24" %s>Origin</text>' % tattr(n1, 1),
                               '<rect id="p1" x="60" y="70" width="80" height="50" fill="#4070d0" %s/>' % tattr(n1, 1)])
            # (p2 unstroked: not the needle shapes[7], whose 1-px tip fades differently in different canvases)
            body = '<g id="g1" %s>%s<g id="g2" %s>%s id="p2" fill="#d07040"/></g></g>' % (tattr(t1, 2), leaf, tattr(rng.choice(nontrans), 1), rng.choice(shapes[:5]))
        docs.append('<svg %s width="220" height="220" viewBox="0 0 220 220">%s</svg>' % (NS, body))
    return docs


def origin_docs():
    """Must-pass inputs, independent of the seed: containers and leaves combining a non-translation `transform` with a non-zero
    `transform-origin` (rotate / scale / skew / matrix x absolute, keyword and percentage origins), two levels deep, with unit
    fills so that the painted-pixels oracle sees every node."""
    out = []
    combos = [('rotate(90)', '150 150'), ('scale(2)', '40 200'), ('skewX(20)', '100 160'), ('matrix(0.8 0.3 -0.4 1.1 5 -5)', 'center'),
              ('rotate(-30) scale(1.2 0.8)', '25% 75%'), ('scale(-1 1)', 'right top')]
    for k, (t, o) in enumerate(combos):
        t2, o2 = combos[(k + 1) % len(combos)]
        out.append('<svg %s width="300" height="300"><g id="outer" transform="translate(20 10)">'
                   '<g id="cont" transform="%s" transform-origin="%s"><rect id="r1" x="120" y="100" width="60" height="30" fill="green"/>'
                   '<g id="inner" transform="%s" transform-origin="%s"><rect id="r2" x="130" y="140" width="30" height="20" fill="blue"/></g></g>'
                   '<rect id="leaf" x="100" y="180" width="50" height="25" fill="red" transform="%s" transform-origin="%s"/>'
                   '<g id="og" transform-origin="%s"><circle id="c1" cx="60" cy="60" r="20" fill="orange"/></g></g></svg>'
                   % (NS, t, o, t2, o2, t, o, o))
    return out


def cli_stage(ctx, rng, quick, binp, docs):
    """Id queries of the command-line tool (crates/resvg/src/main.rs): `--query-all` must print the library's boxes, the
    `--export-id` image must have the size of that box and the pixels of resvg::render_node, and with --export-area-page
    the node must appear where the full rendering paints it."""
    import subprocess
    import concurrent.futures as cf
    from props import c20
    rb, ub, blog = c20.build_cli(ctx)
    if rb is None:
        ctx.violation("the resvg command-line tool does not build from the current tree", dict(build_log=blog[-1500:]), found_input=False)
        return
    wd = os.path.join(ctx.workdir, 'cli')
    os.makedirs(wd, exist_ok=True)
    fonts = c20.fonts_args()
    ndocs = 45 if quick else 400
    pick = rng.sample(docs, min(ndocs, len(docs)))
    # always: generated documents with stroked shapes / text carrying ids
    extra = []
    for i in range(8 if quick else 40):
        sw = rng.choice([4, 10, 7])
        extra.append(('<svg %s width="120" height="100"><g id="cg%d" transform="translate(%d %d)"><rect id="cr%d" x="30" y="40" width="40" height="20" '
                      'fill="#3a7" stroke="#205" stroke-width="%d"/><path id="cl%d" d="M 5 5 L 60 30" stroke="red" stroke-width="%d" fill="none"/></g>'
                      '<text id="ct%d" x="10" y="90" font-family="Noto Sans" font-size="14" stroke="blue" stroke-width="2">Ag</text></svg>'
                      % (NS, i, rng.below(20), rng.below(20), i, sw, i, sw, i), 'cli%d' % i))
    # must-pass inputs of the page-extent comparison (formerly noise: see robust_extent in c12.rs)
    for f in (os.path.join(vlib.VERIF, 'corpus', 'witness', 'C19-mask-on-mask-export.svg'),
              os.path.join(vlib.TESTS_DIR, 'tests', 'painting', 'context', 'with-pattern-in-use.svg')):
        if os.path.exists(f):
            extra.append(('@' + f, f))
    pick = pick + extra
    files = []
    for k, (d, name) in enumerate(pick):
        if d.startswith('@'):
            files.append(d[1:])
        else:
            pth = os.path.join(wd, 'doc%d.svg' % k)
            with open(pth, 'w') as f:
                f.write(d)
            files.append(pth)
    wouts = ctx.rvh_batch(binp, 'c19-write', ["-\t%s" % d for d, _ in pick], per_item_timeout=40)

    def sh(args, timeout=60):
        try:
            p = subprocess.run([rb] + fonts + args, stdout=subprocess.PIPE, stderr=subprocess.PIPE, timeout=timeout, cwd=vlib.TESTS_DIR)
            return p.returncode, p.stdout.decode('utf-8', 'replace'), p.stderr.decode('utf-8', 'replace')
        except subprocess.TimeoutExpired:
            return 124, '', 'timeout'
    stats = dict(documents=0, query_lines=0, exports=0, export_identical=0, page_checked=0)
    jobs = []
    reported = [0]
    for k, ((d, name), w) in enumerate(zip(pick, wouts)):
        try:
            r = json.loads(w)
        except (TypeError, ValueError):
            continue
        if 'nodes' not in r:
            continue
        withid = [n for n in r['nodes'] if n['id']]
        if not withid:
            continue
        stats['documents'] += 1
        # ---- --query-all vs accessors
        rc, out, err = sh(['--query-all', files[k]])
        lines = [l for l in out.splitlines() if l.count(',') >= 4]
        got = []
        for l in lines:
            parts = l.rsplit(',', 4)
            try:
                got.append((parts[0], [float(x) for x in parts[1:]]))
            except ValueError:
                pass
        exp = [(n['id'], n['lbbox'] if n['lbbox'] is not None else n['abs_bbox']) for n in withid]
        stats['query_lines'] += len(got)
        ctx.note_case("query-all/%s/%d" % (name, len(got)))
        okq = rc == 0 and len(got) == len(exp) and all(
            g[0] == e[0] and all(abs(a - b) <= 0.0011 + 1e-6 * abs(b) for a, b in zip(g[1], e[1])) for g, e in zip(got, exp))
        if not okq and reported[0] < 3:
            reported[0] += 1
            bad = next(((g, e) for g, e in zip(got, exp) if g[0] != e[0] or any(abs(a - b) > 0.0011 + 1e-6 * abs(b) for a, b in zip(g[1], e[1]))), None)
            ctx.violation("--query-all of %s does not print the boxes of the library accessors (first difference: %s)" % (name, bad),
                          dict(op='cli-query-all', argv=[rb] + fonts + ['--query-all', files[k]], doc=d, stdout=out[:1500], stderr=err[:300],
                               expected=exp[:20], exit=rc))
        counts = {}
        for n in withid:
            counts[n['id']] = counts.get(n['id'], 0) + 1
        cand = [n for n in withid if counts[n['id']] == 1 and n['lbbox'] is not None and n['lbbox'][2] <= 1500 and n['lbbox'][3] <= 1500
                and not re.search(r"[\t\n]", n['id'])]
        for n in (rng.sample(cand, 3) if len(cand) > 3 else cand):
            jobs.append((k, d, name, n))

    def export(job):
        k, d, name, n = job
        p1 = os.path.join(wd, 'e%d_%d.png' % (k, abs(hash(n['id'])) % 100000))
        p2 = p1[:-4] + '_page.png'
        a1 = ['--export-id', n['id'], files[k], p1]
        a2 = ['--export-id', n['id'], '--export-area-page', files[k], p2]
        r1 = sh(a1)
        r2 = sh(a2)
        return p1, p2, a1, a2, r1, r2
    with cf.ThreadPoolExecutor(max_workers=12) as ex:
        exps = list(ex.map(export, jobs))
    payloads = ["-\t%s\t%s\t%s\t%s" % (d, n['id'], e[0], e[1]) for (k, d, name, n), e in zip(jobs, exps)]
    louts = ctx.rvh_batch(binp, 'cli-export', payloads, per_item_timeout=60)
    crops = []
    for (k, d, name, n), e, o in zip(jobs, exps, louts):
        p1, p2, a1, a2, r1, r2 = e
        for pth in (p1, p2):
            try:
                os.remove(pth)
            except OSError:
                pass
        try:
            r = json.loads(o)
        except (TypeError, ValueError):
            r = {'error': 'unparsable'}
        if 'expected_size' not in r:
            continue
        stats['exports'] += 1
        ctx.note_case("cli-export/%s/%s" % (name, n['id']))
        rp = dict(op='cli-export', doc=d, id=n['id'], argv_export=[rb] + fonts + a1, argv_page=[rb] + fonts + a2, result=r,
                  exit_export=r1[0], stderr_export=r1[2][:300], exit_page=r2[0], stderr_page=r2[2][:300], node=n)
        ex_ = r.get('export', {})
        problems = []
        if 'size' not in ex_:
            problems.append("--export-id wrote no readable PNG (exit %s: %s)" % (r1[0], r1[2][:120]))
        elif ex_['size'] != r['expected_size']:
            problems.append("--export-id image is %sx%s but the node's absolute layer box %s (what --query-all prints) gives %sx%s"
                            % (ex_['size'][0], ex_['size'][1], r['lbbox'], r['expected_size'][0], r['expected_size'][1]))
        elif ex_['ndiff_vs_render_node'] != 0:
            problems.append("--export-id image differs from resvg::render_node in %d pixels" % ex_['ndiff_vs_render_node'])
        else:
            stats['export_identical'] += 1
        pg = r.get('page', {})
        if 'size' not in pg:
            problems.append("--export-area-page wrote no readable PNG (exit %s: %s)" % (r2[0], r2[2][:120]))
        elif pg['size'] != pg['expected_size']:
            problems.append("--export-area-page image is %s, the page is %s" % (pg['size'], pg['expected_size']))
        elif '<pattern' in source_text(d):
            # Pattern-painted content: resvg rasterises the pattern tile on the device grid, so WHICH pixels of a sparse pattern are
            # painted changes with the sub-pixel shift of the CLI's truncated placement (gen121 / gen387 / gen677, painting/context/
            # with-pattern-in-use.svg: blobs and hairline tips appear / vanish; render_node == full rendering at equal phase is C19's
            # export-pair, green on the same documents).  The placement itself is checked exactly instead: the page image is the
            # `--export-id` image drawn at (trunc(box.x), trunc(box.y)), so its painted extent must be the export's extent moved by
            # that offset and cut at the page border - no tolerance.
            stats['page_checked'] += 1
            ee, pe = ex_.get('extent_plain'), pg.get('extent_plain')
            ox, oy = int(r['lbbox'][0]), int(r['lbbox'][1])
            want = None
            if ee is not None:
                want = [max(0, ee[0] + ox), max(0, ee[1] + oy), min(pg['size'][0], ee[2] + ox), min(pg['size'][1], ee[3] + oy)]
                if want[0] >= want[2] or want[1] >= want[3]:
                    want = None
            if 'extent_plain' in ex_ and (pe != want) and not (want is not None and pe is not None and ee is not None and
                                                                 (ee[0] + ox < 0 or ee[1] + oy < 0 or ee[2] + ox > pg['size'][0] or ee[3] + oy > pg['size'][1])
                                                                 and all(abs(a - b) <= max(ee[2] - ee[0], ee[3] - ee[1]) for a, b in zip(pe, want))):
                problems.append("with --export-area-page the painted extent is %s; the --export-id image (extent %s) drawn at the truncated layer box origin "
                                "(%d, %d) gives %s" % (pe, ee, ox, oy, want))
        elif pg['ref_ok'] and min(r['expected_size']) >= 4 and 'filter' not in source_text(d):
            # (extents are `robust_extent`s of c12.rs: pixels of alpha <= 2 do not count - measured noise of
            #  mask residues (alpha 1); masks with their own mask ARE compared; pattern-painted documents: exact placement rule above)
            # (filters depend on the canvas they are rendered into: C19's business; here CLI == render_node is checked above)
            stats['page_checked'] += 1
            a, b = pg['extent'], pg['ref_extent']
            # the export window: the layer box placed at integer page coordinates (truncation), size to_int_size
            wx, wy = int(r['lbbox'][0]), int(r['lbbox'][1])
            win = (max(0, wx), max(0, wy), min(pg['size'][0], wx + r['expected_size'][0]), min(pg['size'][1], wy + r['expected_size'][1]))
            bclip = None
            if b is not None and min(b[2], win[2]) > max(b[0], win[0]) and min(b[3], win[3]) > max(b[1], win[1]):
                bclip = (max(b[0], win[0]), max(b[1], win[1]), min(b[2], win[2]), min(b[3], win[3]))
            def thin(e):
                return e is not None and (e[2] - e[0] <= 2 or e[3] - e[1] <= 2)
            if (a is None and thin(bclip)) or (bclip is None and thin(a)):
                pass        # a sliver of at most 2 px at the page / window border: integer placement of the CLI (truncation)
            elif (a is None) != (bclip is None) or (a is not None and any(abs(x - y) > 2 for x, y in zip(a, bclip))):
                problems.append("with --export-area-page the node is painted at %s, the full rendering paints it at %s (inside the export window %s: %s)"
                                % (a, b, win, bclip))
            elif b is not None and (b[0] < win[0] - 2 or b[1] < win[1] - 2 or b[2] > win[2] + 2 or b[3] > win[3] + 2):
                crops.append((k, d, name, n, rp, a, b, win))
        if problems and reported[0] < 6:
            reported[0] += 1
            text = "CLI id export of %s %r from %s: %s" % (n['kind'], n['id'], name, '; '.join(problems))
            src = source_text(d)
            if use_transform_class(src):
                ctx.known_or_violation('use_transform_twice', text, rp)
            else:
                ctx.violation(text, rp)
    # painted content that lies outside the export window (the node's layer box): the export crops it
    stats['exports_that_crop'] = len(crops)
    nrep = 0
    for k, d, name, n, rp, a, b, win in crops:
        text = ("exporting %s %r of %s by id crops painted content: the full rendering paints it at %s, the export window (absolute layer box) is %s"
                % (n['kind'], n['id'], name, b, win))
        src = source_text(d)
        if use_transform_class(src):
            ctx.known_or_violation('use_transform_twice', text, rp)
        elif re.search(r"stroke-dasharray", src):
            ctx.known_or_violation('dash_caps_outside_stroke_box', text, rp)
        elif n['kind'] == 'path' and re.search(r"\b(rotate|skewX|skewY|matrix)\s*\(", src):
            # the export window of a path is its absolute stroke box: too small under skew / rotation with scale
            ctx.known_or_violation('stroke_box_skew', text, rp)
        elif nrep < 3:
            nrep += 1
            ctx.violation(text, rp)
    # ---------------------------------------------------------------- zoom: {--export-id} x {--export-area-page on / off} x {-z 3, -z 8, -w, -h, none}
    # x fractional layer-box origins (.25 / .5 / .75): the painted box must be zoom * the reported absolute layer box.
    # main.rs places the node pixmap at trunc(box origin * zoom): tolerance 2 px (truncation + anti-aliasing); measured 0-1 px.
    zdocs = []
    for k, (fx, fy) in enumerate([(10.75, 5.5), (20.25, 12.75), (7.5, 30.25)]):
        zdocs.append(('<svg %s width="100" height="60"><g id="zg%d" transform="translate(%s %s)"><rect id="zr%d" x="0" y="0" width="20" height="10" fill="#2a6"/>'
                      '<rect x="4" y="2" width="6" height="3" fill="#a26"/></g></svg>' % (NS, k, fx, fy, k), 'zoom%d' % k, (fx, fy, 20.0, 10.0)))
    zvars = [('z1', [], lambda W, H: 1.0), ('z3', ['-z', '3'], lambda W, H: 3.0), ('z8', ['-z', '8'], lambda W, H: 8.0),
             ('w', ['-w', '350'], lambda W, H: 350.0 / W), ('h', ['-h', '150'], lambda W, H: 150.0 / H)]
    zjobs = []
    for k, (d, name, box) in enumerate(zdocs):
        pth = os.path.join(wd, 'zoom%d.svg' % k)
        with open(pth, 'w') as f:
            f.write(d)
        for nid in ('zg%d' % k, 'zr%d' % k):
            for vn, vargs, zf in zvars:
                for page in (True, False):
                    out = os.path.join(wd, 'zoom%d_%s_%s_%d.png' % (k, nid, vn, page))
                    zjobs.append(dict(doc=d, name=name, id=nid, box=box, var=vn, page=page, out=out, zf=zf,
                                      argv=vargs + ['--export-id', nid] + (['--export-area-page'] if page else []) + [pth, out]))

    def zrun(j):
        return sh(j['argv'])
    with cf.ThreadPoolExecutor(max_workers=12) as ex:
        zres = list(ex.map(zrun, zjobs))
    zext = ctx.rvh_batch(binp, 'png-extent', [j['out'] for j in zjobs], per_item_timeout=30)
    zstats = dict(cases=0, max_dev=0.0)
    zrep = 0
    for j, (rc, so, se), o in zip(zjobs, zres, zext):
        try:
            os.remove(j['out'])
        except OSError:
            pass
        try:
            e = json.loads(o)
        except (TypeError, ValueError):
            e = {'error': 'unparsable'}
        x, y, w, h = j['box']
        z = j['zf'](100.0, 60.0) if j['page'] else j['zf'](w, h)    # -w / -h fit the page, or the node when exported alone
        ctx.note_case("cli-zoom/%s/%s/%s/%d" % (j['name'], j['id'], j['var'], j['page']))
        zstats['cases'] += 1
        rp = dict(op='cli-zoom', doc=j['doc'], id=j['id'], argv=[rb] + fonts + j['argv'], exit=rc, stderr=se[:300], result=e, zoom=z, reported_box=j['box'])
        if 'extent' not in e or e['extent'] is None:
            if zrep < 3:
                zrep += 1
                ctx.violation("CLI zoom export of %r (%s, page=%s) wrote no readable / an empty PNG (exit %s: %s)" % (j['id'], j['var'], j['page'], rc, se[:120]), rp)
            continue
        want = [x * z, y * z, (x + w) * z, (y + h) * z] if j['page'] else [0.0, 0.0, w * z, h * z]
        dev = max(abs(a - b) for a, b in zip(e['extent'], want))
        zstats['max_dev'] = max(zstats['max_dev'], dev)
        # without --export-area-page the canvas is fit_to(to_int_size(box)): the content may be up to 1 zoomed unit short of it
        tol = 2.0 if j['page'] else 2.0 + z
        if dev > tol and zrep < 3:
            zrep += 1
            ctx.violation("CLI `%s --export-id %s%s`: the node is painted at %s, zoom %.3g x its reported absolute layer box %s is %s (off by %.2f px)"
                          % (' '.join(j['argv'][:-4 if j['page'] else -3][:2]) or 'zoom 1', j['id'], ' --export-area-page' if j['page'] else '', e['extent'], z,
                             list(j['box']), [round(v, 2) for v in want], dev), rp)
    stats['zoom'] = zstats
    ctx.cov['cli'] = stats


def run(ctx):
    rng = ctx.rng
    quick = ctx.tier == 'quick'
    ctx.cov['trusted_base'] = vlib.BASE_TRUSTED + [
        "tiny-skia-path: tight path bounds, stroker (stroke boxes), Rect::transform hand-modelled as the bounds of the four mapped corners",
        "text layout boxes (usvg::text) and image decoding: unmodelled, covered by the painted-pixels oracle only",
        "tools/gen_bbox.py anchors (regular expressions over tree/mod.rs, tree/geom.rs, parser/*.rs, resvg/src/lib.rs)",
        "crates/resvg/src/main.rs (query_all, render_svg --export-id): unmodelled, compared with the library by the CLI stage",
    ]
    ctx.assumptions = ["finite coordinates; f32 rounding of transformed boxes idealised (comparison tolerance 1e-4 relative)",
                       "leaf boxes (tight bounds, stroke outline, text layout) are taken as given by the model; the oracle checks them against pixels",
                       "anti-aliasing margin 2 px"]
    broken = ctx.translate()
    res = ctx.coq_props()
    proof_ok = res['ok'] and not broken
    binp, blog = ctx.harness('release')
    if binp is None:
        ctx.violation("harness does not build against the current tree (correspondence cannot run)", dict(build_log=blog[-2000:]), found_input=False)
        return

    files = vlib.corpus_files()
    wit = [os.path.join(vlib.VERIF, 'corpus', 'witness', f) for f in ('F21.svg', 'F14.svg', 'C12-background.svg', 'C12-stroke-skew.svg', 'C12-dash-caps.svg', 'C12-nested-svg-transform.svg', 'C12-leaf-export-crop.svg', 'C12-pattern-pushed-transform.svg',
                                                                   'C12-synth-clip-nested-svg.svg', 'C12-synth-clip-image.svg', 'C12-use-symbol-visible.svg')]
    wit = [w for w in wit if os.path.exists(w)]
    sample = list(files) if not quick else rng.sample(files, 500)
    must = [f for f in files if re.search(r"structure/(use|symbol|svg|image)/|painting/marker/|filters/filter/|masking/", f)]
    if quick:
        must = rng.sample(must, min(150, len(must)))
    # every tier, every seed: all files that exercise transform / transform-origin resolution (the abs-transform-is-product
    # invariant depends on the attribute combination, and the corpus has a single file with transform-origin on a container)
    # + painting/marker/inheritance-2.svg: the marker viewport clip root whose boxes were the dummies until fd607e1
    always = [f for f in files if re.search(r"structure/(transform-origin|transform)/|painting/marker/inheritance-2\.svg$", f)]
    sample = sorted(set(sample + must + always)) + wit
    gdocs = gen_docs(rng, 130 if quick else 1200)
    odocs = origin_docs()
    docs = [('@' + f, f) for f in sample] + [(d, 'gen%d' % i) for i, d in enumerate(gdocs)] + [(d, 'origin%d' % i) for i, d in enumerate(odocs)]
    ctx.cov['transform_origin_inputs'] = dict(corpus=len(always), generated=sum(1 for d in gdocs if 'transform-origin' in d), fixed=len(odocs))

    # ------------------------------------------------------------------ K bbox
    outs = ctx.rvh_batch(binp, 'dump', ["-\t" + d for d, _ in docs], per_item_timeout=40)
    cases = []
    meta = []
    trees = {}
    skipped_nonfinite = 0
    sub_counts = {}
    groups_pabs = []
    for (d, name), o in zip(docs, outs):
        try:
            tree = json.loads(o)
        except (TypeError, ValueError):
            tree = {'error': 'unparsable'}
        if 'root' not in tree:
            if 'crash' in tree or 'panic' in tree:
                ctx.violation("dump crashed: %s" % str(tree)[:200], dict(doc=d))
            continue
        trees[name] = tree
        for path, g, pabs, info in groups_of_ex(tree):
            c = group_case(g, pabs)
            if c is None:
                skipped_nonfinite += 1
                continue
            cases.append(c)
            meta.append((d, name, path, g, info))
            groups_pabs.append(pabs)
            if info['sub']:
                kind = re.sub(r"[\d.]+$", "", info['sub'])
                sub_counts[kind] = sub_counts.get(kind, 0) + 1
            ctx.note_case("bbox/%s%s" % (name, path), nontrivial=len(g['children']) > 0)
    ctx.cov['bbox_groups'] = len(cases)
    ctx.cov['bbox_groups_skipped_nonfinite'] = skipped_nonfinite
    ctx.cov['bbox_subtree_groups'] = sub_counts
    model_ok = True
    prod_bad = []
    box_bad = []
    CH = 1500
    import concurrent.futures as cf

    def ev(k):
        return ctx.coq_eval('k_bbox_%d' % k, coq_body(cases[k * CH:(k + 1) * CH]), IMPORTS, timeout=900)
    nch = (len(cases) + CH - 1) // CH
    with cf.ThreadPoolExecutor(max_workers=8) as ex:
        results = list(ex.map(ev, range(nch)))
    for k, (rc, out) in enumerate(results):
        lists = parse_two_lists(out) if rc == 0 else None
        if lists is None:
            model_ok = False
            ctx.log("model evaluation failed:\n" + out[-1500:])
            continue
        prod_bad += [k * CH + i for i in lists[0]]
        box_bad += [k * CH + i for i in lists[1]]
    if not model_ok:
        ctx.violation("bbox: the model no longer evaluates (Model/BBox.v)", dict(), found_input=False)
    ctx.cov['bbox_product_mismatches'] = len(prod_bad)
    ctx.cov['bbox_box_mismatches'] = len(box_bad)
    reported = 0
    # class use_transform_twice, exact: the reported abs_transform must EQUAL the value the unchanged code is known to produce
    # (Model/BBox.v known_wrong_use: KW_ViaUse / KW_ClipWrap / KW_Inner), leaves must still carry the group's abs_transform
    use_idx = [i for i in prod_bad if not pattern_pushed_class(meta[i][3], meta[i][4]) and use_transform_class(source_text(meta[i][0]))]
    use_exact = set()
    if use_idx:
        rows = []
        for i in use_idx:
            d, name, path, g, info = meta[i]
            pabs = [x for x in (groups_pabs[i] if groups_pabs[i] is not None else ID6)]
            cands = use_candidates(source_text(d))
            rows.append("(%s, %s, %s, %s, %s, %s, [%s], [%s])" % (
                cts(info['gp_abs'] if info.get('gp_abs') is not None else ID6), cts(pabs), cts(info['parent_ts'] if info.get('parent_ts') is not None else ID6),
                cts(g['ts']), cts(g['abs_ts']), 'true' if info.get('wrap_ok') else 'false',
                '; '.join("(%s, %s, %s)" % ('true' if u else 'false', cts(pp), cts(aa)) for u, pp, aa in cands),
                '; '.join(cts(c['abs_ts']) for c in g['children'] if c['t'] != 'g')))
        body = ("Local Open Scope Q_scope.\n"
                "Fixpoint bad_from {A} (f : A -> bool) (l : list A) (i : N) : list N :=\n"
                "  match l with [] => [] | x :: r => if f x then bad_from f r (N.succ i) else i :: bad_from f r (N.succ i) end.\n"
                "Definition rows : list (ts * ts * ts * ts * ts * bool * list (bool * ts * ts) * list ts) := [\n%s\n].\n"
                "Eval vm_compute in (bad_from (fun r => match r with (gp, p, pt, t, a, w, cs, ls) => known_wrong_use %s gp p pt t a w cs && "
                "forallb (fun l => ts_closeb %s l a) ls end) rows 0%%N).\n" % (";\n".join(rows), TOL, TOL))
        rc, out = ctx.coq_eval('k_use_exact', body, IMPORTS, timeout=600)
        bl = ctx.parse_N_list(out) if rc == 0 else None
        if bl is None:
            ctx.log("model evaluation failed:\n" + out[-1200:])
            ctx.violation("bbox: the exact class predicate known_wrong_use no longer evaluates (Model/BBox.v)", dict(), found_input=False)
        else:
            use_exact = set(use_idx[j] for j in range(len(use_idx)) if j not in bl)
    ctx.cov['use_transform_twice_exact'] = dict(candidates=len(use_idx), excused=len(use_exact))
    for i in prod_bad:
        d, name, path, g, info = meta[i]
        src = source_text(d)
        rep = dict(op='bbox/abs-transform', doc=d, group_path=path, group_id=g['id'], ts=g['ts'], abs_ts=g['abs_ts'], parent_abs=groups_pabs[i],
                   children_abs=[c['abs_ts'] for c in g['children'] if c['t'] != 'g'][:3])
        text = "abs_transform is not the product of the ancestors' transforms at group %r (%s) of %s" % (g['id'], path, name)
        if pattern_pushed_class(g, info):
            ctx.known_or_violation('pattern_pushed_transform', text + " (pattern content below the push_pattern_transform wrapper)", rep)
        elif i in use_exact:
            ctx.known_or_violation('use_transform_twice', text, rep)
        elif reported < 3:
            if i in use_idx:
                text += (" - the value is NOT the one class use_transform_twice excuses (parent * passed * attribute for a use / symbol group, "
                         "parent abs for the viewport clip wrapper, parent * use transform for the group inside it)")
            ctx.violation(text, rep)
            reported += 1
    nrep_box = 0
    # box mismatches at / below a push_pattern_transform wrapper: the class holds iff the reported boxes are exactly the model's
    # recomputation under the abs_transform the group had BEFORE the push (decided inside Coq as well)
    stale_idx = [i for i in box_bad if meta[i][4].get('stale') is not None]
    stale_ok = set()
    if stale_idx:
        sc = []
        for i in stale_idx:
            g2 = dict(meta[i][3])
            g2['abs_ts'] = meta[i][4]['stale']
            sc.append(group_case(g2, None))
        rc, out = ctx.coq_eval('k_bbox_stale', coq_body(sc), IMPORTS, timeout=600)
        lists = parse_two_lists(out) if rc == 0 else None
        if lists is not None:
            stale_ok = set(stale_idx[j] for j in range(len(stale_idx)) if j not in lists[1])
    npat = 0
    for i in box_bad:
        d, name, path, g, info = meta[i]
        if i in stale_ok:
            if npat == 0:
                ctx.known_or_violation('pattern_pushed_transform', "bbox: the absolute boxes of group %s of %s (at / below the push_pattern_transform wrapper) are "
                                       "those of the abs_transform before the push" % (path, name),
                                       dict(op='bbox/boxes', doc=d, group_path=path, abs_ts=g['abs_ts'], abs_ts_before_push=info['stale'],
                                            reported={k: g[k] for k in DUMMY_BOXES}))
            npat += 1
            continue
        nrep_box += 1
        if nrep_box > 3:
            continue
        ctx.violation("bbox: boxes of group %r (%s) of %s differ from the model's recomputation from its children" % (g['id'], path, name),
                      dict(op='bbox/boxes', doc=d, group_path=path, reported={k: g[k] for k in ('bbox', 'abs_bbox', 'sbbox', 'abs_sbbox', 'lbbox', 'abs_lbbox')},
                           abs_ts=g['abs_ts'], children=[{k: c.get(k) for k in ('t', 'ts', 'bbox', 'abs_bbox', 'sbbox', 'abs_sbbox', 'lbbox')} for c in g['children']][:6],
                           filters=[f['rect'] for f in g.get('filters', [])]))
    if cases:
        ctx.add_sample(dict(op='bbox', doc=meta[0][0][:300], group=meta[0][2]))

    # ------------------------------------------------------------------ K path-boxes: polygonal paths, both branches of Path::new
    pcases = []
    pmeta = []

    def walk_paths(n, name, d, path):
        if n['t'] == 'path':
            segs = n.get('segs', [])
            if segs and all(sg[0] in 'MLZ' for sg in segs) and node_numbers_ok(n):
                # tiny-skia's compute_tight_bounds takes every MoveTo and LineTo point, a stray trailing MoveTo included
                # (shapes/path/M-L-M.svg, M-L-M-Z.svg: the box reaches the unpainted point 180,30; measured on the whole corpus:
                # 3598 polygonal paths, 0 disagreements with this rule, 2 with "MoveTo only when a LineTo follows")
                pts = [(sg[1], sg[2]) for sg in segs if sg[0] in 'ML']
                if len(pts) >= 2:
                    pcases.append("(%s, [%s], %s, %s)" % (cts(n['abs_ts']), '; '.join("(%s, %s)" % (qstr(x), qstr(y)) for x, y in pts),
                                                         cbox(n['bbox']), cbox(n['abs_bbox'])))
                    pmeta.append((d, name, path, n))
        for i, c in enumerate(n.get('children', [])):
            walk_paths(c, name, d, "%s/%d" % (path, i))
    for (d, name) in docs:
        if name in trees:
            walk_paths(trees[name]['root'], name, d, '')
    if quick and len(pcases) > 900:
        keep = sorted(rng.sample(list(range(len(pcases))), 900))
        pcases = [pcases[i] for i in keep]
        pmeta = [pmeta[i] for i in keep]
    ctx.cov['path_box_cases'] = len(pcases)
    for _d, _name, _path, _n in pmeta:
        ctx.note_case("pathbox/%s%s" % (_name, _path))
    if pcases:
        PCH = 300

        def pev(k):
            body = ("Local Open Scope Q_scope.\n"
                    "Fixpoint bad_from {A} (f : A -> bool) (l : list A) (i : N) : list N :=\n"
                    "  match l with [] => [] | x :: r => if f x then bad_from f r (N.succ i) else i :: bad_from f r (N.succ i) end.\n"
                    "Definition cases : list (ts * list pt * box * box) := [\n%s\n].\n"
                    "Eval vm_compute in (bad_from (fun c => match c with (t, pts, o, a) => chk_path_boxes %s t pts o a end) cases 0%%N).\n"
                    % (";\n".join(pcases[k * PCH:(k + 1) * PCH]), TOL))
            return ctx.coq_eval('k_pathbox_%d' % k, body, IMPORTS, timeout=900)
        with cf.ThreadPoolExecutor(max_workers=8) as ex:
            pres = list(ex.map(pev, range((len(pcases) + PCH - 1) // PCH)))
        nrep = 0
        for k, (rc, out) in enumerate(pres):
            bl = ctx.parse_N_list(out) if rc == 0 else None
            if bl is None:
                ctx.log("model evaluation failed:\n" + out[-1200:])
                ctx.violation("path-boxes: the model no longer evaluates (Model/BBox.v)", dict(), found_input=False)
                break
            for bi in bl:
                d, name, path, n = pmeta[k * PCH + bi]
                if nrep < 3:
                    nrep += 1
                    ctx.violation("path-boxes: bounding_box / abs_bounding_box of the polygonal path %r (%s) of %s differ from the bounding box of its "
                                  "(transformed) vertices" % (n['id'], path, name),
                                  dict(op='bbox/path', doc=d, group_path=path, abs_ts=n['abs_ts'], segs=n['segs'][:12], bbox=n['bbox'], abs_bbox=n['abs_bbox']))
    # ------------------------------------------------------------------ K leaf-sandwich: fill box <= stroke box <= inflated fill box
    # every path leaf of every tree (sub-trees included): chk_leaf_sandwich inside Coq.  Slack 0.02 + 1e-5 * |coordinate| (f32 of
    # the stroker; measured on the whole corpus, 3886 paths: largest excess over the radius bound 0.044 at radius 20).  Not in
    # the comparison: paths with a stray MoveTo (its point is in the fill box but has no outline: shapes/path/M-L-M.svg) - counted.
    JOIN = {'Miter': 0, 'MiterClip': 1, 'Round': 2, 'Bevel': 3}
    CAP = {'Butt': 0, 'Round': 1, 'Square': 2}
    scases, smeta = [], []
    stray = [0]
    nostroke_diff = [0]

    def walk_leaves(n, name, d, path):
        if n['t'] == 'path' and finite(n['bbox']) and finite(n['sbbox']):
            segs = n.get('segs', [])
            if any(sg[0] == 'M' and (k + 1 >= len(segs) or segs[k + 1][0] in 'MZ') for k, sg in enumerate(segs)):
                stray[0] += 1
            else:
                st = n.get('stroke')
                if not st and list(n['bbox']) != list(n['sbbox']):
                    nostroke_diff[0] += 1    # the fill half of a path split by paint-order keeps the stroke box (larger, harmless)
                w = st['width'] if st else 0
                ml = st['miterlimit'] if st else 4
                mx = max(abs(v) for v in list(n['bbox']) + list(n['sbbox']))
                scases.append("(%s, %s, %s, %d%%N, %d%%N, %s, %s, %s)" % (
                    'true' if st else 'false', qstr(w), qstr(ml), JOIN.get(st['linejoin'], 0) if st else 0, CAP.get(st['linecap'], 2) if st else 0,
                    cbox(n['bbox']), cbox(n['sbbox']), qstr(f32(0.02 + 1e-5 * mx))))
                smeta.append((d, name, path, n))
        for i, c in enumerate(n.get('children', [])):
            walk_leaves(c, name, d, "%s/%d" % (path, i))
        for lab, r, ptr in subroots_of(n):
            walk_leaves(r, name, d, "%s#%s" % (path, lab))
    for (d, name) in docs:
        if name in trees:
            walk_leaves(trees[name]['root'], name, d, '')
    if quick and len(scases) > 1500:
        keep = sorted(rng.sample(list(range(len(scases))), 1500))
        scases = [scases[i] for i in keep]
        smeta = [smeta[i] for i in keep]
    ctx.cov['leaf_sandwich'] = dict(cases=len(scases), stray_moveto_skipped=stray[0], unstroked_with_larger_stroke_box=nostroke_diff[0])
    for _d, _name, _path, _n in smeta:
        ctx.note_case("sandwich/%s%s" % (_name, _path), nontrivial=bool(_n.get('stroke')))
    if scases:
        SCH = 800

        def sev(k):
            body = ("Local Open Scope Q_scope.\n"
                    "Fixpoint bad_from {A} (f : A -> bool) (l : list A) (i : N) : list N :=\n"
                    "  match l with [] => [] | x :: r => if f x then bad_from f r (N.succ i) else i :: bad_from f r (N.succ i) end.\n"
                    "Definition cases : list (bool * Q * Q * N * N * box * box * Q) := [\n%s\n].\n"
                    "Eval vm_compute in (bad_from (fun c => match c with (sk, w, ml, j, cp, fb, sb, sl) => chk_leaf_sandwich sl sk w ml j cp fb sb end) cases 0%%N).\n"
                    % ";\n".join(scases[k * SCH:(k + 1) * SCH]))
            return ctx.coq_eval('k_sandwich_%d' % k, body, IMPORTS, timeout=900)
        with cf.ThreadPoolExecutor(max_workers=8) as ex:
            sres = list(ex.map(sev, range((len(scases) + SCH - 1) // SCH)))
        nrep = 0
        for k, (rc, out) in enumerate(sres):
            bl = ctx.parse_N_list(out) if rc == 0 else None
            if bl is None:
                ctx.log("model evaluation failed:\n" + out[-1200:])
                ctx.violation("leaf-sandwich: the model no longer evaluates (Model/BBox.v)", dict(), found_input=False)
                break
            for bi in bl:
                d, name, path, n = smeta[k * SCH + bi]
                if nrep < 3:
                    nrep += 1
                    st = n.get('stroke') or {}
                    ctx.violation("leaf-sandwich: path %r (%s) of %s: fill box %s, stroke box %s are not fill <= stroke <= fill inflated by the stroke radius "
                                  "(width %s, miter limit %s, %s join, %s cap)" % (n['id'], path, name, n['bbox'], n['sbbox'], st.get('width'), st.get('miterlimit'),
                                                                                 st.get('linejoin'), st.get('linecap')),
                                  dict(op='bbox/sandwich', doc=d, group_path=path, bbox=n['bbox'], sbbox=n['sbbox'],
                                       stroke={k2: st.get(k2) for k2 in ('width', 'miterlimit', 'linejoin', 'linecap')}, segs=n.get('segs', [])[:12]))
    # ------------------------------------------------------------------ S e2e-C12 painted pixels inside the reported boxes
    per = 12 if quick else 400
    payloads = ["-\t%s\t%d\t%d\t2" % (d, per, rng.below(1 << 30)) for d, _ in docs]
    pouts = ctx.rvh_batch(binp, 'node-paint', payloads, per_item_timeout=120)
    tot = dict(nodes=0, checked=0, skipped=0, painted=0)
    reported = 0
    for (d, name), o in zip(docs, pouts):
        try:
            r = json.loads(o)
        except (TypeError, ValueError):
            r = {'error': 'unparsable'}
        if 'nodes' not in r:
            if 'crash' in r or 'panic' in r:
                ctx.violation("node-paint crashed: %s" % str(r)[:200], dict(doc=d))
            continue
        for k in tot:
            tot[k] += r[k]
        ctx.note_case("paint/%s/%d" % (name, r['checked']), nontrivial=r['painted'] > 0)
        for b in r['bad']:
            src = source_text(d)
            rep = dict(op='node-paint', doc=d, node=b, replay="rvh node-paint <<< '0\\t-\\t<doc>\\t400\\t1\\t2'")
            text = ("%s %r (%s) of %s paints %d pixels up to %.1f px outside its reported absolute %s box %s (painted %s)"
                    % (b['kind'], b['id'], b['path'], name, b['outside'], b['excess'], 'layer' if b['kind'] == 'g' else 'stroke', b['box'], b['painted']))
            tree = trees.get(name)
            if use_transform_class(src) and tree is not None and in_use_subtree(tree, b['path']):
                ctx.known_or_violation('use_transform_twice', text, rep)
            elif stroke_skew_class(b):
                ctx.known_or_violation('stroke_box_skew', text, rep)
            elif dash_caps_class(b):
                ctx.known_or_violation('dash_caps_outside_stroke_box', text, rep)
            elif reported < 4:
                ctx.violation(text, rep)
                reported += 1
    ctx.cov['paint'] = tot
    ctx.add_sample(dict(op='node-paint', doc=docs[-1][0][:400]))

    cli_stage(ctx, rng, quick, binp, docs)

    if not proof_ok and not ctx.violations:
        ctx.violation("C12 proof obligations no longer check: %s %s" % (res['failed'] + res['audit'], [x['name'] + ': ' + str(x['err']) for x in broken]),
                      dict(failed_files=res['failed'], audit=res['audit'], broken_ties=broken, log_tail=res['log'][-3000:]), found_input=False)
    ctx.cov['rule'] = ("bbox: every group (main tree and clip-path / mask / pattern / feImage sub-trees) of every tree of the corpus sample; all "
                       "structure/transform(-origin) files and 6 fixed transform-origin documents in every run; every group of every tree of the corpus sample (quick: ~600 files incl. use/symbol/svg/image/marker/filter/masking; thorough: all) "
                       "and of generated documents (strokes with every cap/join/miter under translate/scale/rotate/skew/mirror, markers, use/symbol/nested svg, "
                       "filter regions larger and smaller than the content, clip paths, masks, text, images); node-paint: up to 12 (thorough: 400) nodes per "
                       "document.  Non-trivial: the group has children / the node paints at least one pixel.")


def replay(ctx, path):
    r = json.load(open(path))
    print(json.dumps({k: v for k, v in r.items() if k != 'replay'}, indent=1)[:1500])
    rp = r.get('replay', {})
    print(json.dumps(rp, indent=1)[:3000])
    if rp.get('op') == 'node-paint':
        binp, _ = ctx.harness('release')
        out = ctx.rvh_batch(binp, 'node-paint', ["-\t%s\t400\t1\t2" % rp['doc']])[0]
        print("result now:", out[:2000])
        try:
            bad = json.loads(out).get('bad')
        except (TypeError, ValueError):
            bad = True
        print("REPRODUCED" if bad else "not reproduced")
        return 1 if bad else 0
    if rp.get('op', '').startswith('bbox'):
        binp, _ = ctx.harness('release')
        out = ctx.rvh_batch(binp, 'dump', ["-\t" + rp['doc']])[0]
        tree = json.loads(out)
        for p, g, pabs in groups_of(tree):
            if p == rp['group_path']:
                print("group now:", json.dumps({k: g[k] for k in ('id', 'ts', 'abs_ts', 'bbox', 'abs_bbox', 'lbbox', 'abs_lbbox')}), "parent abs:", pabs)
    return 0
