"""C17  Document size and viewBox mapping follow the SVG viewport rules."""
import base64
import json
from fractions import Fraction

import vlib
from vlib import qstr

ALIGNS = ['none', 'xMinYMin', 'xMidYMin', 'xMaxYMin', 'xMinYMid', 'xMidYMid', 'xMaxYMid',
          'xMinYMax', 'xMidYMax', 'xMaxYMax']
COQ_ALIGN = {'none': 'ANone', 'xMinYMin': 'XMinYMin', 'xMidYMin': 'XMidYMin', 'xMaxYMin': 'XMaxYMin',
             'xMinYMid': 'XMinYMid', 'xMidYMid': 'XMidYMid', 'xMaxYMid': 'XMaxYMid',
             'xMinYMax': 'XMinYMax', 'xMidYMax': 'XMidYMax', 'xMaxYMax': 'XMaxYMax'}
KINDS = ['root', 'nested', 'symbol', 'image', 'pattern', 'pattern-obb', 'pattern-href', 'marker', 'use-svg', 'image-dpi']
NS = 'xmlns="http://www.w3.org/2000/svg" xmlns:xlink="http://www.w3.org/1999/xlink"'
PROBE = '<rect fill="#010203" x="1" y="2" width="3" height="4"/>'


def dy(rng, lo, hi, den=8):
    """random dyadic rational in [lo, hi] as Fraction"""
    n = rng.below(int((hi - lo) * den) + 1)
    return Fraction(int(lo * den) + n, den)


def fs(fr):
    return repr(float(fr))


PCT_KINDS = ('nested', 'symbol', 'use-svg')


def gen_case(rng, kind, align, slice_, mode='rand'):
    # aspect ratios from 1:50 to 50:1, negative origins
    # mode 'same': the viewBox size equals the viewport size (scale exactly 1, only the origin moves);
    # mode 'pct': the viewport size is written as a percentage of the 600x600 root viewport
    vw = dy(rng, 1, 400)
    vh = vw * Fraction(rng.choice([1, 2, 3, 7, 20, 50]), rng.choice([1, 2, 3, 7, 20, 50]))
    vh = max(Fraction(1, 8), Fraction(int(vh * 8), 8))
    vx = dy(rng, -200, 200)
    vy = dy(rng, -200, 200)
    W = dy(rng, 1, 500)
    H = max(Fraction(1, 8), Fraction(int(W * Fraction(rng.choice([1, 2, 5, 9, 30]), rng.choice([1, 2, 5, 9, 30])) * 8), 8))
    X = dy(rng, -50, 50)
    Y = dy(rng, -50, 50)
    A = dy(rng, 1, 300)
    B = dy(rng, 1, 300)
    pct = None
    if mode == 'same':
        if rng.below(4) == 0:
            vh = vw
        W, H = vw, vh
        A, B = vw, vh
        if vx == 0 and vy == 0:
            vx = Fraction(-7, 2)
    elif mode == 'pct' and kind in PCT_KINDS:
        pw = dy(rng, 1, 80)
        ph = rng.choice([pw, dy(rng, 1, 80), Fraction(100), Fraction(50)])
        pct = (pw, ph)
        W, H = pw * 6, ph * 6
    return dict(kind=kind, align=align, slice=slice_, vb=[vx, vy, vw, vh], W=W, H=H, X=X, Y=Y, mode=mode, pct=pct,
                none_suffix=rng.choice(['', ' meet']),
                pcu=rng.choice(['', ' patternContentUnits="userSpaceOnUse"', ' patternContentUnits="objectBoundingBox"']),
                href_split=rng.choice(['tot', 'oto', 'tto', 'ott', 'oot', 'too']),
                over=rng.choice(['w', 'h', 'wh', '']), A=A, B=B,
                dpi=rng.choice([72, 96, 192, 300]), unit=rng.choice(['in', 'pt', 'pc']))


def par(c):
    if c['align'] == 'none':
        return 'none' + (' slice' if c['slice'] else c.get('none_suffix', ''))
    return c['align'] + (' slice' if c['slice'] else ' meet')


def wh(c):
    """the viewport width / height as written in the document"""
    if c.get('pct') and c['kind'] in PCT_KINDS:
        return fs(c['pct'][0]) + '%', fs(c['pct'][1]) + '%'
    return fs(c['W']), fs(c['H'])


def make_doc(c):
    vb = ' '.join(fs(v) for v in c['vb'])
    k = c['kind']
    sW, sH = wh(c)
    if k == 'root':
        return ('<svg %s width="%s" height="%s" viewBox="%s" preserveAspectRatio="%s">%s</svg>'
                % (NS, fs(c['W']), fs(c['H']), vb, par(c), PROBE))
    if k == 'nested':
        return ('<svg %s width="600" height="600"><svg x="%s" y="%s" width="%s" height="%s" viewBox="%s" '
                'preserveAspectRatio="%s" overflow="visible">%s</svg></svg>'
                % (NS, fs(c['X']), fs(c['Y']), sW, sH, vb, par(c), PROBE))
    if k == 'symbol':
        return ('<svg %s width="600" height="600"><symbol id="s" viewBox="%s" preserveAspectRatio="%s" overflow="visible">%s</symbol>'
                '<use xlink:href="#s" x="%s" y="%s" width="%s" height="%s"/></svg>'
                % (NS, vb, par(c), PROBE, fs(c['X']), fs(c['Y']), sW, sH))
    if k == 'pattern':
        return ('<svg %s width="600" height="600"><pattern id="p" patternUnits="userSpaceOnUse" x="%s" y="%s" width="%s" height="%s" '
                'viewBox="%s" preserveAspectRatio="%s"%s>%s</pattern><rect width="500" height="500" fill="url(#p)"/></svg>'
                % (NS, fs(c['X']), fs(c['Y']), fs(c['W']), fs(c['H']), vb, par(c), c['pcu'], PROBE))
    if k == 'pattern-href':
        # viewBox, preserveAspectRatio and the tile rectangle spread over an xlink:href template chain
        # (each attribute is inherited from the nearest template that has it)
        which = c['href_split']
        tvb = ' viewBox="%s"' % vb
        tpar = ' preserveAspectRatio="%s"' % par(c)
        trect = ' patternUnits="userSpaceOnUse" x="%s" y="%s" width="%s" height="%s"' % (fs(c['X']), fs(c['Y']), fs(c['W']), fs(c['H']))
        own = (tvb if which[0] == 'o' else '') + (tpar if which[1] == 'o' else '') + (trect if which[2] == 'o' else '')
        tmpl = (tvb if which[0] == 't' else '') + (tpar if which[1] == 't' else '') + (trect if which[2] == 't' else '')
        return ('<svg %s width="600" height="600"><pattern id="t"%s>%s</pattern><pattern id="p" xlink:href="#t"%s/>'
                '<rect width="500" height="500" fill="url(#p)"/></svg>' % (NS, tmpl, PROBE, own))
    if k == 'pattern-obb':
        # patternUnits=objectBoundingBox on a 512x512 box at the origin: fractions are dyadic, so the resolved
        # tile rectangle is exactly (X, Y, W, H)
        return ('<svg %s width="600" height="600"><pattern id="p" x="%s" y="%s" width="%s" height="%s" '
                'viewBox="%s" preserveAspectRatio="%s"%s>%s</pattern><rect width="512" height="512" fill="url(#p)"/></svg>'
                % (NS, fs(c['X'] / 512), fs(c['Y'] / 512), fs(c['W'] / 512), fs(c['H'] / 512), vb, par(c), c['pcu'], PROBE))
    if k == 'marker':
        return ('<svg %s width="600" height="600"><marker id="m" markerUnits="userSpaceOnUse" markerWidth="%s" markerHeight="%s" '
                'refX="%s" refY="%s" viewBox="%s" preserveAspectRatio="%s" overflow="visible">%s</marker>'
                '<path d="M 48 64 L 200 64" stroke="black" marker-start="url(#m)"/></svg>'
                % (NS, fs(c['W']), fs(c['H']), fs(c['X']), fs(c['Y']), vb, par(c), PROBE))
    if k == 'use-svg':
        # a `use` overriding none / one / both of the referenced svg's width and height
        ov = ''
        if 'w' in c['over']:
            ov += ' width="%s"' % sW
        if 'h' in c['over']:
            ov += ' height="%s"' % sH
        return ('<svg %s width="600" height="600"><defs><svg id="t" width="%s" height="%s" viewBox="%s" preserveAspectRatio="%s" '
                'overflow="visible">%s</svg></defs><use xlink:href="#t" x="%s" y="%s"%s/></svg>'
                % (NS, fs(c['A']), fs(c['B']), vb, par(c), PROBE, fs(c['X']), fs(c['Y']), ov))
    if k == 'image-dpi':
        # nested SVG image whose intrinsic size is given in physical units: it must be resolved at the configured DPI
        ua, ub = unit_amount(c)
        inner = '<svg xmlns="http://www.w3.org/2000/svg" width="%s%s" height="%s%s"><rect width="5" height="5"/></svg>' % (
            fs(ua), c['unit'], fs(ub), c['unit'])
        href = 'data:image/svg+xml;base64,' + base64.b64encode(inner.encode()).decode()
        return ('<svg %s width="600" height="600"><image x="%s" y="%s" width="%s" height="%s" preserveAspectRatio="%s" '
                'xlink:href="%s"/></svg>'
                % (NS, fs(c['X']), fs(c['Y']), fs(c['W']), fs(c['H']), par(c), href))
    if k == 'image':
        inner = '<svg xmlns="http://www.w3.org/2000/svg" width="%s" height="%s"><rect width="5" height="5"/></svg>' % (
            fs(c['vb'][2]), fs(c['vb'][3]))
        href = 'data:image/svg+xml;base64,' + base64.b64encode(inner.encode()).decode()
        return ('<svg %s width="600" height="600"><image x="%s" y="%s" width="%s" height="%s" preserveAspectRatio="%s" '
                'xlink:href="%s"/></svg>'
                % (NS, fs(c['X']), fs(c['Y']), fs(c['W']), fs(c['H']), par(c), href))
    raise ValueError(k)


UNIT_PER_INCH = {'in': 1, 'pt': 72, 'pc': 6}


def unit_amount(c):
    """amounts (in c['unit']) chosen so that the pixel size at c['dpi'] is the dyadic c['A'] x c['B']"""
    k = Fraction(UNIT_PER_INCH[c['unit']], c['dpi'])
    return c['A'] * k, c['B'] * k


def walk(node, f, inherited=None):
    f(node)
    for ch in node.get('children', []):
        walk(ch, f)
    if node.get('t') == 'text' and node.get('flattened'):
        walk(node['flattened'], f)


def find_probe(tree, kind):
    """abs transform under which the probe content is placed, as 6 floats, or None."""
    found = []

    def visit(n):
        if n.get('t') == 'path' and n.get('fill') and n['fill']['paint'].get('rgb') == [1, 2, 3]:
            found.append(n['abs_ts'])
        if n.get('t') == 'image':
            found.append(('image', n))
    if kind in ('pattern', 'pattern-obb', 'pattern-href'):
        if not tree['patterns']:
            return None
        pr = tree['patterns'][0]['root']
        # accumulate the group transforms from the pattern root down to the probe path: the viewBox
        # transform must be applied exactly once on the way

        def mul(a, b):   # a then-applied-after b:  a * b, both [sx,ky,kx,sy,tx,ty]
            return [a[0] * b[0] + a[2] * b[1], a[1] * b[0] + a[3] * b[1],
                    a[0] * b[2] + a[2] * b[3], a[1] * b[2] + a[3] * b[3],
                    a[0] * b[4] + a[2] * b[5] + a[4], a[1] * b[4] + a[3] * b[5] + a[5]]
        res = []

        def rec(n, acc):
            if n.get('t') == 'g':
                acc = mul(acc, n['ts'])
                for ch in n.get('children', []):
                    rec(ch, acc)
            elif n.get('t') == 'path' and n.get('fill') and n['fill']['paint'].get('rgb') == [1, 2, 3]:
                res.append(acc)
        rec(pr, [1.0, 0.0, 0.0, 1.0, 0.0, 0.0])
        return res[0] if res else None
    walk(tree['root'], visit)
    if kind in ('image', 'image-dpi'):
        ims = [x for x in found if isinstance(x, tuple)]
        if not ims:
            return None
        return ims[0][1]['abs_ts']
    ps = [x for x in found if not isinstance(x, tuple)]
    return ps[0] if ps else None


def coq_vb(c):
    vx, vy, vw, vh = c['vb']
    return ("{| vb_rect := {| rx := %s; ry := %s; rw := %s; rh := %s |}; vb_aspect := {| ar_align := %s; ar_slice := %s |} |}"
            % (qstr(vx), qstr(vy), qstr(vw), qstr(vh), COQ_ALIGN[c['align']], 'true' if c['slice'] else 'false'))


def coq_expected(c):
    size = "{| sw := %s; sh := %s |}" % (qstr(c['W']), qstr(c['H']))
    k = c['kind']
    if k in ('root', 'pattern', 'pattern-obb', 'pattern-href'):
        return "(to_transform %s %s)" % (coq_vb(c), size)
    if k == 'marker':
        # markers are anchored at (refX, refY): only the scale of the viewBox mapping is used
        return ("(let t := to_transform %s %s in from_row (t_sx t) 0 0 (t_sy t) ((48#1) - %s * t_sx t) ((64#1) - %s * t_sy t))"
                % (coq_vb(c), size, qstr(c['X']), qstr(c['Y'])))
    if k in ('nested', 'symbol'):
        return "(ts_concat (from_translate %s %s) (to_transform %s %s))" % (qstr(c['X']), qstr(c['Y']), coq_vb(c), size)
    if k == 'use-svg':
        ew = c['W'] if 'w' in c['over'] else c['A']
        eh = c['H'] if 'h' in c['over'] else c['B']
        return ("(ts_concat (from_translate %s %s) (to_transform %s {| sw := %s; sh := %s |}))"
                % (qstr(c['X']), qstr(c['Y']), coq_vb(c), qstr(ew), qstr(eh)))
    if k == 'image-dpi':
        return ("(image_ts {| sw := %s; sh := %s |} {| rx := %s; ry := %s; rw := %s; rh := %s |} {| ar_align := %s; ar_slice := %s |})"
                % (qstr(c['A']), qstr(c['B']), qstr(c['X']), qstr(c['Y']), qstr(c['W']), qstr(c['H']),
                   COQ_ALIGN[c['align']], 'true' if c['slice'] else 'false'))
    if k == 'image':
        return ("(image_ts {| sw := %s; sh := %s |} {| rx := %s; ry := %s; rw := %s; rh := %s |} {| ar_align := %s; ar_slice := %s |})"
                % (qstr(c['vb'][2]), qstr(c['vb'][3]), qstr(c['X']), qstr(c['Y']), qstr(c['W']), qstr(c['H']),
                   COQ_ALIGN[c['align']], 'true' if c['slice'] else 'false'))


def coq_ts(t):
    return "(from_row %s)" % ' '.join(qstr(v) for v in t)


def spec_check(c, t, tol=2e-4):
    """SVG preserveAspectRatio rules evaluated on the implementation's transform (independent of the model).
    Returns list of violated clause names."""
    sx, ky, kx, sy, tx, ty = [float(v) for v in t]
    k = c['kind']
    vx, vy, vw, vh = [float(v) for v in c['vb']]
    W, H = float(c['W']), float(c['H'])
    ox, oy = (0.0, 0.0) if k in ('root', 'pattern', 'pattern-obb', 'pattern-href') else (float(c['X']), float(c['Y']))
    if k == 'marker':
        # anchored at the reference point: check the scale rule only (uniform; min for meet, max for slice)
        bad = []
        ex, ey = W / vw, H / vh
        if c['align'] == 'none':
            exp = (ex, ey)
        else:
            e = max(ex, ey) if c['slice'] else min(ex, ey)
            exp = (e, e)
        if abs(sx - exp[0]) > tol * max(1, exp[0]) or abs(sy - exp[1]) > tol * max(1, exp[1]) or abs(kx) > tol or abs(ky) > tol:
            bad.append('marker_scale')
        return bad
    if k == 'use-svg':
        W = float(c['W'] if 'w' in c['over'] else c['A'])
        H = float(c['H'] if 'h' in c['over'] else c['B'])
    if k == 'image-dpi':
        vx = vy = 0.0
        vw, vh = float(c['A']), float(c['B'])
    if k == 'image':
        vx = vy = 0.0   # the picture's own box is (0,0,aw,ah)
    bad = []
    scale = max(1.0, abs(W), abs(H), abs(sx * vw), abs(sy * vh))
    eps = tol * scale

    def eq(a, b):
        return abs(a - b) <= eps
    if abs(kx) > tol or abs(ky) > tol:
        bad.append('no_skew')
    if not (sx > 0 and sy > 0):
        bad.append('scale_positive')
    lx = sx * vx + tx - ox
    hx = sx * (vx + vw) + tx - ox
    ly = sy * vy + ty - oy
    hy = sy * (vy + vh) + ty - oy
    a = c['align']
    if a == 'none':
        if not (eq(lx, 0) and eq(hx, W) and eq(ly, 0) and eq(hy, H)):
            bad.append('none_maps_exactly')
        return bad
    if abs(sx - sy) > tol * max(1.0, abs(sx)):
        bad.append('uniform')
    if c['slice']:
        if not (lx <= eps and hx >= W - eps and ly <= eps and hy >= H - eps):
            bad.append('slice_covers')
    else:
        if not (lx >= -eps and hx <= W + eps and ly >= -eps and hy <= H + eps):
            bad.append('meet_inside')
    if not (eq(hx - lx, W) or eq(hy - ly, H)):
        bad.append('touches')
    ax = a[1:4]
    ay = a[5:8]
    okx = {'Min': eq(lx, 0), 'Mid': eq(lx + hx, W), 'Max': eq(hx, W)}[ax]
    oky = {'Min': eq(ly, 0), 'Mid': eq(ly + hy, H), 'Max': eq(hy, H)}[ay]
    if not okx:
        bad.append('align_x')
    if not oky:
        bad.append('align_y')
    return bad


# ------------------------------------------------------------------------------------------------
# size rules (independent oracle, SVG 1.1 sect. 5.1.2 / usvg documented behaviour)
# ------------------------------------------------------------------------------------------------
UNITS = {'': None, 'px': None, 'in': 1.0, 'cm': 1 / 2.54, 'mm': 1 / 25.4, 'pt': 1 / 72.0, 'pc': 1 / 6.0}


def gen_size_case(rng):
    def length():
        r = rng.below(10)
        if r == 0:
            return None
        if r <= 2:
            return (rng.choice([50, 100, 150, 25, 200]), '%')
        u = rng.choice(list(UNITS.keys()))
        v = rng.choice([1, 2, 10, 37.5, 120, 300, 0.5])
        if rng.below(12) == 0:
            v = rng.choice([0, -5])
        return (v, u)
    vb = None
    if rng.below(2):
        vb = [rng.choice([0, -10, 5]), rng.choice([0, 20, -3]), rng.choice([10, 100, 64, 250]), rng.choice([10, 80, 300])]
    return dict(w=length(), h=length(), vb=vb, dpi=rng.choice([72, 96, 300, 10, 4000]),
                dw=rng.choice([100, 640, 33]), dh=rng.choice([100, 480, 77]), content=rng.below(3) != 0)


def size_doc(c):
    a = ''
    if c['w'] is not None:
        a += ' width="%s%s"' % (repr(float(c['w'][0])), c['w'][1])
    if c['h'] is not None:
        a += ' height="%s%s"' % (repr(float(c['h'][0])), c['h'][1])
    if c['vb'] is not None:
        a += ' viewBox="%s"' % ' '.join(str(v) for v in c['vb'])
    # content with a known bounding box (10,20)-(70,50) for the no-viewBox percent fallback
    body = '<rect x="10" y="20" width="60" height="30"/>' if c.get('content', True) else '<g/>'
    return '<svg %s%s>%s</svg>' % (NS, a, body)


def size_oracle(c):
    """-> (w, h) or 'InvalidSize'"""
    def one(l, axis):
        if l is None:
            l = (100, '%')
        v, u = l
        if u == '%':
            if c['vb'] is not None:
                return c['vb'][2 + axis] * v / 100.0, False
            return (c['dw'], c['dh'])[axis] * v / 100.0, True
        f = UNITS[u]
        return (v if f is None else v * f * c['dpi']), False
    w, rw = one(c['w'], 0)
    h, rh = one(c['h'], 1)
    if not (w > 0 and h > 0):
        return 'InvalidSize'
    if (rw or rh) and c['vb'] is None and c.get('content', True):
        # percentages of the default size are only a fallback: the size becomes the content's bbox extent
        return (70.0, 50.0)
    return (w, h)



# ---------------------------------------------------------------------------------------------------------------
# extension round 4: nested <svg> / <symbol> viewport - clip rectangle and content transform against the
# SOURCE-DERIVED Gen/LeafViewport.v (use_node.rs: use_node_size, viewbox_transform, get_clip_rect)
# ---------------------------------------------------------------------------------------------------------------
VP_UNITS = ['', 'px', '%', '%', 'in', 'pt', 'mm', 'em', 'pc', 'cm', 'ex']
VP_COQ_UNIT = {'': 'UNone', 'px': 'UPx', 'in': 'UIn', 'cm': 'UCm', 'mm': 'UMm', 'pt': 'UPt', 'pc': 'UPc', '%': 'UPercent',
               'em': 'UEm', 'ex': 'UEx'}
VP_PX = {'': 1, 'px': 1, 'in': 96, 'pt': Fraction(96, 72), 'mm': Fraction(960, 254), 'cm': Fraction(9600, 254), 'pc': 16,
         'em': 12, 'ex': 6}


def vp_len(rng, lo_px, hi_px, axis):
    """a length whose resolved value lies in [lo_px, hi_px] user units on a 600x400 viewport: (number, unit)"""
    u = rng.choice(VP_UNITS)
    px = dy(rng, lo_px, hi_px)
    if u == '%':
        per = Fraction(600 if axis == 'x' else 400, 100)
    else:
        per = Fraction(VP_PX[u])
    n = Fraction(int(px / per * 8), 8)
    if n == 0 and lo_px > 0:
        n = Fraction(1, 8)
    return (n, u)


def vp_attr(name, l):
    return '' if l is None else ' %s="%s%s"' % (name, fs(l[0]), l[1])


def vp_coq_len(l):
    return 'None' if l is None else "(Some (mk_len %s %s))" % (qstr(l[0]), VP_COQ_UNIT[l[1]])


def gen_vp_case(rng, kind, i):
    opt = lambda l, p: l if rng.below(100) < p else None
    c = dict(kind=kind,
             x=opt(vp_len(rng, -60, 60, 'x'), 70), y=opt(vp_len(rng, -60, 60, 'y'), 70),
             w=opt(vp_len(rng, 8, 420, 'x'), 75), h=opt(vp_len(rng, 8, 300, 'y'), 75),
             overflow=rng.choice([None, None, 'hidden', 'scroll', 'visible', 'auto']),
             align=rng.choice(ALIGNS), slice=rng.below(2) == 1, has_par=rng.below(4) != 0,
             vb=None if rng.below(7) == 0 else [dy(rng, -40, 40), dy(rng, -40, 40), dy(rng, 4, 200), dy(rng, 4, 200)],
             ux=opt(vp_len(rng, -60, 60, 'x'), 60), uy=opt(vp_len(rng, -60, 60, 'y'), 60),
             uw=opt(vp_len(rng, 8, 420, 'x'), 50), uh=opt(vp_len(rng, 8, 300, 'y'), 50))
    # directed: the first cases of each kind walk through the width/height presence x overflow grid
    grid = [(pw, ph, ov) for ov in (None, 'hidden', 'visible', 'auto') for pw in (True, False) for ph in (True, False)]
    if i < len(grid):
        pw, ph, ov = grid[i]
        c['w'] = vp_len(rng, 8, 420, 'x') if pw else None
        c['h'] = vp_len(rng, 8, 300, 'y') if ph else None
        c['overflow'] = ov
    return c


def vp_doc(c):
    par_s = ' preserveAspectRatio="%s"' % par(dict(align=c['align'], slice=c['slice'])) if c['has_par'] else ''
    vb_s = ' viewBox="%s"' % ' '.join(fs(v) for v in c['vb']) if c['vb'] else ''
    ov_s = ' overflow="%s"' % c['overflow'] if c['overflow'] else ''
    rect = vp_attr('x', c['x']) + vp_attr('y', c['y']) + vp_attr('width', c['w']) + vp_attr('height', c['h'])
    head = '<svg %s width="600" height="400" viewBox="0 0 600 400">' % NS
    if c['kind'] == 'nested':
        return head + '<svg%s%s%s%s>%s</svg></svg>' % (rect, vb_s, par_s, ov_s, PROBE)
    if c['kind'] == 'symbol':
        return head + '<symbol id="s"%s%s%s>%s</symbol><use xlink:href="#s"%s/></svg>' % (vb_s, par_s, ov_s, PROBE, rect)
    urect = vp_attr('x', c['ux']) + vp_attr('y', c['uy']) + vp_attr('width', c['uw']) + vp_attr('height', c['uh'])
    return head + '<defs><svg id="t"%s%s%s%s>%s</svg></defs><use xlink:href="#t"%s/></svg>' % (rect, vb_s, par_s, ov_s, PROBE, urect)


def vp_coq_case(c, obs_clip, obs_ts):
    asp = ("(Some {| ar_align := %s; ar_slice := %s |})" % (COQ_ALIGN[c['align']], 'true' if c['slice'] else 'false')
           if c['has_par'] else 'None')
    vb = ("(Some {| rx := %s; ry := %s; rw := %s; rh := %s |})" % tuple(qstr(v) for v in c['vb'])) if c['vb'] else 'None'
    ov = '(Some "%s"%%string)' % c['overflow'] if c['overflow'] else 'None'

    def node(is_svg, x, y, w, h, ov, vb, asp):
        return ("{| vn_is_svg := %s; vn_x := %s; vn_y := %s; vn_width := %s; vn_height := %s; vn_overflow := %s; vn_viewbox := %s; "
                "vn_aspect := %s |}" % (is_svg, vp_coq_len(x), vp_coq_len(y), vp_coq_len(w), vp_coq_len(h), ov, vb, asp))
    if c['kind'] == 'nested':
        n = l = node('true', c['x'], c['y'], c['w'], c['h'], ov, vb, asp)
        use = 'None'
    elif c['kind'] == 'symbol':
        n = node('false', c['x'], c['y'], c['w'], c['h'], 'None', 'None', 'None')
        l = node('false', None, None, None, None, ov, vb, asp)
        use = 'None'
    else:
        n = l = node('true', c['x'], c['y'], c['w'], c['h'], ov, vb, asp)
        use = "(Some %s)" % node('false', c['ux'], c['uy'], c['uw'], c['uh'], 'None', 'None', 'None')
    oc = 'None' if obs_clip is None else "(Some {| rx := %s; ry := %s; rw := %s; rh := %s |})" % tuple(qstr(v) for v in obs_clip)
    return "(%s, %s, %s, %s, %s)" % (n, l, use, oc, coq_ts(obs_ts))


VP_COQ_PRELUDE = """From Coq Require Import String.
Local Open Scope Q_scope.
Definition st0 : vstate := {| st_view_box := {| rx := 0; ry := 0; rw := 600; rh := 400 |}; st_use_size := (None, None); st_dpi := 96; st_fs := 12 |}.
Definition pct100 : SvgSize.length := mk_len 100 UPercent.
(* `use` -> svg (use_node.rs convert): use_size = the use's own width / height where present, content pre-translated by the use's x / y *)
Definition st_of (u : option vnode) : vstate :=
  match u with
  | None => st0
  | Some u => {| st_view_box := st_view_box st0;
                 st_use_size := (if vn_has_attr u A_Width then Some (vn_user_length u A_Width st0 pct100) else None,
                                 if vn_has_attr u A_Height then Some (vn_user_length u A_Height st0 pct100) else None);
                 st_dpi := 96; st_fs := 12 |}
  end.
Definition pre_of (u : option vnode) : ts :=
  match u with None => ts_identity | Some u => from_translate (vn_user_length u A_X st0 len_zero) (vn_user_length u A_Y st0 len_zero) end.
Definition rect_close (a b : qrect) : bool :=
  Qclose (1 # 5000) (rx a) (rx b) && Qclose (1 # 5000) (ry a) (ry b) && Qclose (1 # 5000) (rw a) (rw b) && Qclose (1 # 5000) (rh a) (rh b).
"""
VP_COQ_CHK_MODEL = """Definition chk (p : vnode * vnode * option vnode * option qrect * ts) : bool :=
  let '(n, l, u, oc, ots) := p in
  let st := st_of u in
  opt_eqb rect_close (get_clip_rect n l st) oc &&
  ts_close (1 # 5000) (ts_concat (pre_of u) (viewport_ts n st (match viewbox_transform n l st with Some t => t | None => ts_identity end))) ots.
"""
# the SVG rule itself (Model/ViewportPrims.v spec_*; does not use the source-derived functions) on the implementation's tree
VP_COQ_CHK_SPEC = """Definition chk (p : vnode * vnode * option vnode * option qrect * ts) : bool :=
  let '(n, l, u, oc, ots) := p in
  let st := st_of u in
  opt_eqb rect_close (spec_clip_rect n l st) oc &&
  ts_close (1 # 5000)
    (ts_concat (pre_of u) (ts_concat (from_translate (spec_vp_x n st) (spec_vp_y n st))
       (match vn_viewbox l with
        | Some r => if Qltb 0 (spec_vp_w n st) && Qltb 0 (spec_vp_h n st)
                    then to_transform {| vb_rect := r; vb_aspect := aspect_or_default l |} {| sw := spec_vp_w n st; sh := spec_vp_h n st |}
                    else ts_identity
        | None => ts_identity end))) ots.
"""


def vp_find(tree):
    """(clip rectangle of the first clipped group or None, abs transform of the probe or None)"""
    clip = []
    probe = []

    def visit(n):
        if n.get('t') == 'g' and n.get('clip') and not clip:
            ch = n['clip']['root'].get('children', [])
            if ch and ch[0].get('bbox'):
                clip.append(ch[0]['bbox'])
        if n.get('t') == 'path' and n.get('fill') and n['fill']['paint'].get('rgb') == [1, 2, 3]:
            probe.append(n['abs_ts'])
    walk(tree['root'], visit)
    return (clip[0] if clip else None), (probe[0] if probe else None)


def viewport_clip_corr(ctx, binp, rng, quick):
    per_kind = 40 if quick else 400
    cases = [gen_vp_case(rng, k, i) for k in ('nested', 'symbol', 'use-svg') for i in range(per_kind)]
    docs = [vp_doc(c) for c in cases]
    outs = ctx.rvh_batch(binp, 'dump', ["-\t" + d for d in docs])
    items, idx = [], []
    nclip = 0
    for i, (c, d, o) in enumerate(zip(cases, docs, outs)):
        try:
            tree = json.loads(o)
        except (TypeError, ValueError):
            tree = {'error': 'unparsable harness output'}
        if 'root' not in tree:
            ctx.violation("viewport document failed to parse or crashed: %s" % str(tree)[:200], dict(doc=d, result=tree))
            continue
        clip, pts = vp_find(tree)
        if pts is None:
            ctx.violation("probe element missing from the tree (nested viewport)", dict(doc=d, case=str(c)))
            continue
        nclip += clip is not None
        ctx.note_case("vpclip/" + d, nontrivial=clip is not None)
        items.append(vp_coq_case(c, clip, pts))
        idx.append((i, clip, pts))
    ctx.cov['viewport_clip_cases'] = len(items)
    ctx.cov['viewport_clip_with_clip'] = nclip
    if not items:
        return
    ctx.add_sample(dict(op='viewport-clip', doc=docs[idx[0][0]]))
    cases_s = ("Definition cases : list (vnode * vnode * option vnode * option qrect * ts) := [\n%s\n].\n"
               "Eval vm_compute in (bad_indices chk cases).\n" % ";\n".join(items))
    # (1) the SVG viewport rule (hand-written spec vocabulary) against the implementation: gives the failing document
    rc, out = ctx.coq_eval('s_viewport_clip', VP_COQ_PRELUDE + VP_COQ_CHK_SPEC + cases_s,
                           ['Model.Base', 'Model.GeomPrims', 'Model.Corr', 'Gen.Units', 'Model.SvgSize', 'Gen.PctAxis',
                            'Model.ViewportPrims', 'Gen.LeafViewBox'])
    sbad = ctx.parse_N_list(out) if rc == 0 else None
    if sbad is None:
        ctx.log("viewport-clip spec evaluation failed:\n" + out[-1500:])
    for b in (sbad or [])[:3]:
        i, clip, pts = idx[b]
        ctx.violation("nested viewport of <%s> does not follow the SVG viewport rule (clip rectangle = viewport x/y/width/height with "
                      "percentages of the parent viewport, `use` overrides, overflow; viewBox fitted into that rectangle)" % cases[i]['kind'],
                      dict(doc=docs[i], impl_clip_rect=clip, impl_probe_transform=pts, case=str(cases[i]),
                           replay="rvh dump with this doc; first clipped group's clip path rectangle and the probe's abs transform"))
    ctx.cov['viewport_spec_cases'] = len(items) if sbad is not None else 0
    # (2) the source-derived functions against the implementation
    rc, out = ctx.coq_eval('k_viewport_clip', VP_COQ_PRELUDE + VP_COQ_CHK_MODEL + cases_s,
                           ['Model.Base', 'Model.GeomPrims', 'Model.Corr', 'Gen.Units', 'Model.SvgSize',
                            'Gen.PctAxis', 'Model.ViewportPrims', 'Gen.LeafViewBox', 'Gen.LeafViewport'])
    badl = ctx.parse_N_list(out) if rc == 0 else None
    if badl is None:
        ctx.log("viewport-clip model evaluation failed:\n" + out[-1500:])
        if not ctx.cov.get('viewport_tie_broken') and not sbad:
            ctx.violation("viewport-clip: the source-derived model (Gen/LeafViewport.v) could not be evaluated",
                          dict(log_tail=out[-1500:]), found_input=False)
        return
    for b in badl[:3]:
        i, clip, pts = idx[b]
        ctx.violation("source-derived viewport model (use_node.rs get_clip_rect / viewbox_transform) and implementation disagree "
                      "on the clip rectangle or content transform of <%s>" % cases[i]['kind'],
                      dict(doc=docs[i], impl_clip_rect=clip, impl_probe_transform=pts, case=str(cases[i]),
                           replay="rvh dump with this doc; first clipped group's clip path rectangle and the probe's abs transform"))



# ---------------------------------------------------------------------------------------------------------------
# round 4, 2nd pass: <image> bounding box and slice clip against Gen/LeafImage.v (image.rs convert_inner) and the spec
# ---------------------------------------------------------------------------------------------------------------
IMG_COQ_PRELUDE = """Local Open Scope Q_scope.
Definition rect_close (a b : qrect) : bool :=
  Qclose (1 # 5000) (rx a) (rx b) && Qclose (1 # 5000) (ry a) (ry b) && Qclose (1 # 5000) (rw a) (rw b) && Qclose (1 # 5000) (rh a) (rh b).
"""
IMG_COQ_CHK_MODEL = """Definition chk (p : qsize * qrect * aspect * qrect * option qrect) : bool :=
  let '(actual, rect, a, ob, oc) := p in
  opt_eqb rect_close (image_bbox_gen actual rect a ts_identity) (Some ob) && opt_eqb rect_close (image_clip_gen actual rect a) oc.
"""
# the rule itself: the box of the picture is the image of the (0, 0, natural size) viewBox under the preserveAspectRatio mapping
# onto the element rectangle (so it starts at the ALIGNED position); slice clips by the element rectangle
IMG_COQ_CHK_SPEC = """Definition chk (p : qsize * qrect * aspect * qrect * option qrect) : bool :=
  let '(actual, rect, a, ob, oc) := p in
  let r := {| rx := 0; ry := 0; rw := sw actual; rh := sh actual |} in
  let T := to_transform {| vb_rect := r; vb_aspect := a |} (r_size rect) in
  Qclose (1 # 5000) (rx ob) (rx rect + img_lo_x T r) && Qclose (1 # 5000) (rx ob + rw ob) (rx rect + img_hi_x T r) &&
  Qclose (1 # 5000) (ry ob) (ry rect + img_lo_y T r) && Qclose (1 # 5000) (ry ob + rh ob) (ry rect + img_hi_y T r) &&
  opt_eqb rect_close (if ar_slice a then Some rect else None) oc.
"""


def image_box_corr(ctx, cases, docs, outs):
    items, idx = [], []
    for i, (c, o) in enumerate(zip(cases, outs)):
        if c['kind'] not in ('image', 'image-dpi'):
            continue
        try:
            tree = json.loads(o)
        except (TypeError, ValueError):
            continue
        if 'root' not in tree:
            continue
        ims, clips = [], []

        def visit(n):
            if n.get('t') == 'image':
                ims.append(n)
            if n.get('t') == 'g' and n.get('clip'):
                ch = n['clip']['root'].get('children', [])
                if ch and ch[0].get('bbox'):
                    clips.append(ch[0]['bbox'])
        walk(tree['root'], visit)
        if not ims or not ims[0].get('abs_bbox'):
            continue
        aw, ah = (c['vb'][2], c['vb'][3]) if c['kind'] == 'image' else (c['A'], c['B'])
        ob = ims[0]['abs_bbox']
        oc = clips[0] if clips else None
        items.append("({| sw := %s; sh := %s |}, {| rx := %s; ry := %s; rw := %s; rh := %s |}, {| ar_align := %s; ar_slice := %s |}, "
                     "{| rx := %s; ry := %s; rw := %s; rh := %s |}, %s)"
                     % (qstr(aw), qstr(ah), qstr(c['X']), qstr(c['Y']), qstr(c['W']), qstr(c['H']), COQ_ALIGN[c['align']],
                        'true' if c['slice'] else 'false', qstr(ob[0]), qstr(ob[1]), qstr(ob[2]), qstr(ob[3]),
                        'None' if oc is None else "(Some {| rx := %s; ry := %s; rw := %s; rh := %s |})" % tuple(qstr(v) for v in oc)))
        idx.append((i, ob, oc))
        ctx.note_case("imgbox/" + docs[i], nontrivial=oc is not None)
    ctx.cov['image_box_cases'] = len(items)
    if not items:
        return
    cases_s = ("Definition cases : list (qsize * qrect * aspect * qrect * option qrect) := [\n%s\n].\n"
               "Eval vm_compute in (bad_indices chk cases).\n" % ";\n".join(items))
    base = ['Model.Base', 'Model.GeomPrims', 'Model.ViewBoxSpec', 'Model.Corr', 'Gen.LeafViewBox']
    rc, out = ctx.coq_eval('s_image_box', IMG_COQ_PRELUDE + IMG_COQ_CHK_SPEC + cases_s, base)
    sbad = ctx.parse_N_list(out) if rc == 0 else None
    if sbad is None:
        ctx.log("image-box spec evaluation failed:\n" + out[-1500:])
    for b in (sbad or [])[:3]:
        i, ob, oc = idx[b]
        ctx.violation("<image> box / slice clip does not follow preserveAspectRatio=%s: the picture's bounding box must be the natural-size "
                      "viewBox mapped onto x/y/width/height (aligned position), slice clips by that rectangle" % par(cases[i]),
                      dict(doc=docs[i], impl_image_abs_bbox=ob, impl_clip_rect=oc, case=str(cases[i]),
                           replay="rvh dump with this doc; image node abs_bbox and the clip path rectangle of its group"))
    rc, out = ctx.coq_eval('k_image_box', IMG_COQ_PRELUDE + IMG_COQ_CHK_MODEL + cases_s,
                           base + ['Gen.Units', 'Model.SvgSize', 'Gen.PctAxis', 'Model.ViewportPrims', 'Gen.LeafImage'])
    badl = ctx.parse_N_list(out) if rc == 0 else None
    if badl is None:
        ctx.log("image-box model evaluation failed:\n" + out[-1500:])
        if not ctx.cov.get('image_tie_broken') and not sbad:
            ctx.violation("image-box: the source-derived model (Gen/LeafImage.v) could not be evaluated", dict(log_tail=out[-1500:]),
                          found_input=False)
        return
    for b in badl[:3]:
        i, ob, oc = idx[b]
        ctx.violation("source-derived image placement (image.rs convert_inner) and implementation disagree on the image box or slice clip (%s)"
                      % par(cases[i]), dict(doc=docs[i], impl_image_abs_bbox=ob, impl_clip_rect=oc, case=str(cases[i])))



# ---------------------------------------------------------------------------------------------------------------
# final pass: marker viewport - instance transform and clip rectangle against Gen/LeafMarker.v (marker.rs) and the rule
# ---------------------------------------------------------------------------------------------------------------
MK_COQ_PRELUDE = """From Coq Require Import String.
Local Open Scope Q_scope.
Definition st0 : vstate := {| st_view_box := {| rx := 0; ry := 0; rw := 600; rh := 600 |}; st_use_size := (None, None); st_dpi := 96; st_fs := 12 |}.
Definition rect_close (a b : qrect) : bool :=
  Qclose (1 # 5000) (rx a) (rx b) && Qclose (1 # 5000) (ry a) (ry b) && Qclose (1 # 5000) (rw a) (rw b) && Qclose (1 # 5000) (rh a) (rh b).
"""
MK_COQ_CHK_MODEL = """Definition chk (p : mnode * bool * Q * option viewbox * option string * ts * option qrect) : bool :=
  let '(n, user, sw_, vb, ov, ots, oc) := p in
  match marker_rect n st0, marker_stroke_scale user (Some sw_) with
  | Some r, Some k =>
      ts_close (1 # 5000) (marker_ts {| pt_x := 48; pt_y := 64 |} true ts_identity r k vb) ots &&
      opt_eqb rect_close (if marker_has_overflow ov then Some (marker_clip_rect r vb) else None) oc
  | _, _ => false
  end.
"""
# the rule, written without the generated leaves: translate(vertex) . scale(S) . translate(-ref); S from the viewBox mapping onto
# (markerWidth * k) x (markerHeight * k), k = stroke width unless markerUnits=userSpaceOnUse; clip unless overflow is visible / auto
MK_COQ_CHK_SPEC = """Definition dimq (l : option SvgSize.length) (dflt base : Q) : Q :=
  match l with Some x => spec_dim (Some x) (Some base) 0 96 12 | None => dflt end.
Definition chk (p : mnode * bool * Q * option viewbox * option string * ts * option qrect) : bool :=
  let '(n, user, sw_, vb, ov, ots, oc) := p in
  let k := if user then 1 else sw_ in
  let rx_ := dimq (mk_ref_x n) 0 600 in let ry_ := dimq (mk_ref_y n) 0 600 in
  let mw := dimq (mk_width n) 3 600 in let mh := dimq (mk_height n) 3 600 in
  let S := match vb with
           | Some v => let t := to_transform v {| sw := mw * k; sh := mh * k |} in (t_sx t, t_sy t)
           | None => (k, k) end in
  ts_close (1 # 5000) (ts_concat (from_translate 48 64) (ts_concat (from_scale (fst S) (snd S)) (from_translate (- rx_) (- ry_)))) ots &&
  opt_eqb rect_close
    (match ov with
     | Some s => if String.eqb s "visible" || String.eqb s "auto" then None
                 else Some (match vb with Some v => vb_rect v | None => {| rx := 0; ry := 0; rw := mw; rh := mh |} end)
     | None => Some (match vb with Some v => vb_rect v | None => {| rx := 0; ry := 0; rw := mw; rh := mh |} end)
     end) oc.
"""


def marker_viewport_corr(ctx, binp, rng, quick):
    n = 80 if quick else 800
    cases, docs = [], []
    for i in range(n):
        opt = lambda v, p: v if rng.below(100) < p else None
        c = dict(user=rng.below(2) == 0, units_attr=rng.below(4) != 0, sw=rng.choice([Fraction(1), Fraction(2), Fraction(3, 2), Fraction(4), Fraction(1, 2)]),
                 refx=opt((dy(rng, -20, 40), rng.choice(['', '', 'px', '%'])), 80), refy=opt((dy(rng, -20, 40), rng.choice(['', '', 'px'])), 80),
                 mw=opt((dy(rng, 2, 40), rng.choice(['', '', 'px', 'pt'])), 80), mh=opt((dy(rng, 2, 40), rng.choice(['', '', 'px'])), 80),
                 vb=None if rng.below(4) == 0 else [dy(rng, -10, 10), dy(rng, -10, 10), dy(rng, 2, 60), dy(rng, 2, 60)],
                 align=rng.choice(ALIGNS), slice=rng.below(2) == 1, has_par=rng.below(4) != 0,
                 overflow=rng.choice([None, None, 'hidden', 'scroll', 'visible', 'auto']))
        if c['refx'] and c['refx'][1] == '%':
            c['refx'] = (Fraction(int(c['refx'][0]) % 5, 1), '%')       # percent of the 600 px viewport: 0..24 user units
        if not c['units_attr']:
            c['user'] = False                                              # markerUnits absent = strokeWidth
        cases.append(c)
        units = ' markerUnits="%s"' % ('userSpaceOnUse' if c['user'] else 'strokeWidth') if c['units_attr'] else ''
        par_s = ' preserveAspectRatio="%s"' % par(dict(align=c['align'], slice=c['slice'])) if c['has_par'] else ''
        vb_s = ' viewBox="%s"' % ' '.join(fs(v) for v in c['vb']) if c['vb'] else ''
        ov_s = ' overflow="%s"' % c['overflow'] if c['overflow'] else ''
        docs.append('<svg %s width="600" height="600"><marker id="m"%s%s%s%s%s%s%s%s>%s</marker>'
                    '<path d="M 48 64 L 200 64" stroke="black" stroke-width="%s" marker-start="url(#m)"/></svg>'
                    % (NS, units, vp_attr('refX', c['refx']), vp_attr('refY', c['refy']), vp_attr('markerWidth', c['mw']),
                       vp_attr('markerHeight', c['mh']), vb_s, par_s, ov_s, PROBE, fs(c['sw'])))
    outs = ctx.rvh_batch(binp, 'dump', ["-\t" + d for d in docs])
    items, idx = [], []
    for i, (c, d, o) in enumerate(zip(cases, docs, outs)):
        try:
            tree = json.loads(o)
        except (TypeError, ValueError):
            tree = {'error': 'unparsable harness output'}
        if 'root' not in tree:
            ctx.violation("marker document failed to parse or crashed: %s" % str(tree)[:200], dict(doc=d, result=tree))
            continue
        found = []

        def visit(n):
            if n.get('t') == 'g':
                for ch in n.get('children', []):
                    if ch.get('t') == 'path' and ch.get('fill') and ch['fill']['paint'].get('rgb') == [1, 2, 3]:
                        cl = None
                        if n.get('clip'):
                            cc = n['clip']['root'].get('children', [])
                            cl = cc[0]['bbox'] if cc and cc[0].get('bbox') else None
                        found.append((n['abs_ts'], cl))
        walk(tree['root'], visit)
        if not found:
            ctx.violation("marker instance missing from the tree", dict(doc=d, case=str(c)))
            continue
        ots, oc = found[0]
        asp = ("{| ar_align := %s; ar_slice := %s |}" % (COQ_ALIGN[c['align']], 'true' if c['slice'] else 'false')
               if c['has_par'] else "{| ar_align := XMidYMid; ar_slice := false |}")
        vb = ("(Some {| vb_rect := {| rx := %s; ry := %s; rw := %s; rh := %s |}; vb_aspect := %s |})"
              % (tuple(qstr(v) for v in c['vb']) + (asp,))) if c['vb'] else 'None'
        node = "{| mk_ref_x := %s; mk_ref_y := %s; mk_width := %s; mk_height := %s |}" % tuple(vp_coq_len(c[k]) for k in ('refx', 'refy', 'mw', 'mh'))
        items.append("(%s, %s, %s, %s, %s, %s, %s)" % (node, 'true' if c['user'] else 'false', qstr(c['sw']), vb,
                                                       '(Some "%s"%%string)' % c['overflow'] if c['overflow'] else 'None', coq_ts(ots),
                                                       'None' if oc is None else "(Some {| rx := %s; ry := %s; rw := %s; rh := %s |})" % tuple(qstr(v) for v in oc)))
        idx.append((i, ots, oc))
        ctx.note_case("marker/" + d, nontrivial=oc is not None)
    ctx.cov['marker_viewport_cases'] = len(items)
    if not items:
        return
    ctx.add_sample(dict(op='marker-viewport', doc=docs[idx[0][0]]))
    cases_s = ("Definition cases : list (mnode * bool * Q * option viewbox * option string * ts * option qrect) := [\n%s\n].\n"
               "Eval vm_compute in (bad_indices chk cases).\n" % ";\n".join(items))
    base = ['Model.Base', 'Model.GeomPrims', 'Model.Corr', 'Gen.Units', 'Model.SvgSize', 'Gen.PctAxis', 'Model.ViewportPrims', 'Gen.LeafViewBox']
    rc, out = ctx.coq_eval('s_marker_viewport', MK_COQ_PRELUDE + MK_COQ_CHK_SPEC + cases_s, base)
    sbad = ctx.parse_N_list(out) if rc == 0 else None
    if sbad is None:
        ctx.log("marker-viewport spec evaluation failed:\n" + out[-1500:])
    for b in (sbad or [])[:3]:
        i, ots, oc = idx[b]
        ctx.violation("marker instance does not follow the marker viewport rule (translate(vertex) . scale(viewBox mapping onto markerWidth x "
                      "markerHeight x stroke width) . translate(-ref); clip unless overflow is visible/auto)",
                      dict(doc=docs[i], impl_instance_transform=ots, impl_clip_rect=oc, case=str(cases[i]),
                           replay="rvh dump with this doc; abs transform of the group holding the probe and its clip path rectangle"))
    rc, out = ctx.coq_eval('k_marker_viewport', MK_COQ_PRELUDE + MK_COQ_CHK_MODEL + cases_s, base + ['Gen.LeafMarker'])
    badl = ctx.parse_N_list(out) if rc == 0 else None
    if badl is None:
        ctx.log("marker-viewport model evaluation failed:\n" + out[-1500:])
        if not ctx.cov.get('marker_tie_broken') and not sbad:
            ctx.violation("marker-viewport: the source-derived model (Gen/LeafMarker.v) could not be evaluated", dict(log_tail=out[-1500:]),
                          found_input=False)
        return
    for b in badl[:3]:
        i, ots, oc = idx[b]
        ctx.violation("source-derived marker viewport (marker.rs) and implementation disagree on the instance transform or clip rectangle",
                      dict(doc=docs[i], impl_instance_transform=ots, impl_clip_rect=oc, case=str(cases[i])))


def run(ctx):
    rng = ctx.rng
    quick = ctx.tier == 'quick'
    ctx.cov['trusted_base'] = vlib.BASE_TRUSTED + [
        "svgtypes (viewBox / preserveAspectRatio / length grammars), roxmltree: unmodelled, exercised by correspondence only",
        "tiny_skia_path::Size::{scale_to,expand_to} hand-modelled in Model/GeomPrims.v (validated by the image cases)",
    ]
    ctx.assumptions = ["viewBox width/height and viewport sizes are positive (usvg rejects others before to_transform)",
                       "exact rational arithmetic; implementation compared within 2e-4 relative tolerance"]
    broken = ctx.translate()
    # the scale law also depends on the SHARED anchor `max_bbox` (Gen/Consts.v MAXBB_*, listed for C02/C13/C14/C19 by translate.py)
    # and on Gen/RenderLimit.v (tools/gen_renderlimit.py): a broken max_bbox tie is a broken tie for C17 too
    for b in getattr(ctx, 'status', {}).get('broken', []):
        if b.get('name') == 'max_bbox' and b not in broken:
            ctx.log("broken tie (shared anchor C17 depends on): %s" % b.get('err'))
            broken.append(b)
    res = ctx.coq_props()
    proof_ok = res['ok'] and not broken
    if proof_ok and not quick:
        if not ctx.coqchk():
            ctx.violation("coqchk rejects the compiled C17 development or reports an unexpected axiom",
                          dict(coqchk=ctx.cov.get('coqchk')), found_input=False)

    binp, blog = ctx.harness('release')
    if binp is None:
        ctx.violation("harness does not build against the current tree (correspondence cannot run)",
                      dict(build_log=blog[-2000:]), found_input=False)
        return

    # ------------------------------------------------------------------ K: viewbox correspondence + S: spec on impl
    reps = 2 if quick else 12
    cases = []
    for kind in KINDS:
        for al in ALIGNS:
            for sl in [False, True]:
                for _ in range(reps):
                    cases.append(gen_case(rng, kind, al, sl))
                cases.append(gen_case(rng, kind, al, sl, 'same'))
                if kind in PCT_KINDS:
                    cases.append(gen_case(rng, kind, al, sl, 'pct'))
    docs = [make_doc(c) for c in cases]
    outs = ctx.rvh_batch(binp, 'dump', [("dpi=%d" % c['dpi'] if c['kind'] == 'image-dpi' else "-") + "\t" + d for c, d in zip(cases, docs)])
    coq_items = []
    idx_map = []
    spec_fail = []
    hist = {}
    for i, (c, o) in enumerate(zip(cases, outs)):
        hist[c['kind']] = hist.get(c['kind'], 0) + 1
        try:
            tree = json.loads(o)
        except (TypeError, ValueError):
            tree = {'error': 'unparsable harness output'}
        if 'root' not in tree:
            ctx.violation("viewport document failed to parse or crashed: %s" % str(tree)[:200],
                          dict(case=str(c), doc=docs[i], result=tree))
            continue
        t = find_probe(tree, c['kind'])
        if t is None:
            ctx.violation("probe element missing from the tree", dict(case=str(c), doc=docs[i]))
            continue
        ctx.note_case("%s/%s/%s/%s" % (c['kind'], c['align'], c['slice'], docs[i]))
        bad = spec_check(c, t)
        if bad:
            spec_fail.append((c, docs[i], t, bad))
        coq_items.append("(%s, %s)" % (coq_expected(c), coq_ts(t)))
        idx_map.append(i)
    for c, d, t, bad in spec_fail[:3]:
        ctx.violation("viewBox mapping violates %s for preserveAspectRatio=%s on <%s>" % (','.join(bad), par(c), c['kind']),
                      dict(doc=d, impl_transform=t, clauses=bad, replay="rvh dump with this doc; probe abs transform"))
    ctx.cov['viewbox_cases'] = len(cases)
    ctx.cov['viewbox_kinds'] = hist
    if cases:
        ctx.add_sample(dict(op='viewbox', doc=docs[0]))
        ctx.add_sample(dict(op='viewbox', doc=docs[len(docs) // 2]))

    model_ok = True
    if coq_items:
        body = ("Local Open Scope Q_scope.\nDefinition cases : list (ts * ts) := [\n%s\n].\n"
                "Eval vm_compute in (bad_indices (fun p => ts_close (1 # 5000) (fst p) (snd p)) cases).\n"
                % ";\n".join(coq_items))
        rc, out = ctx.coq_eval('k_viewbox', body, ['Model.Base', 'Model.GeomPrims', 'Model.Corr', 'Model.ViewBoxChk', 'Gen.LeafViewBox'])
        badl = ctx.parse_N_list(out) if rc == 0 else None
        if badl is None:
            model_ok = False
            ctx.log("model evaluation failed:\n" + out[-1500:])
        else:
            ctx.cov['correspondence_cases'] = len(coq_items)
            for b in badl[:3]:
                i = idx_map[b]
                ctx.violation("source-derived model and implementation disagree on the viewBox transform (<%s>, %s)"
                              % (cases[i]['kind'], par(cases[i])),
                              dict(doc=docs[i], impl_transform=find_probe(json.loads(outs[i]), cases[i]['kind']),
                                   model_expr=coq_expected(cases[i])))

    # ------------------------------------------------------------------ K2: nested viewport clip + transform (round 4)
    ctx.cov['viewport_tie_broken'] = bool([b for b in broken if b['name'] in ('use_node.viewport', 'units.pct_axis')])
    viewport_clip_corr(ctx, binp, rng, quick)
    ctx.cov['image_tie_broken'] = bool([b for b in broken if b['name'] == 'image.placement'])
    image_box_corr(ctx, cases, docs, outs)
    ctx.cov['marker_tie_broken'] = bool([b for b in broken if b['name'] == 'marker.viewport'])
    marker_viewport_corr(ctx, binp, rng, quick)

    # ------------------------------------------------------------------ model-level search when a proof broke
    if not proof_ok:
        found = bool(ctx.violations)
        if not found and model_ok:
            items = []
            for c in cases:
                items.append("(%s, {| sw := %s; sh := %s |})" % (coq_vb(c), qstr(c['W']), qstr(c['H'])))
            body = ("Local Open Scope Q_scope.\nDefinition cases : list (viewbox * qsize) := [\n%s\n].\n"
                    "Eval vm_compute in (bad_indices (fun p => chk_viewbox (fst p) (snd p) && chk_scale_law (fst p) (snd p) (7#2)"
                    " && chk_image_fit (r_size (vb_rect (fst p))) (size_to_rect (snd p) (3#1) (-(5#1))) (vb_aspect (fst p))) cases).\n"
                    % ";\n".join(items))
            rc, out = ctx.coq_eval('search_viewbox', body, ['Model.Base', 'Model.GeomPrims', 'Model.ViewBoxSpec', 'Model.Corr', 'Model.ViewBoxChk', 'Gen.LeafViewBox'])
            badl = ctx.parse_N_list(out) if rc == 0 else None
            if badl:
                i = badl[0]
                ctx.violation("model counterexample to the C17 mapping theorems (source-derived to_transform/fit_view_box)",
                              dict(doc=make_doc(cases[i]), case=str(cases[i]), failed_files=res['failed'], broken_ties=broken))
                found = True
        if not found:
            ctx.violation("C17 proof obligations no longer check: %s %s" % (res['failed'] + res['audit'], [b['name'] for b in broken]),
                          dict(failed_files=res['failed'], audit=res['audit'], broken_ties=broken,
                               log_tail=res['log'][-3000:]), found_input=False)

    # ------------------------------------------------------------------ S2: size rules
    nsz = 150 if quick else 1500
    scases = [gen_size_case(rng) for _ in range(nsz)]
    # directed grid: every combination of {missing, percent, absolute} x {missing, percent, absolute} x
    # {viewBox, none} x {content, empty} x default sizes with width != height != 100
    for wv in (None, (50, '%'), (100, '%'), (30, 'px')):
        for hv in (None, (50, '%'), (25, '%'), (2, 'in')):
            for vbv in (None, [0, 0, 64, 80]):
                for content in (True, False):
                    for (dwv, dhv) in ((300, 150), (100, 100), (33, 480)):
                        scases.append(dict(w=wv, h=hv, vb=vbv, dpi=rng.choice([72, 96, 300]), dw=dwv, dh=dhv, content=content))
    sdocs = [size_doc(c) for c in scases]
    souts = ctx.rvh_batch(binp, 'dump', ["dpi=%s;dw=%s;dh=%s\t%s" % (c['dpi'], c['dw'], c['dh'], d) for c, d in zip(scases, sdocs)])
    kinds = {}
    for c, d, o in zip(scases, sdocs, souts):
        exp = size_oracle(c)
        try:
            tree = json.loads(o)
        except (TypeError, ValueError):
            tree = {'error': 'unparsable'}
        if 'crash' in tree or 'panic' in tree:
            ctx.violation("size resolution crashed: %s" % str(tree)[:200], dict(doc=d, options=str(c)))
            continue
        got = 'InvalidSize' if 'error' in tree else tuple(tree['size'])
        key = ('err' if exp == 'InvalidSize' else 'ok') + ('/vb' if c['vb'] else '/novb')
        kinds[key] = kinds.get(key, 0) + 1
        ctx.note_case("size/" + d + str(c['dpi']) + str(c['dw']) + str(c['dh']))
        ok = True
        if exp == 'InvalidSize':
            ok = (got == 'InvalidSize') and 'invalid size' in tree.get('error', '').lower()
        elif got == 'InvalidSize':
            ok = False
        else:
            ok = all(abs(g - e) <= 1e-4 * max(1.0, abs(e)) for g, e in zip(got, exp))
        if not ok:
            ctx.violation("document size does not follow the SVG size rules: expected %s got %s" % (exp, got),
                          dict(doc=d, dpi=c['dpi'], default_size=[c['dw'], c['dh']], expected=str(exp), got=str(got)))
            if len(ctx.violations) > 6:
                break
    # the same cases through the Coq model of resolve_svg_size (comparison inside Coq)
    UNIT = {'': 'UNone', 'px': 'UPx', 'in': 'UIn', 'cm': 'UCm', 'mm': 'UMm', 'pt': 'UPt', 'pc': 'UPc', '%': 'UPercent'}

    def clen(l):
        if l is None:
            return 'None'
        return "(Some {| l_num := %s; l_unit := %s |})" % (qstr(float(l[0])), UNIT[l[1]])
    items = []
    imap = []
    for i, (c, o) in enumerate(zip(scases, souts)):
        try:
            tree = json.loads(o)
        except (TypeError, ValueError):
            continue
        if 'crash' in tree or 'panic' in tree:
            continue
        restore_case = c['vb'] is None and ((c['w'] is None or c['w'][1] == '%') or (c['h'] is None or c['h'][1] == '%'))
        if restore_case and c.get('content', True):
            continue   # size replaced by the content extent afterwards (checked by the oracle above)
        vb = 'None' if c['vb'] is None else "(Some {| rx := %s; ry := %s; rw := %s; rh := %s |})" % tuple(qstr(float(v)) for v in c['vb'])
        got = 'None' if 'error' in tree else "(Some {| sw := %s; sh := %s |})" % (qstr(tree['size'][0]), qstr(tree['size'][1]))
        items.append("(fst (resolve_svg_size %s %s %s %s 12 {| sw := %s; sh := %s |}), %s)"
                     % (clen(c['w']), clen(c['h']), vb, qstr(float(c['dpi'])), qstr(float(c['dw'])), qstr(float(c['dh'])), got))
        imap.append(i)
    if items:
        body = ("Local Open Scope Q_scope.\nDefinition cases : list (option qsize * option qsize) := [\n%s\n].\n"
                "Eval vm_compute in (bad_indices (fun p => opt_eqb (size_close (1 # 10000)) (fst p) (snd p)) cases).\n"
                % ";\n".join(items))
        rc, out = ctx.coq_eval('k_svgsize', body, ['Model.Base', 'Model.Corr', 'Gen.Units', 'Model.SvgSize'])
        badl = ctx.parse_N_list(out) if rc == 0 else None
        if badl is None:
            ctx.log("svg-size model evaluation failed:\n" + out[-1500:])
            if proof_ok:
                ctx.violation("svg-size correspondence could not be evaluated", dict(log=out[-1500:]), found_input=False)
        else:
            ctx.cov['size_correspondence_cases'] = len(items)
            for b in badl[:3]:
                i = imap[b]
                ctx.violation("model of resolve_svg_size and implementation disagree on the document size",
                              dict(doc=sdocs[i], options=str(scases[i]), impl=souts[i][:80]))
    ctx.cov['size_cases'] = len(scases)
    ctx.cov['size_kinds'] = kinds
    ctx.add_sample(dict(op='svg-size', doc=sdocs[0], dpi=scases[0]['dpi']))

    # ------------------------------------------------------------------ S3: root scale s == width/height * s (rendering)
    nrl = 40 if quick else 400
    items = []
    metas = []
    for _ in range(nrl):
        c = gen_case(rng, 'root', rng.choice(ALIGNS), bool(rng.below(2)))
        c['W'] = Fraction(rng.choice([20, 33, 64, 100]))
        c['H'] = Fraction(rng.choice([20, 50, 64, 90]))
        s = rng.choice([2, 3, 0.5, 1.5, 4])
        vb = c['vb']
        content = ('<rect x="%s" y="%s" width="%s" height="%s" fill="green" stroke="blue" stroke-width="%s"/>'
                   '<circle cx="%s" cy="%s" r="%s" fill="red" opacity="0.5"/>'
                   % (fs(vb[0] + vb[2] / 8), fs(vb[1] + vb[3] / 8), fs(vb[2] / 2), fs(vb[3] / 2), fs(vb[2] / 16),
                      fs(vb[0] + vb[2] / 2), fs(vb[1] + vb[3] / 2), fs(min(vb[2], vb[3]) / 3)))
        head = '<svg %s width="%%s" height="%%s" viewBox="%s" preserveAspectRatio="%s">%s</svg>' % (
            NS, ' '.join(fs(v) for v in vb), par(c), content)
        da = head % (fs(c['W']), fs(c['H']))
        db = head % (fs(c['W'] * Fraction(s)), fs(c['H'] * Fraction(s)))
        Wp = int(float(c['W']) * s + 0.999)
        Hp = int(float(c['H']) * s + 0.999)
        items.append("-\t%s\t%s,0,0,%s,0,0\t%s\t1,0,0,1,0,0\t%d\t%d\t8" % (da, s, s, db, Wp, Hp))
        metas.append((da, db, s))
    routs = ctx.rvh_batch(binp, 'render-pair', items)
    for (da, db, s), o in zip(metas, routs):
        try:
            r = json.loads(o)
        except (TypeError, ValueError):
            r = {'error': 'unparsable'}
        ctx.note_case("scale/" + da + str(s), nontrivial=r.get('nonblank', 0) > 0)
        if 'ndiff' not in r:
            ctx.violation("scale-law render failed: %s" % str(r)[:200], dict(docA=da, docB=db, scale=s))
            continue
        # tiny-skia anti-aliases with 4 sub-scanlines: an edge that moves by one f32 ulp can change a row of
        # edge pixels by 64 levels.  Allowed: edge noise (<= 72 levels) on at most 10% of the painted pixels.
        # Measured noise floor over 4000 random pairs: <= 1 pixel above 72 levels, <= 12% of painted pixels above 8.
        # Thin content (a few device pixels wide) has mostly edge pixels: a one-ulp move changes up to ~30 % of its
        # painted pixels by <= 45 levels (measured); a real misplacement of >= 1 px shows as many pixels above 72.
        if r['nbig'] > 4 or r['ndiff'] > max(24, r['nonblank'] * 40 // 100):
            ctx.violation("rendering with root scale %s differs from the document with width/height x %s (%d pixels, max delta %d)"
                          % (s, s, r['ndiff'], r['max']), dict(docA=da, docB=db, scale=s, result=r))
    # ---- S3b (round 5, after missed seed C17-17): the scale law at LARGE root scales on SMALL documents whose whole canvas is
    # covered by isolated groups (opacity / clip-path / mask / filter / blend: each is rendered through a layer that is limited by
    # resvg's `max_bbox`).  Content is pixel aligned (integer coordinates, scales 0.5 and integers), measured noise: 0 pixels.
    big_items, big_metas = [], []
    iso_kinds = {
        'opacity': '<g opacity="0.5"><rect width="%(w)s" height="%(h)s" fill="#c00000"/></g>',
        'clip': '<clipPath id="c"><rect width="%(w)s" height="%(h)s"/></clipPath><g clip-path="url(#c)"><rect width="%(w)s" height="%(h)s" fill="#00a000" fill-opacity="0.5"/></g>',
        'mask': '<mask id="m" maskUnits="userSpaceOnUse" x="0" y="0" width="%(w)s" height="%(h)s"><rect width="%(w)s" height="%(h)s" fill="white"/></mask>'
                '<g mask="url(#m)"><rect width="%(w)s" height="%(h)s" fill="#0000c0" fill-opacity="0.5"/></g>',
        'filter': '<filter id="f" filterUnits="userSpaceOnUse" x="0" y="0" width="%(w)s" height="%(h)s"><feColorMatrix type="saturate" values="0.5"/></filter>'
                  '<g filter="url(#f)"><rect width="%(w)s" height="%(h)s" fill="#c0a000" fill-opacity="0.5"/></g>',
        'blend': '<g style="mix-blend-mode:multiply"><rect width="%(w)s" height="%(h)s" fill="#a0a0ff"/></g>',
    }
    sizes = [(16, 16), (24, 24), (20, 12)]
    for (w, h) in sizes:
        combos = [('all', ''.join(iso_kinds[k] for k in ('opacity', 'clip', 'mask', 'filter', 'blend')))]
        if not quick:
            combos += [(k, iso_kinds[k]) for k in iso_kinds]
        for name, body in combos:
            content = '<rect width="%d" height="%d" fill="#ffffff"/>' % (w, h) + body % dict(w=w, h=h) + \
                      '<rect x="%d" y="%d" width="4" height="4" fill="#102030"/>' % (w - 4, h - 4)
            head = '<svg %s width="%%s" height="%%s" viewBox="0 0 %d %d">%s</svg>' % (NS, w, h, content)
            for sc in (0.5, 2, 3, 8, 16, 32, 50):
                da = head % (w, h)
                db = head % (fs(Fraction(w) * Fraction(sc)), fs(Fraction(h) * Fraction(sc)))
                big_items.append("-\t%s\t%s,0,0,%s,0,0\t%s\t1,0,0,1,0,0\t%d\t%d\t8" % (da, sc, sc, db, int(w * sc), int(h * sc)))
                big_metas.append((da, db, sc, name))
    bouts = ctx.rvh_batch(binp, 'render-pair', big_items, per_item_timeout=60)
    for (da, db, sc, name), o in zip(big_metas, bouts):
        try:
            r = json.loads(o)
        except (TypeError, ValueError):
            r = {'error': 'unparsable'}
        ctx.note_case("scale-iso/%s/%s/%s" % (name, da, sc), nontrivial=r.get('nonblank', 0) > 0)
        if 'ndiff' not in r:
            ctx.violation("scale-law render failed (isolated groups, scale %s): %s" % (sc, str(r)[:200]), dict(docA=da, docB=db, scale=sc))
            continue
        if r['nbig'] > 0 or r['ndiff'] > 0:
            ctx.violation("rendering with root scale %s differs from the document with width/height x %s on a canvas covered by isolated "
                          "groups (%s): %d pixels, max delta %d" % (sc, sc, name, r['ndiff'], r['max']),
                          dict(docA=da, docB=db, scale=sc, result=r, replay="rvh render-pair: docA under scale s vs docB under the identity"))
    ctx.cov['scale_law_isolated_renders'] = len(big_items)
    ctx.cov['scale_law_renders'] = len(items)
    # ---- S4: the scale law through the node-export entry point (render_node): exporting a node of T under a
    # root scale s equals exporting the same node of the document resized by s.
    nex = 30 if quick else 300
    eitems = []
    emetas = []
    for _ in range(nex):
        c = gen_case(rng, 'root', rng.choice(ALIGNS), bool(rng.below(2)))
        c['W'] = Fraction(rng.choice([40, 64, 100]))
        c['H'] = Fraction(rng.choice([40, 50, 90]))
        s = rng.choice([2, 3, 1.5, 0.5])
        vb = c['vb']
        # the exported node sits away from the page origin, inside a translated parent
        content = ('<g transform="translate(%s %s)"><rect id="n" x="%s" y="%s" width="%s" height="%s" fill="green" stroke="blue" stroke-width="%s"/></g>'
                   % (fs(vb[2] / 16), fs(vb[3] / 16), fs(vb[0] + vb[2] / 4), fs(vb[1] + vb[3] / 4), fs(vb[2] / 3), fs(vb[3] / 3), fs(vb[2] / 32)))
        head = '<svg %s width="%%s" height="%%s" viewBox="%s" preserveAspectRatio="%s">%s</svg>' % (
            NS, ' '.join(fs(v) for v in vb), par(c), content)
        da = head % (fs(c['W']), fs(c['H']))
        db = head % (fs(c['W'] * Fraction(s)), fs(c['H'] * Fraction(s)))
        eitems.append("-\t%s\t%s\tn\t%s" % (da, db, s))
        emetas.append((da, db, s))
    eouts = ctx.rvh_batch(binp, 'c17-export-scale', eitems)
    for (da, db, s), o in zip(emetas, eouts):
        try:
            r = json.loads(o)
        except (TypeError, ValueError):
            r = {'error': 'unparsable'}
        ctx.note_case("export-scale/" + da + str(s), nontrivial=r.get('nonblank', 0) > 0)
        if 'ndiff' not in r:
            if r.get('error') in ('no layer box', 'node not found'):
                continue
            ctx.violation("node export under a root scale failed: %s" % str(r)[:200], dict(docA=da, docB=db, scale=s, id='n'))
            continue
        if r['some'] != [True, True] or r['nbig'] > 6 or r['ndiff'] > max(24, r['nonblank'] * 40 // 100):
            ctx.violation("render_node with root scale %s differs from the resized document (%d pixels, max delta %d)"
                          % (s, r['ndiff'], r['max']), dict(docA=da, docB=db, scale=s, id='n', result=r))
    ctx.cov['export_scale_renders'] = len(eitems)

    ctx.cov['rule'] = ("viewbox: every (element kind in root/nested svg/symbol/image/pattern) x (10 aligns x meet/slice + none) x random dyadic "
                       "viewBox/viewport rectangles (aspect 1:50..50:1, negative origins); svg-size: random width/height (unit, percent, missing, "
                       "non-positive) x viewBox x dpi x default size; scale-law: rendered pairs.  A case is non-trivial when the document parses "
                       "and the probe is found (scale-law: the rendering is not blank); distinct by document text.")


def replay(ctx, path):
    return vlib.generic_replay(ctx, path)
