"""C13  Rendering commutes with whole-pixel translation of the canvas transform."""
import json

import vlib
from props import rendercommon as rc
from props.c14 import judge, FRACS

# Noise floor of the shift oracle (whole corpus, 1689 comparable files, canvas = root layer box + 48 px margins
# so that nothing crosses an edge, 2026-09-30):
#   * integer base translation, shift (7,-13): 1578 bit-identical, 101 within +-1 (patterns / images / nested
#     layers), 10 outliers - all f32 effects at a discontinuity: a hard gradient stop that falls exactly on a pixel
#     boundary flips a whole column (paint-servers/stop/*: 161 pixels, up to 128 levels; spreadMethod=repeat);
#   * fractional base translation (0.37, 0.61), shift (-31, 40): 1670 bit-identical, 16 within +-1, 3 files with
#     1-2 isolated pixels <= 16 levels (one AA sub-sample).
# The oracle therefore uses fractional base translations and the pixel rule of props/c14.py `judge` (at most 2
# pixels above 64 levels, ...), which both cases above pass with a wide margin.  Generated documents on their
# native canvas (content crossing the edges, layers clamped): deltas <= 48 levels on <= 46 pixels, all on paths
# that cross a layer / canvas edge (tiny-skia's clipper) - and the two genuine defect classes below.


FILTER_ASSERTS = ['filter/composite.rs:25', 'filter/composite.rs:26', 'filter/lighting.rs:140', 'filter/lighting.rs:185',
                  'filter/displacement_map.rs:25', 'filter/displacement_map.rs:26']


def shift_pair(rng):
    dx = rng.below(81) - 40
    dy = rng.below(81) - 40
    if dx == dy:
        dy = dy + 1 if dy < 40 else dy - 1
    return dx, dy


def run_shift(ctx, binp, items, label, n32_extra=0):
    """items: (doc, view, dx, dy); n32_extra: additional pixels above 32 levels a stage tolerates (measured noise, see the stage)"""
    payloads = ["-\t%s\t%s\t%d\t%d" % (d.replace('\n', ' ').replace('\t', ' '), v, dx, dy) for d, v, dx, dy in items]
    outs = ctx.rvh_batch(binp, 'c13-shift', payloads, per_item_timeout=30)
    st = dict(cases=0, identical=0, within1=0, noisy=0, skipped=0, with_layers=0, worst=0)
    nviol = 0
    for (d, v, dx, dy), o in zip(items, outs):
        try:
            r = json.loads(o)
        except (TypeError, ValueError):
            r = {'error': 'unparsable harness output'}
        if 'skip' in r or r.get('crash') == 'timeout':
            st['skipped'] += 1
            continue
        if 'n1' not in r:
            at = str(r.get('at', ''))
            if 'panic' in r and any(at.endswith(x) for x in FILTER_ASSERTS):
                # C02's defect F4 (filter images sized by the recomputed region, source sized by the layer), reached
                # here through an f32 floor/ceil flip under the translation
                st['filter_assert'] = st.get('filter_assert', 0) + 1
                ctx.known_or_violation('filter-size-assert', "%s: shifted rendering panicked: %s at %s" % (label, r['panic'], at),
                                       dict(op='c13-shift', doc=d, view=v, shift=[dx, dy], result=r))
                continue
            ctx.violation("%s: shifted rendering failed: %s" % (label, str(r)[:200]),
                          dict(op='c13-shift', doc=d, view=v, shift=[dx, dy], result=r))
            continue
        st['cases'] += 1
        if r['layersA'] > 0:
            st['with_layers'] += 1
        ctx.note_case("%s/%s/%d/%d" % (d[:200], v, dx, dy), nontrivial=r['nonblank'] > 0)
        st['worst'] = max(st['worst'], r['max'])
        if r['layersA'] != r['layersB'] and not v.startswith('native'):
            ctx.violation("%s: the shifted rendering allocates %d layers, the unshifted one %d" % (label, r['layersB'], r['layersA']),
                          dict(op='c13-shift', doc=d, view=v, shift=[dx, dy], result=r))
            continue
        if r['n0'] == 0:
            st['identical'] += 1
            continue
        if r['n1'] == 0:
            st['within1'] += 1
            continue
        why = judge(dict(r, n32=max(0, r['n32'] - n32_extra)), crossing=v.startswith('native') and r.get('outside', 0) > 0)
        if why is None:
            st['noisy'] += 1
            continue
        text = "%s: render(translate(%d,%d)*M) is not the shifted render(M): %s [view %s]" % (label, dx, dy, why, v)
        replay = dict(op='c13-shift', doc=d, view=v, shift=[dx, dy], result=r,
                      replay="rvh c13-shift, payload '-\\t<doc>\\t<view>\\t<dx>\\t<dy>\\temit'")
        if r.get('region_off'):
            # a filter layer clamped to max_bbox whose region origin is not the layer origin: the result is drawn displaced
            # (C13_turbulence_phase_equivariant_refuted); judged before layer-origin-negative, which it used to hide behind
            st['region_off'] = st.get('region_off', 0) + 1
            ctx.known_or_violation('clamped-filter-region-origin', text, replay)
            continue
        if r.get('neg_origin'):
            st['neg_origin'] = st.get('neg_origin', 0) + 1
            ctx.known_or_violation('layer-origin-negative', text, replay)
            continue
        thin = 'dbox' in r and min(r['dbox'][2] - r['dbox'][0], r['dbox'][3] - r['dbox'][1]) <= 0
        if r.get('ulp_flip') or (thin and r.get('filter_layers', 0) > 0):
            # a filter region / primitive sub-region edge within f32 rounding of an integer: one row or column
            st['ulp_flip'] = st.get('ulp_flip', 0) + 1
            ctx.known_or_violation('filter-region-ulp', text, replay)
            continue
        nviol += 1
        if nviol <= 3:
            ctx.violation(text, replay)
    return st


def qs(v):
    """a multiple of 1/4 as a Coq Q literal"""
    n = int(round(v * 4))
    return "(%d # 4)" % n if n >= 0 else "(-(%d # 4))" % (-n)


def light_correspondence(ctx, binp, n):
    """Extension round 4: the source-derived point_light_xy / spot_light_xy / spot_points_at_xy (Gen/LeafFilterPos.v) against the
    real filter::transform_light_source.  All inputs are multiples of 1/4 (|coordinates| <= 300, |matrix entries| <= 6), so the
    f32 mapping is exact and the comparison (inside Coq, chk_light) is an equality."""
    rng = ctx.rng

    def quarter(lim):
        return (rng.below(8 * lim + 1) - 4 * lim) / 4.0
    cases = []
    for k in range(n):
        spot = k % 2 == 1
        l = [quarter(300) for _ in range(6)]
        r = [rng.below(401) - 200, rng.below(401) - 200, 1 + rng.below(300), 1 + rng.below(300)]
        if k % 5 == 0:
            r[1] = r[0]           # region.x == region.y: where the spot light slip hides
        t = [quarter(6), quarter(2) if k % 3 == 0 else 0.0, quarter(2) if k % 3 == 0 else 0.0, quarter(6), quarter(200), quarter(200)]
        cases.append((spot, l, r, t))
    payloads = ["%s;%s;%s;%s" % ('spot' if c[0] else 'point', ",".join(repr(x) for x in c[1]), ",".join(str(x) for x in c[2]),
                                ",".join(repr(x) for x in c[3])) for c in cases]
    outs = ctx.rvh_batch(binp, 'c13-light', payloads)
    rows = []
    used = []
    for c, o, pl in zip(cases, outs, payloads):
        try:
            r = json.loads(o)
        except (TypeError, ValueError):
            r = {}
        if 'v' not in r or not r.get('exact'):
            ctx.violation("c13-light: transform_light_source failed or produced values that are not exact sixteenths: %s" % str(r)[:200],
                          dict(op='c13-light', payload=pl))
            continue
        spot, l, rg, t = c
        rows.append("(%s, (%s, %s, %s, %s), mk_irect %s, from_row %s, [%s])" % (
            'true' if spot else 'false', qs(l[0]), qs(l[1]), qs(l[3]), qs(l[4]),
            " ".join("(%d)" % x for x in rg), " ".join(qs(x) for x in t), ";".join("(%d)%%Z" % x for x in r['v'])))
        used.append((pl, r))
        ctx.note_case("light/" + pl, nontrivial=True)
    if not rows:
        return 0
    body = ("Local Open Scope Q_scope.\nDefinition cases : list (bool * (Q * Q * Q * Q) * irect * ts * list Z) := [\n%s\n].\n"
            "Eval vm_compute in (bad_indices (fun c => match c with (sp, (lx, ly, px, py), rg, t, impl) => chk_light sp lx ly px py rg t impl end) cases).\n"
            % ";\n".join(rows))
    rcode, out = ctx.coq_eval('light_corr', body, ['Model.Base', 'Model.Corr', 'Model.Render', 'Gen.LeafFilterPos', 'Model.FilterPos'], timeout=300)
    bad = ctx.parse_N_list(out) if rcode == 0 else None
    if bad is None:
        ctx.violation("c13-light: the model could not be evaluated: %s" % out[-400:], dict(op='c13-light'), found_input=False)
        return 0
    for i in bad[:3]:
        ctx.violation("light-source correspondence: the real transform_light_source disagrees with the source-derived model "
                      "(C13_point_light_equivariant / C13_spot_light_* are about the model): payload %s -> 16 x (x, y, pointsAt x, y) = %s"
                      % (used[i][0], used[i][1]['v']), dict(op='c13-light', payload=used[i][0], implementation=used[i][1]))
    return len(rows)


def model_search_filterpos(ctx, binp):
    """the clauses of the round-4 theorems evaluated on the frame move recorded from the clamped-filter witness; returns
    (clause, model input, what the real transform_light_source does on the two frames) or None"""
    body = ("Local Open Scope Q_scope.\nEval vm_compute in (filterpos_verdicts 30 30 (mk_irect (-80) (-80) 600 600) "
            "(from_row 1 0 0 1 120 120) 9 (-4) 9 (-4)).\n")
    rcode, out = ctx.coq_eval('search_filterpos', body, ['Model.Base', 'Model.Render', 'Gen.LeafFilterPos', 'Model.FilterPos'], timeout=120)
    v = ctx.parse_N_list(out) if rcode == 0 else None
    body2 = ("Eval vm_compute in (filterpos_verdicts2 (mk_irect (-60) (-70) 40 30) (mk_irect (-80) (-80) 600 600) (-120) (-120) 9 (-4) 9 (-4)).\n")
    rcode2, out2 = ctx.coq_eval('search_filterpos2', body2, ['Model.Base', 'Model.Render', 'Gen.LeafFilterPos', 'Model.FilterPos'], timeout=120)
    v2 = ctx.parse_N_list(out2) if rcode2 == 0 else None
    v = (v or [0, 0, 0, 0]) + (v2 or [0, 0, 0])
    if not any(v):
        return None
    names = ['C13_turbulence_offset_invariant', 'C13_point_light_equivariant', 'C13_spot_light_equivariant', 'C13_turbulence_phase_equivariant',
             'C13_subregion_clip_equivariant', 'C13_tile_origin_equivariant', 'C13_feimage_placement_equivariant']
    name = names[[i for i, x in enumerate(v) if x][0]]
    inp = dict(light=[30, 30], region=[-80, -80, 600, 600], layer_ts=[1, 0, 0, 1, 120, 120], frame_move=[9, -4])
    outs = ctx.rvh_batch(binp, 'c13-light', ["point;30,30,10,0,0,0;-80,-80,600,600;1,0,0,1,120,120", "point;30,30,10,0,0,0;-71,-84,600,600;1,0,0,1,129,116",
                                            "spot;30,30,10,20,20,0;-80,-80,600,600;1,0,0,1,120,120", "spot;30,30,10,20,20,0;-71,-84,600,600;1,0,0,1,129,116"])
    return name, inp, outs


def gen_text_edge_case(rng):
    """Round 5 (seed C13-17): top-level <text> (fonts of the test fonts dir) with a thick stroke whose layout box (font metrics, no
    stroke) is moved just off one of the four canvas edges by the shift while part of the stroke stays visible; also decorated and
    rotated variants, and the same with the text in the middle (control).  Native canvas, integer base."""
    W, H = rng.choice([(120, 80), (90, 90), (160, 60), (70, 140)])
    fs = rng.choice([24, 30, 36])
    sw = rng.choice([20, 26, 30, 36])
    fam = rng.choice(['Noto Sans', 'Noto Serif', 'Noto Mono'])
    word = rng.choice(['HH', 'Text', 'MWM', 'll'])
    edge = rng.choice(['left', 'right', 'top', 'bottom', 'middle'])
    inside = 2 + rng.below(6)          # how far the layout box is inside before the shift
    off = 2 + rng.below(max(1, sw // 2 - 4))   # how far it is outside after it (less than half the stroke)
    asc, desc = 1.07 * fs, 0.30 * fs   # Noto ascent / descent, approximately (the margins absorb the difference)
    dx = dy = 0
    anchor = 'start'
    if edge == 'left':
        x, y, anchor = inside, H // 2, 'end'
        dx, dy = -(inside + off), rng.below(23) - 11
    elif edge == 'right':
        x, y = W - inside, H // 2
        dx, dy = inside + off, rng.below(23) - 11
    elif edge == 'top':
        x, y = W // 4, inside - desc
        dx, dy = rng.below(23) - 11, -(inside + off)
    elif edge == 'bottom':
        x, y = W // 4, H - inside + asc
        dx, dy = rng.below(23) - 11, inside + off
    else:
        x, y = W // 3, H // 2
        dx, dy = rng.below(41) - 20, rng.below(41) - 20
    if dx == dy:
        dy += 1
    deco = rng.choice(['', '', ' text-decoration="underline"', ' stroke-linejoin="round"'])
    doc = ('<svg %s width="%d" height="%d"><text x="%s" y="%s" text-anchor="%s" font-family="%s" font-size="%d" fill="#2a6" stroke="#137" '
           'stroke-width="%d"%s>%s</text></svg>' % (rc.NS, W, H, round(x, 2), round(y, 2), anchor, fam, fs, sw, deco, word))
    return (doc, "native:%s:0:0" % rng.choice([1, 1, 2]), dx, dy)


def run(ctx):
    rng = ctx.rng
    quick = ctx.tier == 'quick'
    ctx.cov['trusted_base'] = vlib.BASE_TRUSTED + [
        "tiny-skia (rasteriser, shaders, draw_pixmap): unmodelled; its translation equivariance is observed by the pixel oracle only",
        "tiny_skia_path::Rect::to_int_rect, IntRect::from_xywh/from_ltrb hand-modelled, tied by the layer-trace correspondence",
        "filter primitives: light-source mapping, turbulence offset / sample point and the placement of the result on the layer are "
        "source-derived (Gen/LeafFilterPos.v) and tied by c13-light; the clip sub-region, feTile origin, feImage placement, feOffset scaling and the pattern shader "
        "transform are source-derived too (tie: regenerated definitions + anchors; no separate hook, the pixel oracle observes them end to end)",
    ]
    ctx.assumptions = [
        "device boxes within +-2^29 (no i32 saturation)",
        "C13_filter_region_equivariant: single filter, layer not clamped",
        "C13_turbulence_phase_equivariant: the filter layer follows its content (not clamped; refuted otherwise: class clamped-filter-region-origin)",
    ]
    broken = ctx.translate()
    res = ctx.coq_props()
    proof_ok = res['ok'] and not broken
    # the model files the correspondence evaluates (also when a proof file no longer compiles)
    ctx.coq_build(['Model/Corr.v', 'Model/Render.v', 'Model/Compose.v', 'Model/FilterPos.v'])

    binp, blog = ctx.harness('release')
    if binp is None:
        ctx.violation("harness does not build against the current tree (correspondence cannot run)",
                      dict(build_log=blog[-2000:]), found_input=False)
        return
    files = vlib.corpus_files()

    # ------------------------------------------------------------------ K: light-source mapping (extension round 4)
    nl = light_correspondence(ctx, binp, 120 if quick else 1200)
    ctx.cov['light_cases'] = nl
    ctx.log("c13-light: %d cases agree with the source-derived light-source mapping" % nl)
    # known class clamped-filter-region-origin (found while stating C13_turbulence_phase_equivariant at full strength): the
    # result of a filter whose layer was clamped to max_bbox is drawn at the layer origin although its pixel (0,0) stands for
    # the region origin, so position-dependent primitives do not follow a root translation
    # (C13_turbulence_phase_equivariant_refuted).  The witness must (a) still show the defect through the class predicate of
    # the harness (region_off) or (b) render correctly - anything else is a different violation.
    cw = open(vlib.VERIF + '/corpus/witness/C13-clamped-filter-turbulence.svg').read().strip()
    o = ctx.rvh_batch(binp, 'c13-shift', ["-\t%s\tnative:1:0:0\t9\t-4" % cw.replace('\n', ' ')])[0]
    try:
        pr = json.loads(o)
    except (TypeError, ValueError):
        pr = {}
    ctx.cov['clamped_filter_probe'] = {k: pr.get(k) for k in ('n0', 'n64', 'max', 'nonblank', 'region_off', 'neg_origin')}
    wrep = dict(op='c13-shift', doc=cw, view='native:1:0:0', shift=[9, -4], result=pr)
    if 'n64' not in pr:
        ctx.violation("the witness of class clamped-filter-region-origin no longer renders: %s" % str(pr)[:200], wrep)
    elif pr['n64'] > 2:
        text = ("feTurbulence in a filter whose region exceeds max_bbox does not follow a whole-pixel root translation: %d of %d painted "
                "pixels differ by more than 64 levels under translate(9,-4) on a 60x60 canvas" % (pr['n64'], pr.get('nonblank', 0)))
        if pr.get('region_off'):
            ctx.known_or_violation('clamped-filter-region-origin', text, wrep)
        else:
            ctx.violation(text + " - and the trace does not show the class (clamped layer, region origin off the layer origin)", wrep)

    # ------------------------------------------------------------------ K: layer-trace under shifted roots
    jobs = []
    for f in rng.sample(files, 350 if quick else len(files)):
        heavy = 'feMorphology' in f or 'feTurbulence' in f or 'feConvolveMatrix' in f
        for (W, H, t) in rng.sample(rc.TRACE_VIEWS, 1 if quick else 3):
            if heavy and (W * H > 100 * 100 or abs(t[0]) > 2):
                continue
            dx, dy = shift_pair(rng)
            jobs.append(('@' + f, W, H, t))
            jobs.append(('@' + f, W, H, (t[0], t[1], t[2], t[3], t[4] + dx, t[5] + dy)))
    for (doc, W, H, t) in rc.trace_jobs_generated(ctx, 200 if quick else 2000):
        dx, dy = shift_pair(rng)
        jobs.append((doc, W, H, t))
        jobs.append((doc, W, H, (t[0], t[1], t[2], t[3], t[4] + dx, t[5] + dy)))
    tr = rc.layer_trace_correspondence(ctx, binp, jobs, label='layer-trace-shift')
    rc.report_trace(ctx, tr, "layer-trace (shifted roots)")
    ctx.cov['correspondence_cases'] = tr['distinct']
    ctx.cov['trace'] = dict(renders=len(jobs), layer_events=tr['events'], distinct=tr['distinct'], clamped=tr['clamped'],
                            with_filters=tr['filtered'])
    ctx.log("layer-trace: %d renders, %d layer events, %d distinct (%d clamped, %d with filters), %d disagreements"
            % (len(jobs), tr['events'], tr['distinct'], tr['clamped'], tr['filtered'], len(tr['bad'])))
    if tr['distinct'] < 150:
        ctx.violation("layer-trace correspondence recorded only %d layer events (trace hook missing or silent)" % tr['distinct'],
                      dict(op='layer-trace', renders=len(jobs)), found_input=False)

    ch = rc.chain_trace_correspondence(ctx, binp, 40 if quick else 400)
    ctx.cov['chain_trace'] = ch
    ctx.log("chain-trace: %s" % ch)
    # regression (ffdf909): the nested-clamp witness must commute with a whole-pixel shift
    wit = open(vlib.VERIF + '/corpus/witness/C14-nested-layer-clamp.svg').read().strip()
    st = run_shift(ctx, binp, [(wit, 'native:1:0:0', -20, 1), (wit, 'native:1:0.37:0.13', 33, -7)], "regression nested-layer-clamp")
    if st['identical'] + st['within1'] != 2:
        ctx.violation("regression: the nested-layer-clamp witness no longer commutes with a whole-pixel shift: %s" % st,
                      dict(op='c13-shift', doc=wit, view='native:1:0:0', shift=[-20, 1]))

    # ------------------------------------------------------------------ S: e2e-C13
    stats = {}
    plan = [(1, None), (2, 500 if quick else None)]
    if not quick:
        plan += [(1, None), (0.5, None), (2, None)]
    for scale, sample in plan:
        fs = files if sample is None else rng.sample(files, sample)
        items = []
        for f in fs:
            if scale > 1 and 'feMorphology' in f:
                continue        # cost grows with scale^4 (C02 class F30)
            dx, dy = shift_pair(rng)
            items.append(('@' + f, "%s:%s:%s" % (scale, rng.choice(FRACS), rng.choice(FRACS)), dx, dy))
        st = run_shift(ctx, binp, items, "e2e-C13 corpus")
        stats["corpus @%sx #%d" % (scale, len(stats))] = st
        ctx.log("e2e-C13 corpus @%sx: %s" % (scale, st))
        if len(ctx.violations) > 8:
            break
    items = []
    for k in range(300 if quick else 3000):
        kind = k % 3
        if kind == 0:
            doc, W, H = rc.gen_doc(rng, 'opacity="0.7"', spread=rng.choice([0.0, 0.5, 1.0]))
            doc = doc.replace('><g', '><g opacity="0.9"><g', 1).replace('</svg>', '</g></svg>')
        elif kind == 1:
            doc, W, H = rc.gen_filter_doc(rng)
        else:
            doc, W, H = rc.gen_doc(rng, 'opacity="0.5"', spread=6.0)
        dx, dy = shift_pair(rng)
        items.append((doc, "native:%s:%s:%s" % (rng.choice([1, 2]), rng.choice(FRACS), rng.choice(FRACS)), dx, dy))
    st = run_shift(ctx, binp, items, "e2e-C13 generated")
    stats['generated'] = st
    ctx.log("e2e-C13 generated: %s" % st)
    # stroke-only shapes and images drawn directly on portrait / landscape canvases, shifted across every edge by
    # less than the stroke width; images at every canvas position (seeded changes C13-3, C13-4)
    eitems = [rc.gen_edge_case(rng) for _ in range(500 if quick else 5000)]
    st = run_shift(ctx, binp, eitems, "e2e-C13 edges")
    stats['edges'] = st
    ctx.log("e2e-C13 edges: %s" % st)
    # stroked top-level text whose layout box leaves the canvas while its stroke stays visible (seeded change C13-17)
    titems = [gen_text_edge_case(rng) for _ in range(120 if quick else 1200)]
    # noise floor (thorough, seed 1, 1200 cases, HEAD 7272c32): 997 bit-identical, 202 within the crossing rule, one case with 8 px > 32
    # levels (max 64, of 347 painted: thick round-joined glyph outlines crossing the edge at 2x - tiny-skia's clipper); the seed shows
    # 36 .. 2059 px > 64 levels.  Hence 10 extra pixels above 32 levels are tolerated here; the > 64 budget (2 px) is unchanged.
    st = run_shift(ctx, binp, titems, "e2e-C13 text edges", n32_extra=10)
    stats['text_edges'] = st
    ctx.log("e2e-C13 text edges: %s" % st)
    if st['cases'] < len(titems) // 2:
        ctx.violation("e2e-C13 text edges: only %d of %d text documents rendered (fonts missing?)" % (st['cases'], len(titems)),
                      dict(op='c13-shift', doc=titems[0][0], view=titems[0][1], shift=[titems[0][2], titems[0][3]]), found_input=False)
    ctx.add_sample(dict(op='c13-shift', doc='@' + files[len(files) // 2], view='1:0.37:0.61', shift=[7, -13]))
    ctx.add_sample(dict(op='c13-shift', doc=items[1][0], view=items[1][1], shift=[items[1][2], items[1][3]]))
    ctx.cov['e2e'] = stats
    ctx.cov['e2e_cases'] = sum(s['cases'] for s in stats.values())

    # ------------------------------------------------------------------ proofs broken: search
    if not proof_ok:
        found = bool(ctx.violations)
        if not found:
            fp = model_search_filterpos(ctx, binp)
            if fp:
                ctx.violation("model counterexample to %s in the source-derived filter positions: light (30,30), region (-80,-80,600,600), "
                              "layer transform translate(120,120), frame moved by (9,-4) [the clamped filter layer of "
                              "corpus/witness/C13-clamped-filter-turbulence.svg under root translate(9,-4)]; the real transform_light_source on the "
                              "two frames (16 x position relative to the region): %s" % (fp[0], [x[:60] for x in fp[2]]),
                              dict(theorem=fp[0], model_input=fp[1], implementation_light_source=fp[2], failed_files=res['failed'], broken_ties=broken,
                                   doc=open(vlib.VERIF + '/corpus/witness/C13-clamped-filter-turbulence.svg').read().strip(), view='native:1:0:0', shift=[9, -4]))
                found = True
        if not found:
            g = rc.model_search_geometry(ctx, 300 if quick else 3000)
            if g:
                for name, d, cnt in g[:2]:
                    doc = rc.doc_for_bbox(d)
                    dx, dy = d['shift']
                    if dx == dy:
                        dy += 1
                    o = ctx.rvh_batch(binp, 'c13-shift', ["-\t%s\tnative:1:0:0\t%d\t%d" % (doc, dx, dy)])[0]
                    ctx.violation("model counterexample to %s in the source-derived layer geometry (%d of the sampled boxes fail): %s"
                                  % (name, cnt, json.dumps(d)),
                                  dict(theorem=name, model_input=d, doc=doc, implementation_result=o[:1500],
                                       failed_files=res['failed'], broken_ties=broken))
                found = True
        if not found:
            ctx.violation("C13 proof obligations no longer check: %s %s" % (res['failed'] + res['audit'], [b['name'] for b in broken]),
                          dict(failed_files=res['failed'], audit=res['audit'], broken_ties=broken, log_tail=res['log'][-3000:]),
                          found_input=False)

    ctx.cov['rule'] = ("layer-trace: corpus files and generated nested-group / filter documents rendered under a sampled (canvas, root "
                       "transform) view and under the same view translated by (dx,dy), dx != dy in [-40,40]; every distinct recorded layer "
                       "event is one case.  e2e: every corpus file at 1x (and a sample at 2x) with a fractional base translation on a canvas = "
                       "root layer box + 48 px margins; generated documents on their native canvas (content crossing the edges, clamped "
                       "layers, filters with large regions).  Non-trivial = something is painted; distinct by (document, view, shift).")


def replay(ctx, path):
    r = json.load(open(path))
    rp = r.get('replay', {})
    print(json.dumps({k: v for k, v in r.items() if k != 'replay'}, indent=1))
    binp, _ = ctx.harness('release')
    if binp is None:
        print("harness does not build")
        return 1
    if rp.get('op') == 'c13-shift':
        dx, dy = rp['shift']
        o = ctx.rvh_batch(binp, 'c13-shift', ["-\t%s\t%s\t%d\t%d\temit" % (rp['doc'].replace('\n', ' '), rp['view'], dx, dy)])[0]
        try:
            j = json.loads(o)
            print("document: " + rp['doc'][:3000])
            print("result now: " + json.dumps({k: v for k, v in j.items() if not k.startswith('events')}))
            print("layer/filter events, unshifted: " + json.dumps(j.get('eventsA'))[:2000])
            print("layer/filter events, shifted:   " + json.dumps(j.get('eventsB'))[:2000])
            print("verdict now: %s" % ((judge(j) if 'n1' in j else 'render failed') or 'within tolerance'))
        except (TypeError, ValueError):
            print(o)
    elif rp.get('op') == 'layer-trace':
        W, H = rp['canvas']
        o = ctx.rvh_batch(binp, 'layer-trace', ["-\t%s\t%s\t%d\t%d" % (rp['doc'].replace('\n', ' '), rc.ts_str(rp['root_transform']), W, H)])[0]
        print("recorded event: " + json.dumps(rp.get('event')))
        print("trace now: " + o[:3000])
    else:
        print(json.dumps(rp, indent=1)[:6000])
    return 0
