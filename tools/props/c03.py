"""C03  Cyclic references of any length and kind are neutralised."""
import glob
import hashlib
import json
import os
import re

import vlib
import c03gen as G

IMPORTS = ['Gen.Consts', 'Gen.LinkGuards', 'Model.SvgBuild', 'Model.Links', 'Model.LinksChk']
NEST_IMPORTS = ['Gen.LinkGuards', 'Model.LinksNest']


def hbits(*parts):
    return int(hashlib.sha256(repr(parts).encode()).hexdigest()[:8], 16)


def enumerated(ctx, maxlen, sample3=None):
    """[(label, abstract doc)] for every simple cycle up to maxlen (optionally a sample of the longest length)."""
    out = []
    for kinds, places in G.all_cycles(maxlen):
        n = len(kinds)
        h = hbits(kinds, places)
        if sample3 is not None and n == maxlen and n >= 3 and (h ^ ctx.seed * 2654435761) % sample3[1] >= sample3[0]:
            continue
        via = bool(h & 1)
        rot = (h >> 1) % 3
        flags = [bool((h >> (3 + i)) & 1) for i in range(n)]
        use_entry = bool((h >> 12) & 1)
        wrappers = [G.WRAPPERS[(h >> (13 + 3 * i)) % len(G.WRAPPERS)] if (h >> 26) & 1 else '' for i in range(n)]
        extra_child = bool((h >> 27) & 1)
        entries = 1 + (h >> 28) % 3
        label = "cycle %s %s%s%s%s%s x%d" % ('>'.join(kinds), ','.join(p[0] for p in places), ' via' if via else '', ' use-entry' if use_entry else '',
                                          ' wrap=' + '/'.join(w or '-' for w in wrappers) if any(wrappers) else '', ' +child' if extra_child else '', entries)
        d = G.cycle_doc(kinds, places, rot, via, flags, use_entry, wrappers, extra_child, entries)
        if (h >> 5) & 1 and G.listify(d, hbits(kinds, places, 'flist')):
            label += ' flist'
        # a switch with ONE child is the model's non-g container (TSvg class: converted like a group, not named); several children: e2e only
        d.nomodel = any(x.tag == 'switch' and len(x.kids) != 1 for x in d.walk())
        out.append((label, d))
    # re-entry family: every single-kind 3-cycle entered by three plain shapes in sequence (the caches are filled by the
    # first entry), all definitions with objectBoundingBox units (converted again for every user) or all with
    # userSpaceOnUse units (cached), links on the elements or on children, every definition with an extra valid child
    for kind in G.KINDS:
        for place in G.PLACES:
            for flag in (False, True):
                for via in (False, True):
                    label = "cycle %s %s re-entry %s%s x3" % ('>'.join([kind] * 3), ','.join([place[0]] * 3), 'usou' if flag else 'obb', ' via' if via else '')
                    out.append((label, G.cycle_doc([kind] * 3, [place] * 3, 0, via, [flag] * 3, False, None, True, 3)))
    return out


def impl_table(res, names):
    """harness c03-svgtree result -> Coq term `option (Z * list (nat * akey * N))` (None when it is not usable)"""
    if 'error' in res:
        return 'None'
    ents = []
    for i, (tag, eid, attrs) in enumerate(res['elems']):
        for k, v in attrs.items():
            if k == 'filter' and len(v.split()) > 1:          # list-valued: one entry per url
                for u in re.findall(r"url\(#([^)]*)\)", v):
                    ents.append("(%d%%nat, %s, %d%%N)" % (i + 1, G.AKEY[k], names.get(u)))
                continue
            m = re.fullmatch(r"url\(#([^)]*)\)", v.strip()) if k != 'href' else re.fullmatch(r"#(.*)", v.strip())
            if m:
                ents.append("(%d%%nat, %s, %d%%N)" % (i + 1, G.AKEY[k], names.get(m.group(1))))
    return "(Some (%d%%Z, [%s]))" % (res['n'], "; ".join(ents))


def impl_names(res, names):
    if 'error' in res:
        return 'None'
    return "(Some [%s])" % "; ".join("%d%%N" % (G.WITNESS_N if n['id'] == 'vf_witness' else names.get(n['id']))
                                     for n in res['nodes'] if n['t'] in ('path', 'g'))


def witness_ok(res, extra=True):
    """every independent shape is in the tree with unchanged geometry (own box, absolute transform, all absolute /
    stroke / layer boxes) and paint, and the main one is painted"""
    expect = {'vf_witness': ([70.0, 70.0, 20.0, 20.0], [1, 2, 3])}
    if extra:
        expect.update(G.EXTRA_WITNESSES)
    for wid, (box, rgb) in expect.items():
        ws = [n for n in res.get('nodes', []) if n.get('id') == wid]
        if len(ws) != 1:
            return "independent shape %s %s" % (wid, "missing from the tree" if not ws else "duplicated")
        w = ws[0]
        if w['t'] != 'path' or w['bbox'] != box:
            return "geometry of %s changed: %s" % (wid, w.get('bbox'))
        if w['abs_ts'] != [1.0, 0.0, 0.0, 1.0, 0.0, 0.0]:
            return "absolute transform of %s changed: %s" % (wid, w['abs_ts'])
        if any(b != box for b in w.get('boxes', [])):
            return "absolute / stroke / layer bounding boxes of %s changed: %s" % (wid, w.get('boxes'))
        if w['fill'] != rgb or w['fo'] != 1.0 or w['stroke'] or not w['visible']:
            return "paint of %s changed: fill=%s opacity=%s stroke=%s visible=%s" % (wid, w['fill'], w['fo'], w['stroke'], w['visible'])
    if res['px'] != [1, 2, 3, 255]:
        return "witness not painted: pixel (80,80) = %s" % res['px']
    return None


def run(ctx):
    quick = ctx.tier == 'quick'
    rng = ctx.rng
    ctx.cov['trusted_base'] = vlib.BASE_TRUSTED + [
        "tools/gen_links.py: syntactic recognition of the loop guards in clippath.rs, mask.rs, filter.rs, paint_server.rs, marker.rs, svgtree/mod.rs, svgtree/parse.rs",
        "roxmltree, svgtypes (IRI / FuncIRI / paint / filter-list grammars), text and image conversion, geometry: unmodelled; exercised by the e2e oracle only",
        "the native stack depth and the wall-clock time of the real parser are observed (worker signal / timeout), not proved",
        "tools/gen_links.py: recognition of the `sub_opt` literal of image.rs load_sub_svg and of the loop headers of find_recursive_link / find_recursive_pattern",
        "text/flatten.rs parses SVG glyphs supplied by font files with default options (not reachable from the document alone): unmodelled",
    ]
    ctx.assumptions = [
        "model documents: elements with a tag class, an id, a units flag and reference-valued attributes; attribute values are references or non-references",
        "shapes have a non-empty bounding box; pattern / mask / filter / marker rectangles are valid (the generator emits such documents)",
        "duplicate ids, CSS, `inherit`, switch, text and raster images are outside the modelled fragment; nested SVG documents are modelled as the list of their external references (Model/LinksNest.v)",
    ]
    broken = ctx.translate()
    res = ctx.coq_props(extra_targets=['Model/LinksChk.v'])
    proof_ok = res['ok'] and not broken
    if not proof_ok:
        rc_s, out_s = ctx.coq_eval('k_c03_sites', "From Coq Require Import String List.\nImport ListNotations.\nOpen Scope string_scope.\n"
                                      "Eval vm_compute in uncovered_sites.\n", ['Gen.LinkGuards', 'Model.LinksSites'], timeout=120)
        if rc_s == 0 and not re.search(r"=\s*\[\s*\]", out_s):
            ctx.log("link-following constructs of parser/** without a classified guard (C03_link_sites_covered): "
                    + re.sub(r"\s+", " ", out_s.split(': list')[0])[:1500])
    if not quick and res['ok']:
        if not ctx.coqchk():
            proof_ok = False
            res['audit'].append('coqchk rejected the compiled closure of Props/C03.vo')

    binp, blog = ctx.harness('release')
    if binp is None:
        ctx.violation("harness does not build against the current tree (correspondence and oracle cannot run)",
                      dict(build_log=blog[-2000:]), found_input=False)
        return

    # ------------------------------------------------------------------ documents
    docs = []          # (label, abstract doc or None, svg text or @path)
    for p in sorted(glob.glob(os.path.join(vlib.VERIF, 'corpus', 'witness', 'F0[12]*.svg'))):
        docs.append(("witness " + os.path.basename(p), None, '@' + p))
    for p in sorted(glob.glob(os.path.join(vlib.VERIF, 'corpus', 'c03', '*.svg'))):
        docs.append(("witness " + os.path.basename(p), 'file-with-witness', '@' + p))
    for p in sorted(glob.glob(os.path.join(vlib.CORPUS, '**', '*recursive*.svg'), recursive=True)) + \
            sorted(glob.glob(os.path.join(vlib.CORPUS, '**', '*self-recursive*.svg'), recursive=True)):
        docs.append(("corpus " + os.path.relpath(p, vlib.CORPUS), None, '@' + p))
    import c01gen
    docs.append(("deep use chain x400", 'file-with-witness', c01gen.hidden_use_chain(400)))
    docs.append(("deep use chain x2250 (beyond the depth limit)", 'err-allowed', c01gen.hidden_use_chain(2250)))
    n_files = len(docs)
    if quick:
        enum = enumerated(ctx, 3, sample3=(1, 4))          # all cycles of length 1, 2 and a quarter of length 3
    else:
        enum = enumerated(ctx, 4, sample3=(1, 12))         # all of length <= 3, 1/12 of length 4
    hist = {}
    for label, d in enum:
        docs.append((label, d, G.to_svg(d)))
    nrand = 400 if quick else 6000
    for i in range(nrand):
        d = G.random_doc(rng, 2 + rng.below(11))
        nl = G.listify(d, rng.below(1 << 30)) if rng.below(3) == 0 else 0
        docs.append(("random graph %d%s" % (i, ' flist' if nl else ''), d, G.to_svg(d)))
    # duplicate ids (extension round 4): a random graph in which one element takes the id of another one - `use` resolves an
    # id to the FIRST element carrying it (id_map), every other reference to the LAST svgtree element (doc.links)
    ndup = 150 if quick else 2000
    for i in range(ndup):
        d = G.random_doc(rng, 3 + rng.below(9))
        els = [x for x in d.walk() if x.id is not None and x.tag != 'svg' and not x.id.startswith('vf_')]
        if len(els) >= 2:
            a, b = rng.choice(els), rng.choice(els)
            if a is not b:
                a.id = b.id
        docs.append(("random graph dup-id %d" % i, d, G.to_svg(d)))
    # filter lists (unmodelled grammar: e2e only): cyclic documents whose filter references are written as lists
    nfl = 0
    for label, d in enum:
        if 'filter' not in label and 'feimage' not in label:
            continue
        h = hbits(label, ctx.seed)
        if h % (12 if quick else 3):
            continue
        t = G.to_svg(d)
        form = (r'filter="url(#\1) url(#\1)"', r'filter="blur(0.5) url(#\1)"', r'filter="url(#\1) grayscale(0.5)"')[(h >> 8) % 3]
        t2 = re.sub(r'filter="url\(#([^)]*)\)"', form, t)
        if t2 != t:
            docs.append(("filter-list " + label, 'file-with-witness', t2))
            nfl += 1
    # textPath (final pass; text is not modelled: e2e only): the path a textPath follows carries a reference back to the
    # definition that holds the text - the path is read, its references are not followed from the text
    head = '<svg xmlns="http://www.w3.org/2000/svg" xmlns:xlink="http://www.w3.org/1999/xlink" width="100" height="100">'
    tp = '<text font-size="8"><textPath xlink:href="#p">abc def</textPath></text>'
    pth = 'd="M 10 20 L 60 20 L 60 60"'
    for lab, body in (
            ("mask", '<mask id="m">%s<rect width="50" height="50" fill="white"/></mask><path id="p" %s stroke="black" fill="none" mask="url(#m)"/>' % (tp, pth)),
            ("clip-path", '<clipPath id="m">%s<rect width="50" height="50"/></clipPath><path id="p" %s stroke="black" fill="none" clip-path="url(#m)"/>' % (tp, pth)),
            ("pattern", '<pattern id="m" patternUnits="userSpaceOnUse" width="20" height="20">%s<rect width="5" height="5"/></pattern><path id="p" %s fill="url(#m)"/>' % (tp, pth)),
            ("marker", '<marker id="m" markerWidth="9" markerHeight="9">%s<rect width="3" height="3"/></marker><path id="p" %s stroke="black" fill="none" marker-start="url(#m)"/>' % (tp, pth)),
            ("filter/feImage", '<filter id="m"><feImage xlink:href="#t"/></filter><text id="t" font-size="8"><textPath xlink:href="#p">abc</textPath></text>'
                               '<path id="p" %s stroke="black" fill="none" filter="url(#m) blur(1)"/>' % pth),
            ("self text", '<text id="p" font-size="8"><textPath xlink:href="#p">abc</textPath></text>'),
            ("switch several children", '<mask id="m"><switch><rect width="50" height="50" fill="white"/><rect width="5" height="5" mask="url(#m)"/></switch></mask>'
                                        '<switch><rect id="sw_no1" systemLanguage="xx" width="9" height="9" mask="url(#m)"/><g id="sw_sel" mask="url(#m)"><rect width="30" height="30"/></g><rect id="sw_no2" width="7" height="7"/></switch>'),
            ("href ring behind the path", '<path id="p" %s xlink:href="#q" stroke="black" fill="none"/><path id="q" %s xlink:href="#p" stroke="black" fill="none"/>%s' % (pth, pth, tp))):
        docs.append(("textpath " + lab, 'file-with-witness', head + body + G.WITNESS + '</svg>'))
    # hand-written use shapes (the class boundary): caught by the guards / not caught
    for label, d in use_family():
        docs.append((label, d, G.to_svg(d)))
    ctx.log("documents: %d files, %d enumerated cycles, %d random graphs, %d with duplicate ids, %d filter-list variants" % (n_files, len(enum), nrand, ndup, nfl))

    items = ["-\t" + t for _, _, t in docs]
    # ------------------------------------------------------------------ S: e2e oracle
    # stage 1: files, use shapes, every cycle of length <= 2 and the single-kind 3-cycles, few documents per worker
    # so that an overflow or a hang is found quickly; stage 2 (everything else) only if stage 1 is clean.
    def early(i):
        label, d, text = docs[i]
        if d is None or isinstance(d, str) or label.startswith('use-family'):
            return True
        if label.startswith('cycle '):
            kinds = label.split(' ')[1].split('>')
            return len(kinds) <= 2 or len(set(kinds)) == 1
        return False
    s1 = [i for i in range(len(docs)) if early(i)]
    s2 = [i for i in range(len(docs)) if not early(i)]
    outs = [None] * len(docs)
    o1 = ctx.rvh_batch(binp, 'c03-e2e', [items[i] for i in s1], per_item_timeout=4, chunk=6)
    for i, o in zip(s1, o1):
        outs[i] = o
    stage1_crash = any(o is None or '"crash"' in o or '"panic"' in o for o in o1)
    if stage1_crash:
        ctx.log("stage 1 of the e2e oracle found a crash / hang: stage 2 (%d documents) is skipped" % len(s2))
        docs = [docs[i] for i in s1]
        items = [items[i] for i in s1]
        outs = o1
    else:
        o2 = ctx.rvh_batch(binp, 'c03-e2e', [items[i] for i in s2], per_item_timeout=4, chunk=40)
        for i, o in zip(s2, o2):
            outs[i] = o
    e2e_bad = 0
    verdicts = []
    for (label, d, text), o in zip(docs, outs):
        try:
            r = json.loads(o)
        except (TypeError, ValueError):
            r = {'crash': 'unparsable output'}
        kindkey = label.split(' ')[0]
        hist[kindkey] = hist.get(kindkey, 0) + 1
        ctx.note_case(text, nontrivial=True)
        replay = dict(op='c03-e2e', label=label, doc=text, result=r, cmd="printf '0\\t-\\t<doc>\\n' | rvh c03-e2e")
        if 'crash' in r or 'panic' in r:
            what = "stack overflow / abort" if str(r.get('crash', '')).startswith('signal') else \
                   ("hang" if r.get('crash') == 'timeout' else "panic")
            ctx.violation("%s while parsing a document with cyclic references (%s): %s" % (what, label, str(r)[:160]), replay)
            e2e_bad += 1
            verdicts.append(4)
            continue
        if 'error' in r:
            verdicts.append(2)
            if d == 'err-allowed' and 'limit' in r['error']:
                continue            # a genuine depth / size limit, not a loop
            ctx.violation("the whole document is lost (%s) for %s" % (r['error'], label), replay)
            e2e_bad += 1
            continue
        if (text.startswith('@') or isinstance(d, str)) and d != 'file-with-witness':
            verdicts.append(0)
            continue                    # corpus / witness files have no witness shape: parsing and rendering is the check
        bad = witness_ok(r, extra=not text.startswith('@') and not isinstance(d, str) and not label.startswith('use-family'))
        if not bad and label == 'textpath switch several children':
            ids = set(n.get('id') for n in r.get('nodes', []))
            if 'sw_sel' not in ids or ids & {'sw_no1', 'sw_no2'}:
                bad = "switch: exactly the first child whose conditions pass is converted; tree has %s" % sorted(ids)
        if not bad and label == 'use-family flist keep':
            ids = set(n.get('id') for n in r.get('nodes', []))
            if not {'k1', 'k2', 'k3'} <= ids or 'k4' in ids:
                bad = "filter lists: an element whose list has a valid entry must stay, one whose every url is dangling must go; tree has %s" % sorted(ids)
        verdicts.append(1 if bad else 0)
        if bad:
            ctx.violation("%s (%s)" % (bad, label), replay)
            e2e_bad += 1
        if e2e_bad > 8:
            break
    ctx.cov['e2e_cases'] = len(docs)
    ctx.cov['e2e_kinds'] = hist
    ctx.add_sample(dict(op='c03-e2e', label=docs[min(n_files, len(docs) - 1)][0], doc=docs[min(n_files, len(docs) - 1)][2]))
    ctx.add_sample(dict(op='c03-e2e', label=docs[-4][0], doc=docs[-4][2]))

    # ------------------------------------------------------------------ K: prepass + names correspondence, model verdicts
    sel = [i for i, (_, d, _) in enumerate(docs) if d is not None and not isinstance(d, str) and not getattr(d, 'nomodel', False)]
    touts = ctx.rvh_batch(binp, 'c03-svgtree', [items[i] for i in sel], per_item_timeout=4, chunk=40)
    pre_items, nm_items, vd_items, usable = [], [], [], []
    for i, o in zip(sel, touts):
        try:
            t = json.loads(o)
            e = json.loads(outs[i]) if outs[i] else {'crash': 1}
        except (TypeError, ValueError):
            continue
        if 'crash' in t or 'panic' in t or 'crash' in e or 'panic' in e:
            continue
        names = G.Names()
        term = G.to_coq(docs[i][1], names)
        pre_items.append("(%s, %s)" % (term, impl_table(t, names)))
        nm_items.append("(%s, %s)" % (term, impl_names(e, names)))
        usable.append(i)
    model_ok = True
    if usable:
        chunks = [list(range(k, min(len(usable), k + 1500))) for k in range(0, len(usable), 1500)]
        bad_pre, bad_nm, bad_impl, bad_frame, mverd = [], [], [], [], {}
        def eval_chunk(args):
            ci, ch = args
            body = ("From Coq Require Import ZArith NArith List.\nImport ListNotations.\n"
                    "Definition pre : list (xnode * option (Z * list (nat * akey * N))) := [\n%s\n].\n"
                    "Definition nms : list (xnode * option (list N)) := [\n%s\n].\n"
                    "Eval vm_compute in (bad_idx chk_prepass pre).\n"
                    "Eval vm_compute in (bad_idx chk_names nms).\n"
                    "Eval vm_compute in (bad_idx chk_impl_prepass pre).\n"
                    "Eval vm_compute in (bad_idx chk_impl_frame pre).\n"
                    "Eval vm_compute in (map (fun p => model_verdict %d%%N (fst p)) pre).\n"
                    % (";\n".join(pre_items[j] for j in ch), ";\n".join(nm_items[j] for j in ch), G.WITNESS_N))
            return ctx.coq_eval('k_c03_%d' % ci, body, IMPORTS, timeout=1200)
        import concurrent.futures as cf
        with cf.ThreadPoolExecutor(max_workers=6) as ex:
            evals = list(ex.map(eval_chunk, list(enumerate(chunks))))
        for (ci, ch), (rc, out) in zip(enumerate(chunks), evals):
            lists = re.findall(r"=\s*\[(.*?)\]\s*:\s*list", out, re.S) if rc == 0 else []
            if len(lists) != 5:
                model_ok = False
                ctx.log("model evaluation failed:\n" + out[-1500:])
                break
            pl = [int(re.sub(r"%\w+", "", x).strip()) for x in lists[0].split(';') if x.strip()]
            nl = [int(re.sub(r"%\w+", "", x).strip()) for x in lists[1].split(';') if x.strip()]
            il = [int(re.sub(r"%\w+", "", x).strip()) for x in lists[2].split(';') if x.strip()]
            fl = [int(re.sub(r"%\w+", "", x).strip()) for x in lists[3].split(';') if x.strip()]
            vl = [int(re.sub(r"%\w+", "", x).strip()) for x in lists[4].split(';') if x.strip()]
            bad_frame += [usable[ch[b]] for b in fl]
            bad_impl += [usable[ch[b]] for b in il]
            bad_pre += [usable[ch[b]] for b in pl]
            bad_nm += [usable[ch[b]] for b in nl]
            for j, v in zip(ch, vl):
                mverd[usable[j]] = v
        if model_ok:
            ctx.cov['correspondence_cases'] = 2 * len(usable)
            ctx.cov['frame_cases'] = len(usable)
            for i in bad_pre[:3]:
                ctx.violation("svgtree pre-pass: model and implementation disagree on the neutralised references (%s)" % docs[i][0],
                              dict(op='c03-svgtree', label=docs[i][0], doc=docs[i][2],
                                   impl=json.loads(touts[sel.index(i)]), cmd="printf '0\\t-\\t<doc>\\n' | rvh c03-svgtree"))
            for i in bad_impl[:3]:
                ctx.violation("svgtree pre-pass leaves a reference cycle of length <= 2 in the tree it returns (%s)" % docs[i][0],
                              dict(op='c03-svgtree', label=docs[i][0], doc=docs[i][2],
                                   impl=json.loads(touts[sel.index(i)]), cmd="printf '0\\t-\\t<doc>\\n' | rvh c03-svgtree"))
            for i in bad_frame[:3]:
                ctx.violation("svgtree pre-pass removes a reference that is not on a cycle of length <= 2, or adds one "
                              "(C03_prepass_frame; %s)" % docs[i][0],
                              dict(op='c03-svgtree', label=docs[i][0], doc=docs[i][2],
                                   impl=json.loads(touts[sel.index(i)]), cmd="printf '0\\t-\\t<doc>\\n' | rvh c03-svgtree"))
            for i in bad_nm[:3]:
                ctx.violation("converter: model and implementation disagree on which elements survive (%s)" % docs[i][0],
                              dict(op='c03-e2e', label=docs[i][0], doc=docs[i][2], impl=json.loads(outs[i])))
            # the model's verdict: every generated document parses to a tree that contains the witness
            shown = {1: 0, 2: 0, 3: 0}
            for i, mv in mverd.items():
                if mv in shown:
                    shown[mv] += 1
                    if shown[mv] > 3:
                        continue
                if mv == 3:
                    ctx.violation("model ran out of fuel on %s" % docs[i][0], dict(doc=docs[i][2], label=docs[i][0]))
                if mv == 2:
                    ctx.violation("model: the document is rejected (%s)" % docs[i][0], dict(doc=docs[i][2], label=docs[i][0]))
                if mv == 1:
                    ctx.violation("model: the witness shape is lost (%s)" % docs[i][0], dict(doc=docs[i][2], label=docs[i][0]))
            ctx.cov['model_verdicts'] = dict((str(k), sum(1 for v in mverd.values() if v == k)) for k in range(4))
    else:
        model_ok = False

    # ------------------------------------------------------------------ nested documents (image / feImage -> load_sub_svg)
    nest_ok = nested_documents(ctx, binp, 30 if quick else 400)
    model_ok = model_ok and nest_ok

    # ------------------------------------------------------------------ broken proof / tie: nothing found above -> say so
    if not proof_ok:
        if not ctx.violations:
            ctx.violation("C03 proof obligations no longer check: %s %s" % (res['failed'] + res['audit'], [b['name'] + ': ' + b['err'][:200] for b in broken]),
                          dict(failed_files=res['failed'], audit=res['audit'], broken_ties=broken, log_tail=res['log'][-3000:]),
                          found_input=False)
        else:
            ctx.log("proof obligations no longer check: %s %s (failing inputs reported above)" % (res['failed'] + res['audit'], [b['name'] for b in broken]))
    if not model_ok and proof_ok:
        ctx.violation("model evaluation for the correspondence failed", dict(), found_input=False)
    ctx.cov['rule'] = ("every simple reference cycle of length 1..3 (quick: all of length <= 2 and a seeded quarter of length 3; thorough: all <= 3 and 1/12 of "
                       "length 4) over the 11 link kinds x link on the element / on a child, entered directly or through a non-cyclic element, units flag "
                       "varied; random graphs of 2..12 elements with 1-2 references each, mixed kinds, dangling targets; hand-written use shapes at the class "
                       "boundary; the F01/F02 witnesses and the corpus recursive-* files.  A case is distinct by document text.")


def nested_documents(ctx, binp, nrand):
    """K + S for Model/LinksNest.v: file systems with self-including files, data: documents, feImage; the trees the real
    parser builds are compared with `load` inside Coq (chk_nest) and bounded guard-free (chk_nest_bound)."""
    import shutil
    base = os.path.join(ctx.workdir, 'nest')
    shutil.rmtree(base, ignore_errors=True)
    fam = G.nest_family(ctx.rng, nrand)
    items = []
    for n, (label, files, top, fe) in enumerate(fam):
        dirp = os.path.join(base, str(n))
        os.makedirs(dirp, exist_ok=True)
        for i, f in enumerate(files):
            if f is not None:
                with open(G.nest_path(dirp, i), 'w') as fh:
                    fh.write(G.nest_svg(f, dirp))
        with open(os.path.join(dirp, 'top.svg'), 'w') as fh:
            fh.write(G.nest_svg(top, dirp, top=True, fe_last=fe))
        items.append("-\t@" + os.path.join(dirp, 'top.svg'))
    outs = ctx.rvh_batch(binp, 'c03-nest', items, per_item_timeout=4, chunk=6)
    terms, idx = [], []
    n_bad = 0
    for n, ((label, files, top, fe), o) in enumerate(zip(fam, outs)):
        if n_bad >= 3:
            break
        ctx.note_case('nest:' + items[n] + repr((files, top, fe)), nontrivial=bool(top))
        try:
            r = json.loads(o)
        except (TypeError, ValueError):
            r = {'crash': 'unparsable output'}
        replay = dict(op='c03-nest', label=label, doc=items[n].split('\t', 1)[1], files=files, top=top, result=r,
                      cmd="printf '0\\t-\\t@<dir>/top.svg\\n' | rvh c03-nest")
        if 'crash' in r or 'panic' in r:
            what = "stack overflow / abort" if str(r.get('crash', '')).startswith('signal') else ("hang" if r.get('crash') == 'timeout' else "panic")
            ctx.violation("%s while loading nested documents (C03_nested_documents_bounded; %s): %s" % (what, label, str(r)[:160]), replay)
            n_bad += 1
            continue
        if 'error' in r:
            ctx.violation("the whole document is lost (%s) for nested documents: %s" % (r['error'], label), replay)
            n_bad += 1
            continue
        if not any(x.get('id') == 'vf_witness' and x.get('bbox') == [70.0, 70.0, 20.0, 20.0] for x in r.get('nodes', [])) or not r.get('rendered'):
            ctx.violation("independent shape lost / not rendered next to nested documents (%s)" % label, replay)
            continue
        lt = G.nest_parse(r.get('nest', ''))
        terms.append("(%s, %s)" % (G.nest_coq(files, top), "Some (%s)" % lt if lt else "None"))
        idx.append((n, replay))
    ctx.cov['nested_document_cases'] = len(fam)
    if not terms:
        return True
    body = ("From Coq Require Import List.\nImport ListNotations.\n"
            "Fixpoint bad_from {A} (f : A -> bool) (l : list A) (i : nat) : list nat :=\n"
            "  match l with [] => [] | x :: r => if f x then bad_from f r (S i) else i :: bad_from f r (S i) end.\n"
            "Definition cs : list (list (option idoc) * idoc * option ltree) := [\n%s\n].\n"
            "Eval vm_compute in (bad_from chk_nest cs 0).\n"
            "Eval vm_compute in (bad_from chk_nest_bound cs 0).\n" % ";\n".join(terms))
    rc, out = ctx.coq_eval('k_c03_nest', body, NEST_IMPORTS, timeout=300)
    lists = re.findall(r"=\s*\[(.*?)\]\s*:\s*list", out, re.S) if rc == 0 else []
    if len(lists) != 2:
        ctx.log("nested-document model evaluation failed:\n" + out[-1500:])
        return False
    bad_model = [int(re.sub(r"%\w+", "", x).strip()) for x in lists[0].split(';') if x.strip()]
    bad_bound = [int(re.sub(r"%\w+", "", x).strip()) for x in lists[1].split(';') if x.strip()]
    for b in bad_bound[:3]:
        n, replay = idx[b]
        ctx.violation("nested documents are loaded deeper than one level / more than once per reference "
                      "(C03_nested_documents_bounded; %s): %s" % (fam[n][0], replay['result'].get('nest')), replay)
    for b in [x for x in bad_model if x not in bad_bound][:3]:
        n, replay = idx[b]
        ctx.violation("nested documents: model and implementation disagree on the loaded trees (%s): %s" % (fam[n][0], replay['result'].get('nest')), replay)
    return True


def use_family():
    """use shapes around the guards of parse_svg_use_element (all of them parse since fix 1c16806)"""
    E = G.El
    out = []

    def doc(label, kids):
        out.append(("use-family " + label, G.number(E('svg', kids=kids))))
    doc("self", [E('use', 'u1').add('href', 'u1')])
    doc("use<->use", [E('use', 'u1').add('href', 'u2'), E('use', 'u2').add('href', 'u1')])
    doc("g contains use of g", [E('g', 'a', kids=[E('use').add('href', 'a'), E('path')])])
    doc("use->g->use->use", [E('g', 'g1', kids=[E('use', 'u2').add('href', 'u1')]), E('use', 'u1').add('href', 'g1')])
    doc("g<->g (2 containers)", [E('g', 'a', kids=[E('use').add('href', 'b')]), E('g', 'b', kids=[E('use').add('href', 'a')])])
    doc("g->g->g (3 containers)", [E('g', 'a', kids=[E('use').add('href', 'b')]), E('g', 'b', kids=[E('use').add('href', 'c')]),
                                   E('g', 'c', kids=[E('use').add('href', 'a')])])
    doc("use->use->use", [E('use', 'u1').add('href', 'u2'), E('use', 'u2').add('href', 'u3'), E('use', 'u3').add('href', 'u1')])
    doc("acyclic chain", [E('g', 'a', kids=[E('use').add('href', 'b')]), E('g', 'b', kids=[E('use').add('href', 'c')]),
                          E('g', 'c', kids=[E('path')])])
    doc("diamond", [E('g', 'a', kids=[E('use').add('href', 'c'), E('use').add('href', 'c')]), E('g', 'c', kids=[E('path')])])
    # frame clause of the pre-pass (extension round 4): references that look like a loop to a careless scan but are not on a
    # cycle through a clipPath / mask / filter: a container that is referenced from inside itself, acyclic chains with a user
    for attr, tag in (('clip-path', 'clipPath'), ('mask', 'mask'), ('filter', 'filter')):
        doc("frame %s: g referenced from inside" % attr, [E('g', 'a', kids=[E('path').add(attr, 'a'), E('path')])])
        if tag != 'filter':
            doc("frame %s: acyclic chain with users" % attr,
                [E(tag, 'c1', kids=[E('path')]).add(attr, 'c2'), E(tag, 'c2', kids=[E('path')]),
                 E('path').add(attr, 'c1'), E('g', kids=[E('path').add(attr, 'c2')])])
            # rho shape (tail + cycle): m0 -> m1 -> m2 -> m3 -> m1, all cacheable (userSpaceOnUse), two users
            doc("frame %s: rho chain" % attr,
                [E(tag, 'm0', True, kids=[E('path')]).add(attr, 'm1'), E(tag, 'm1', True, kids=[E('path')]).add(attr, 'm2'),
                 E(tag, 'm2', True, kids=[E('path')]).add(attr, 'm3'), E(tag, 'm3', True, kids=[E('path')]).add(attr, 'm1'),
                 E('path').add(attr, 'm0'), E('path').add(attr, 'm0')])
            doc("frame %s: g <-> definition" % attr,
                [E('g', 'a', kids=[E('path').add(attr, 'c1')]), E(tag, 'c1', kids=[E('path').add(attr, 'a')])])
    # filter lists (second pass): a list with one valid entry (or a function) next to a dangling url keeps its element; only a list
    # whose every url is invalid and that produced no filter drops it (checked on the implementation: ids k1..k3 present, k4 absent)
    doc("flist keep", [E('filter', 'f', True, kids=[E('feFlood')]),
                       E('path', 'k1').add('filter', ['f', 'vf_missing']), E('path', 'k2').add('filter', ['vf_missing', 'f']),
                       E('path', 'k3').add('filter', [None, 'vf_missing']), E('path', 'k4').add('filter', ['vf_missing', 'vf_missing'])])
    return out


def replay(ctx, path):
    r = json.load(open(path))
    print(json.dumps(r, indent=1)[:6000])
    rp = r.get('replay', {})
    doc = rp.get('doc')
    if not doc:
        return 0
    binp, _ = ctx.harness('release')
    if binp is None:
        print("harness does not build")
        return 1
    for op in (('c03-nest',) if rp.get('op') == 'c03-nest' else ('c03-e2e', 'c03-svgtree')):
        o = ctx.rvh_batch(binp, op, ["-\t" + doc], per_item_timeout=10)
        print("%s -> %s" % (op, str(o[0])[:2000]))
    return 0
