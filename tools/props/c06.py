"""C06  Results are reproducible: same input gives the same bytes, always.   (label: PARTIAL)

Proved (Coq, over the ledger Gen/C06Sites.v regenerated from /repo's library sources on every run):
hash containers are used through the lookup interface only + the container model is order-oblivious for
that interface; hashers have fixed keys; no shared mutable state / ambient inputs; forbid(unsafe_code);
one Cache per convert_doc; generated-id counters (shape of every gen_*_id, independence, storage
independence); Arc::make_mut isolation.

Observed only (e2e-C06, where the schedule / history quantifiers of the property live): thread
interleavings, allocator reuse, OS, third-party crates (fontdb, rustybuzz, tiny-skia ...).  A model cannot
exhibit those, so byte equality of Tree::to_string and of the pixmap is checked across repeated calls,
permuted processing orders, 2..16 threads sharing one Tree / one Arc<fontdb>, and fresh processes.
"""
import json
import os
import re
import subprocess

import vlib

NS = 'xmlns="http://www.w3.org/2000/svg" xmlns:xlink="http://www.w3.org/1999/xlink"'
SITE_IMPORTS = ['Model.HashModel', 'Gen.C06Sites', 'Gen.C06BinSites', 'Model.C06Chk']


# ------------------------------------------------------------------------------------------------
# generated documents: many ids, generated-id clashes, every cache (clip / mask / filter / paint), text
# ------------------------------------------------------------------------------------------------
def gen_doc(rng):
    clash = ['clipPath1', 'clipPath2', 'mask1', 'filter1', 'filter2', 'pattern1', 'linearGradient1',
             'radialGradient1', 'image1', 'result1', 'result2']
    names = ['n%d' % i for i in range(40)] + clash
    rng.shuffle(names)
    used = []

    def nid():
        x = names.pop()
        used.append(x)
        return x
    defs = []
    servers, clips, masks, filters = [], [], [], []
    for _ in range(3 + rng.below(14)):
        k = rng.below(6)
        units = rng.choice(['objectBoundingBox', 'userSpaceOnUse'])
        i = nid()
        if k == 0:
            href = ' xlink:href="#%s"' % rng.choice(servers) if servers and rng.below(3) == 0 else ''
            defs.append('<linearGradient id="%s" gradientUnits="%s"%s><stop offset="0" stop-color="#%06x"/>'
                        '<stop offset="1" stop-color="#%06x"/></linearGradient>' % (i, units, href, rng.below(1 << 24), rng.below(1 << 24)))
            servers.append(i)
        elif k == 1:
            defs.append('<radialGradient id="%s" gradientUnits="%s"><stop offset="0.2" stop-color="#%06x"/>'
                        '<stop offset="0.9" stop-color="#%06x" stop-opacity="0.5"/></radialGradient>'
                        % (i, units, rng.below(1 << 24), rng.below(1 << 24)))
            servers.append(i)
        elif k == 2:
            fill = 'url(#%s)' % rng.choice(servers) if servers and rng.below(2) else '#%06x' % rng.below(1 << 24)
            wh = '0.25' if units == 'objectBoundingBox' else '12'
            defs.append('<pattern id="%s" patternUnits="%s" patternContentUnits="%s" width="%s" height="%s">'
                        '<rect width="%s" height="%s" fill="%s"/><circle cx="3" cy="3" r="2" fill="blue"/></pattern>'
                        % (i, units, rng.choice(['objectBoundingBox', 'userSpaceOnUse']), wh, wh,
                           '0.1' if rng.below(2) else '6', '0.1' if rng.below(2) else '6', fill))
            servers.append(i)
        elif k == 3:
            inner = ' clip-path="url(#%s)"' % rng.choice(clips) if clips and rng.below(3) == 0 else ''
            geo = ('<circle cx="0.5" cy="0.5" r="0.45"/>' if units == 'objectBoundingBox'
                   else '<circle cx="%d" cy="%d" r="%d"/>' % (30 + rng.below(60), 30 + rng.below(60), 20 + rng.below(40)))
            defs.append('<clipPath id="%s" clipPathUnits="%s"%s>%s</clipPath>' % (i, units, inner, geo))
            clips.append(i)
        elif k == 4:
            inner = ' mask="url(#%s)"' % rng.choice(masks) if masks and rng.below(3) == 0 else ''
            defs.append('<mask id="%s" maskContentUnits="%s"%s><rect %s fill="white" fill-opacity="0.7"/></mask>'
                        % (i, units, inner,
                           'x="0.1" y="0.1" width="0.8" height="0.8"' if units == 'objectBoundingBox'
                           else 'x="10" y="10" width="150" height="150"'))
            masks.append(i)
        else:
            prims = []
            for _ in range(1 + rng.below(4)):
                res = rng.choice(['', ' result="result1"', ' result="result2"', ' result="r%d"' % rng.below(3)])
                inp = rng.choice(['', ' in="SourceGraphic"', ' in="result1"', ' in="r0"', ' in="SourceAlpha"'])
                p = rng.below(4)
                if p == 0:
                    prims.append('<feGaussianBlur stdDeviation="%d"%s%s/>' % (1 + rng.below(3), inp, res))
                elif p == 1:
                    prims.append('<feOffset dx="%d" dy="%d"%s%s/>' % (rng.below(7), rng.below(7), inp, res))
                elif p == 2:
                    prims.append('<feFlood flood-color="#%06x" flood-opacity="0.5"%s/>' % (rng.below(1 << 24), res))
                else:
                    prims.append('<feBlend mode="multiply" in2="SourceGraphic"%s%s/>' % (inp, res))
            defs.append('<filter id="%s" primitiveUnits="%s">%s</filter>' % (i, rng.choice(['userSpaceOnUse', 'objectBoundingBox']), ''.join(prims)))
            filters.append(i)
    body = []
    for _ in range(3 + rng.below(12)):
        a = ''
        if rng.below(4):
            a += ' id="%s"' % nid()
        if servers and rng.below(2):
            a += ' fill="url(#%s)"' % rng.choice(servers)
        else:
            a += ' fill="#%06x"' % rng.below(1 << 24)
        if servers and rng.below(3) == 0:
            a += ' stroke="url(#%s)" stroke-width="3"' % rng.choice(servers)
        if clips and rng.below(3) == 0:
            a += ' clip-path="url(#%s)"' % rng.choice(clips)
        if masks and rng.below(3) == 0:
            a += ' mask="url(#%s)"' % rng.choice(masks)
        if filters and rng.below(3) == 0:
            a += ' filter="url(#%s)"' % rng.choice(filters)
        x, y, w, h = 5 + rng.below(120), 5 + rng.below(120), 10 + rng.below(70), 10 + rng.below(70)
        sh = rng.below(4)
        if sh == 0:
            body.append('<rect x="%d" y="%d" width="%d" height="%d"%s/>' % (x, y, w, h, a))
        elif sh == 1:
            body.append('<ellipse cx="%d" cy="%d" rx="%d" ry="%d"%s/>' % (x + w // 2, y + h // 2, w // 2, h // 2, a))
        elif sh == 2:
            body.append('<g%s><rect x="%d" y="%d" width="%d" height="%d"/><use xlink:href="#%s" x="4" y="4"/></g>'
                        % (a, x, y, w, h, used[rng.below(len(used))]))
        else:
            body.append('<text x="%d" y="%d" font-family="%s" font-size="%d"%s>Ab%d <tspan font-family="%s">gj</tspan></text>'
                        % (x, y + 20, rng.choice(['Noto Sans', 'Noto Serif', 'Noto Mono', 'serif']), 12 + rng.below(24), a,
                           rng.below(100), rng.choice(['Noto Sans', 'Noto Mono', 'monospace'])))
    return '<svg %s width="200" height="200" viewBox="0 0 200 200"><defs>%s</defs>%s</svg>' % (NS, ''.join(defs), ''.join(body))


# ------------------------------------------------------------------------------------------------
# history dimension: DIFFERENT raster images that agree in kind, byte length and leading 256 bytes
# ------------------------------------------------------------------------------------------------
def stored_png(w, h, rows):
    """RGBA8 PNG with an uncompressed (stored) deflate stream: the length does not depend on the pixels."""
    import struct
    import zlib

    def chunk(t, d):
        return struct.pack('>I', len(d)) + t + d + struct.pack('>I', zlib.crc32(t + d) & 0xffffffff)
    raw = b''.join(b'\x00' + r for r in rows)
    z = b'\x78\x01'
    pos = 0
    while pos < len(raw):
        blk = raw[pos:pos + 65535]
        pos += len(blk)
        z += bytes([1 if pos >= len(raw) else 0]) + struct.pack('<HH', len(blk), len(blk) ^ 0xffff) + blk
    z += struct.pack('>I', zlib.adler32(raw) & 0xffffffff)
    return b'\x89PNG\r\n\x1a\n' + chunk(b'IHDR', struct.pack('>IIBBBBB', w, h, 8, 6, 0, 0, 0)) + chunk(b'IDAT', z) + chunk(b'IEND', b'')


def image_pair_docs(rng, n):
    """n pairs (docA, docB): one <image> each, data-URL PNGs of equal size, length and first 256 bytes, different later rows"""
    import base64
    out = []
    for _ in range(n):
        w, h = rng.choice([(16, 16), (24, 12), (10, 40), (32, 32), (8, 64)])
        same_rows = (256 // (1 + 4 * w)) + 2
        base = [bytes([rng.below(256), rng.below(256), rng.below(256), 255]) * w for _ in range(h)]
        a = list(base)
        b = list(base)
        for y in range(same_rows, h):
            a[y] = bytes([rng.below(256), rng.below(256), rng.below(256), 255]) * w
            b[y] = bytes([255 - a[y][0], rng.below(256), 255 - a[y][2], 255]) * w
        pa, pb = stored_png(w, h, a), stored_png(w, h, b)
        assert len(pa) == len(pb) and pa[:256] == pb[:256] and pa != pb
        docs = []
        for png in (pa, pb):
            href = 'data:image/png;base64,' + base64.b64encode(png).decode()
            docs.append('<svg %s width="%d" height="%d"><rect width="%d" height="%d" fill="#eee"/>'
                        '<image x="2" y="2" width="%d" height="%d" xlink:href="%s"/></svg>' % (NS, w + 4, h + 4, w + 4, h + 4, w, h, href))
        out.append(tuple(docs))
    return out


# ------------------------------------------------------------------------------------------------
# the shipped binaries in fresh processes (several font sources: the order of faces must follow argv)
# ------------------------------------------------------------------------------------------------
CLI_TEXT_DOCS = [
    '<svg %s width="260" height="60"><text x="4" y="40" font-family="Noto Color Emoji" font-size="28">A\U0001F600Bq 12 \u0416</text></svg>',
    '<svg %s width="260" height="60"><text x="4" y="40" font-family="Noto Sans Devanagari" font-size="26">\u0915 Latin gjy \u0416\u4f60</text></svg>',
    '<svg %s width="300" height="80"><text x="4" y="30" font-family="Yellowtail" font-size="22">Ab \u0416 \u4f60 \u0627\u0628</text>'
    '<text x="4" y="70" font-family="Noto Mono" font-weight="bold" font-size="22">\u03a9 \u0915 \u4f60 w</text></svg>',
]


def cli_fresh_oracle(ctx, rounds):
    import shutil
    import subprocess
    from props import c20
    rb, ub, clog = c20.build_cli(ctx)
    if rb is None:
        ctx.violation("the resvg/usvg binaries do not build from the current tree (fresh-process CLI oracle cannot run)",
                      dict(build_log=clog[-2000:]), found_input=False)
        return
    wd = os.path.join(ctx.workdir, 'cli-%d' % ctx.seed)
    shutil.rmtree(wd, ignore_errors=True)
    os.makedirs(wd)
    try:
        fdir = os.path.join(vlib.REPO, 'crates/resvg/tests/fonts')
        fonts = sorted(f for f in os.listdir(fdir) if f.endswith(('.ttf', '.otf')))
        groups = {'d1': [], 'd2': [], 'd3': []}
        singles = []
        for i, f in enumerate(fonts):
            if f.startswith(('Yellowtail', 'SedgwickAve')):
                singles.append(f)
            else:
                groups['d%d' % (i % 3 + 1)].append(f)
        for d, fs in groups.items():
            os.makedirs(os.path.join(wd, d))
            for f in fs:
                shutil.copy(os.path.join(fdir, f), os.path.join(wd, d, f))
        for f in singles:
            shutil.copy(os.path.join(fdir, f), os.path.join(wd, f))
        fargs = ['--skip-system-fonts']
        for d in ('d1', 'd2', 'd3'):
            fargs += ['--use-fonts-dir', os.path.join(wd, d)]
        for f in singles:
            fargs += ['--use-font-file', os.path.join(wd, f)]
        # the same path twice is legal and must not matter
        fargs += ['--use-fonts-dir', os.path.join(wd, 'd2')]
        ncmp = 0
        for k, tmpl in enumerate(CLI_TEXT_DOCS):
            doc = tmpl % NS
            inp = os.path.join(wd, 't%d.svg' % k)
            with open(inp, 'w', encoding='utf-8') as f:
                f.write(doc)
            for tool, binp, ext in (('resvg', rb, 'png'), ('usvg', ub, 'svg')):
                outs = []
                for r in range(rounds):
                    outp = os.path.join(wd, 't%d-%d.%s' % (k, r, ext))
                    p = subprocess.run([binp] + fargs + [inp, outp], stdout=subprocess.PIPE, stderr=subprocess.PIPE, timeout=300, cwd=wd)
                    data = open(outp, 'rb').read() if os.path.exists(outp) else b''
                    outs.append((p.returncode, data))
                    ncmp += 1
                ctx.note_case("cli-fresh/%s/%d/%s" % (tool, k, vlib.hashlib.sha256(outs[0][1]).hexdigest()[:16]),
                              nontrivial=(outs[0][0] == 0 and len(outs[0][1]) > 200))
                if outs[0][0] != 0 or not outs[0][1]:
                    ctx.violation("%s failed on a text document with several font sources (exit %s)" % (tool, outs[0][0]),
                                  dict(kind='cli-fresh', tool=tool, doc=doc, font_args=[a.replace(wd, '<wd>') for a in fargs]))
                    continue
                distinct = sorted(set(vlib.hashlib.sha256(d).hexdigest()[:16] + ':%d' % rc for rc, d in outs))
                if len(distinct) > 1:
                    ctx.violation("not reproducible across processes: %d runs of the %s binary on the same text document with the same "
                                  "--use-fonts-dir/--use-font-file arguments give %d different outputs" % (rounds, tool, len(distinct)),
                                  dict(kind='cli-fresh', tool=tool, doc=doc, font_args=[a.replace(wd, '<wd>') for a in fargs],
                                       outputs=distinct, rounds=rounds))
        # the same stdin bytes delivered through a pipe in different chunkings must give the same output in every process
        nchunk = c20.stdin_chunk_oracle(ctx, rb, ub, wd, rounds <= 6)
        ctx.cov['e2e_cli_fresh_process'] = dict(documents=len(CLI_TEXT_DOCS), tools=2, rounds=rounds, runs=ncmp, stdin_chunk_runs=nchunk)
    finally:
        shutil.rmtree(wd, ignore_errors=True)


# ------------------------------------------------------------------------------------------------
# history search (round 4): documents aimed at the places where state could be kept between calls
# (pixmap pools, scratch buffers, nesting / budget counters, memo tables), rendered k times in a row on one
# long-lived thread and compared with a fresh thread.
# ------------------------------------------------------------------------------------------------
def state_docs(rng, n):
    docs = []
    for _ in range(n):
        kind = rng.below(4)
        w = 40 + 8 * rng.below(6)
        if kind == 0:
            # many uses of a pattern whose tile rounds to zero device pixels (early return in render_pattern_pixmap),
            # then a valid pattern
            tiny = '<pattern id="t" patternUnits="userSpaceOnUse" width="0.%s1" height="0.0001"><rect width="1" height="1"/></pattern>' % ('0' * (3 + rng.below(3)))
            good = '<pattern id="g" patternUnits="userSpaceOnUse" width="8" height="8"><rect width="4" height="4" fill="#%06x"/></pattern>' % rng.below(1 << 24)
            body = ''.join('<rect x="%d" y="2" width="6" height="6" fill="url(#t)"/>' % (2 + 7 * i) for i in range(3 + rng.below(9)))
            body += '<rect x="4" y="20" width="%d" height="40" fill="url(#g)" stroke="url(#g)" stroke-width="3"/>' % (w - 8)
            docs.append('<svg %s width="%d" height="70">%s%s%s</svg>' % (NS, w + 30, tiny, good, body))
        elif kind == 1:
            # intermediate filter results of one region size, then a primitive that does not write every pixel
            sc = 30 + rng.below(200)
            flt = ('<filter id="f" filterUnits="userSpaceOnUse" x="0" y="0" width="%d" height="%d">'
                   '<feFlood flood-color="#%06x" result="a"/><feOffset in="SourceGraphic" dx="%d" dy="3" result="b"/>'
                   '<feTurbulence baseFrequency="0.0%d" numOctaves="2" seed="%d" result="n"/>'
                   '<feDisplacementMap in="b" in2="n" scale="%d" xChannelSelector="R" yChannelSelector="G" result="d"/>'
                   '<feMerge><feMergeNode in="d"/></feMerge></filter>' % (w, w, rng.below(1 << 24), 1 + rng.below(6), 3 + rng.below(6), rng.below(50), sc))
            # mostly ONE filtered element: a second application of the same filter in the same render would already see
            # the left-overs of the first one in a fresh thread too, and the baseline would contain the effect
            second = ('<rect x="3" y="3" width="%d" height="%d" fill="#%06x" filter="url(#f)"/>' % (w // 2, w // 3, rng.below(1 << 24))
                      if rng.below(4) == 0 else '<rect x="3" y="3" width="%d" height="%d" fill="#%06x"/>' % (w // 2, w // 3, rng.below(1 << 24)))
            docs.append('<svg %s width="%d" height="%d">%s<circle cx="%d" cy="%d" r="%d" fill="#%06x" filter="url(#f)"/>%s</svg>'
                        % (NS, w, w, flt, w // 2, w // 2, w // 3, rng.below(1 << 24), second))
        elif kind == 2:
            # small-deviation blurs (IIR kernel with a working buffer), several sizes
            parts = ''.join('<filter id="b%d"><feGaussianBlur stdDeviation="%d.%d %d.%d"/></filter>'
                            '<rect x="%d" y="%d" width="%d" height="%d" fill="#%06x" filter="url(#b%d)"/>'
                            % (i, rng.below(2), 1 + rng.below(9), rng.below(2), 1 + rng.below(9), 4 + 9 * i, 4 + 5 * i, 10 + 3 * i, 12 + 2 * i, rng.below(1 << 24), i)
                            for i in range(2 + rng.below(4)))
            docs.append('<svg %s width="%d" height="%d">%s</svg>' % (NS, w + 20, w, parts))
        else:
            # nested groups with opacity / masks / clips (layer pixmaps of equal sizes) and nested patterns
            inner = '<rect x="5" y="5" width="%d" height="%d" fill="#%06x"/>' % (w - 10, w - 10, rng.below(1 << 24))
            for d in range(2 + rng.below(5)):
                inner = '<g opacity="0.%d"%s>%s<circle cx="%d" cy="%d" r="%d" fill="#%06x"/></g>' % (
                    3 + rng.below(6), ' mask="url(#m)"' if rng.below(3) == 0 else (' clip-path="url(#c)"' if rng.below(3) == 0 else ''),
                    inner, 10 + 3 * d, 12 + 2 * d, 5 + d, rng.below(1 << 24))
            docs.append('<svg %s width="%d" height="%d"><mask id="m"><rect width="%d" height="%d" fill="white" fill-opacity="0.6"/></mask>'
                        '<clipPath id="c"><circle cx="%d" cy="%d" r="%d"/></clipPath>'
                        '<pattern id="p1" patternUnits="userSpaceOnUse" width="10" height="10"><rect width="6" height="6" fill="red"/></pattern>'
                        '<pattern id="p2" patternUnits="userSpaceOnUse" width="20" height="20"><rect width="15" height="15" fill="url(#p1)"/></pattern>'
                        '%s<rect x="2" y="2" width="20" height="20" fill="url(#p2)"/></svg>'
                        % (NS, w, w, w, w, w // 2, w // 2, w // 2, inner))
    return docs


def history_oracle(ctx, binp, items, k):
    inp = "".join("%d\t%s\t%s\n" % (i, it[0], it[1]) for i, it in enumerate(items))
    rc, out = ctx.rvh(binp, ['c06-history', str(k)], inp=inp, timeout=120 + len(items) * (k + 2))
    done = None
    base = {}
    mism = []
    for line in out.splitlines():
        if '\t' not in line:
            continue
        a, b = line.split('\t', 1)
        try:
            v = json.loads(b)
        except ValueError:
            continue
        if a == 'MISMATCH':
            mism.append(v)
        elif a == 'DONE':
            done = v
        elif a.isdigit():
            base[int(a)] = v
    if rc != 0 or done is None:
        ctx.violation("e2e-C06 history pass (k renders in a row on one thread) died", dict(rc=rc, tail=out[-600:], k=k), found_input=False)
        return 0
    for i, v in base.items():
        ctx.note_case("e2e/history/%s" % v.get('p', ''), nontrivial=v.get('p', '-') not in ('-', 'nocanvas', 'toolarge'))
    for m in mism[:4]:
        it = items[int(m.get('idx', 0))]
        ctx.violation("history dependence: the pixels of one tree differ between a fresh thread and render %s (%s vs %s)"
                      % (m.get('phase'), str(m.get('base'))[:44], str(m.get('got'))[:44]),
                      dict(kind='history-renders', opts=it[0], doc=it[1], phase=m.get('phase'), base=m.get('base'), got=m.get('got'), k=k,
                           cmd="rvh c06-history %d  (stdin: 0<TAB>opts<TAB>doc)" % k))
    ctx.cov['e2e_history_renders'] = dict(items=len(items), k=k, comparisons=done.get('comparisons'), parsed=done.get('parsed'))
    return done.get('comparisons', 0)


def pick_items(ctx, quick):
    rng = ctx.rng
    files = vlib.corpus_files()
    if quick:
        groups = {}
        for f in files:
            groups.setdefault(os.path.dirname(f), []).append(f)
        sel = []
        for d in sorted(groups):
            sel += rng.sample(groups[d], min(2, len(groups[d])))
        # make sure text, filters and images are well represented
        for sub, k in (('/text/', 25), ('/filters/', 25), ('/structure/image/', 15), ('/masking/', 10)):
            pool = [f for f in files if sub in f and f not in sel]
            sel += rng.sample(pool, min(k, len(pool)))
    else:
        sel = list(files)
    wit = os.path.join(vlib.VERIF, 'corpus', 'witness')
    # F01-use is a text note; F05-like resource bombs are not in the directory.  Hanging / crashing witnesses are
    # excluded by the crash isolation below if they still misbehave.
    wfiles = sorted(os.path.join(wit, f) for f in os.listdir(wit) if f.endswith('.svg')) if os.path.isdir(wit) else []
    items = [('-', '@' + f) for f in sel] + [('-', '@' + f) for f in wfiles]
    ngen = 40 if quick else 400
    for _ in range(ngen):
        items.append(('-', gen_doc(rng)))
    return items, len(sel), len(wfiles), ngen


def run_e2e(ctx, binp, items, threads, reps, seed, jobs):
    """Split items over `jobs` concurrent `rvh c06-e2e` processes.  Returns (baseline list, mismatches, stats, failures)."""
    import concurrent.futures as cf
    n = len(items)
    base = [None] * n
    mism = []
    stats = []
    failures = []
    groups = [list(range(j, n, jobs)) for j in range(jobs)]

    def work(g):
        inp = "".join("%d\t%s\t%s\n" % (i, items[i][0], items[i][1]) for i in g)
        rc, out = ctx.rvh(binp, ['c06-e2e', str(seed), ','.join(map(str, threads)), str(reps)], inp=inp,
                          timeout=120 + 2 * len(g) * (reps + 2 + len(threads)))
        return g, rc, out
    with cf.ThreadPoolExecutor(max_workers=jobs) as ex:
        for g, rc, out in ex.map(work, [g for g in groups if g]):
            done = False
            for line in out.splitlines():
                if '\t' not in line:
                    continue
                k, v = line.split('\t', 1)
                if k == 'MISMATCH':
                    try:
                        mism.append(json.loads(v))
                    except ValueError:
                        mism.append(dict(raw=v))
                elif k == 'DONE':
                    done = True
                    try:
                        stats.append(json.loads(v))
                    except ValueError:
                        pass
                elif k.isdigit():
                    try:
                        base[int(k)] = json.loads(v)
                    except ValueError:
                        pass
            if rc != 0 or not done:
                failures.append(dict(group=g, rc=rc, tail=out[-600:]))
    return base, mism, stats, failures


def fresh_digests(ctx, binp, items, idxs):
    """one fresh process per item (chunk=1): fresh RandomState seeds, fresh allocator state"""
    outs = ctx.rvh_batch(binp, 'c06-digest', ["%s\t%s" % items[i] for i in idxs], chunk=1, per_item_timeout=60)
    res = {}
    for i, o in zip(idxs, outs):
        try:
            res[i] = json.loads(o)
        except (TypeError, ValueError):
            res[i] = dict(crash=str(o)[:200])
    return res


def doc_of(item):
    return item[1] if not item[1].startswith('@') else item[1][1:]


def offending_sites(ctx):
    """names of the ledger entries that the allowlists reject (for the violation text)"""
    body = ("Eval vm_compute in (map (fun h => (hs_file h, hs_fn h, hs_name h, hs_method h, hs_line h)) "
            "(filter (fun h => negb (hsite_ok h && hsite_resolved h)) c06_hash_sites)).\n"
            "Eval vm_compute in (map (fun h => (hs_file h, hs_fn h, hs_name h, hs_method h, hs_line h)) "
            "(filter (fun h => negb (ctor_ok h)) c06_hash_ctor_sites)).\n"
            "Eval vm_compute in (map (fun s => (ss_file s, ss_fn s, ss_kind s, ss_text s, ss_line s)) "
            "(filter (fun s => negb (ssite_ok s)) c06_shared_sites)).\n"
            "Eval vm_compute in (map (fun s => (ss_file s, ss_kind s, ss_text s, ss_line s)) "
            "(filter (fun s => negb (mention_ok s)) c06_hash_mentions)).\n"
            "Eval vm_compute in (map (fun h => (hh_file h, hh_fn h, hh_type h, hh_method h, hh_line h)) "
            "(filter (fun h => negb (hasher_ok h)) c06_hasher_sites)).\n"
            "Eval vm_compute in (List.app (map (fun h => (hs_file h, hs_fn h, hs_name h, hs_method h, hs_line h)) "
            "(filter (fun h => negb (hsite_ok h && hsite_resolved h)) c06_bin_hash_sites)) (List.app "
            "(map (fun s => (ss_file s, ss_fn s, ss_kind s, ss_text s, ss_line s)) "
            "(filter (fun s => negb (bin_ssite_ok s)) c06_bin_shared_sites)) "
            "(map (fun s => (ss_file s, ss_fn s, ss_kind s, ss_text s, ss_line s)) "
            "(filter (fun s => negb (mention_ok s)) c06_bin_hash_mentions)))).\n"
            "Eval vm_compute in (string_hash_fixed c06_hasher_sites, forbid_ok c06_forbid_unsafe, cache_per_call_ok, gen_fns_ok,\n"
            "  c06_cache_new_sites, c06_cache_escapes, filter (fun g => negb (gf_shape_ok g)) c06_gen_id_fns, c06_scanner_selftest).\n"
            "Eval vm_compute in (map (fun s => (ss_file s, ss_fn s, ss_kind s, ss_text s, ss_line s)) "
            "(List.app (filter (fun s => negb (order_site_ok s)) (List.app c06_order_sites c06_bin_order_sites)) "
            "(filter (fun s => negb (dep_site_ok s)) c06_dep_sites))).\n"
            "Eval vm_compute in (css_sort_is_stable, dep_fields_ok, c06_dep_versions, c06_dep_fields).\n")
    rc, out = ctx.coq_eval('c06_offenders', "From Coq Require Import String List Bool ZArith.\nImport ListNotations.\nLocal Open Scope string_scope.\nLocal Open Scope Z_scope.\n" + body, SITE_IMPORTS)
    if rc != 0:
        return "ledger could not be evaluated: " + out[-400:]
    out = re.sub(r"\s+", " ", out)
    parts = [p.strip() for p in out.split(' = ')[1:]]
    labels = ['hash sites (C06_hash_uses_lookup_only / C06_hash_receivers_resolved)', 'constructors (C06_hash_uses_lookup_only)',
              'shared state (C06_state_ledger_discharged, C06_ledger_history_independent, C06_ledger_any_schedule, C06_no_shared_mutable_state: '
              'cells whose class is Mutable = undischarged)',
              'type mentions (C06_hash_mentions_accounted)', 'hashers (C06_fixed_hasher)', 'command-line front ends (C06_binaries_ledger, C06_state_ledger_discharged)',
              'flags(string_hash_fixed, forbid_unsafe, cache_per_call, gen_fns_ok, Cache::new sites, escapes, bad gen fns)',
              'order sites (C06_order_ledger: sort_unstable / heap / par_iter, or state in simplecss / fontdb)',
              'flags2(C06_order_ledger: css_sort_is_stable, dep_fields_ok, dep versions, dep fields)']
    res = []
    for lab, p in zip(labels, parts):
        p = re.sub(r":\s*list .*$|:\s*\(?bool.*$", "", p).strip()
        if p not in ('[]', 'nil') and not (lab.startswith('flags(') and p.startswith('(true, true, true, true')) \
                and not (lab.startswith('flags2') and p.startswith('(true, true')):
            res.append("%s: %s" % (lab, p[:700]))
    return " | ".join(res) if res else "(no ledger entry is rejected)"


def coqchk(ctx):
    """thorough tier: re-check the compiled closure of Props/C06.vo with the independent checker"""
    rc, out = vlib.run(['coqchk', '-o', '-silent', '-Q', vlib.COQ, 'RV', 'RV.Props.C06'], timeout=1500)
    ok = rc == 0 and re.search(r"Axioms:\s*<none>", out) is not None
    ctx.cov['coqchk'] = 'ok' if ok else 'FAILED'
    if not ok:
        ctx.violation("coqchk rejects the compiled proofs of C06 (or reports axioms)", dict(log=out[-2000:]), found_input=False)


def run(ctx):
    quick = ctx.tier == 'quick'
    ctx.cov['trusted_base'] = [vlib.BASE_TRUSTED[0], vlib.BASE_TRUSTED[2],
        "tools/gen_c06.py: syntactic scanner (comment/string stripping, struct-field and binding typing by declared types); "
        "fails closed on untyped receivers of hash-named fields and on hash types in fn results/generic positions; a hash container "
        "flowing through a generic parameter (`impl IntoIterator`) would escape it",
        "rustc: type checking (a hash container can only be received by a binding whose declared type names it), Send/Sync of usvg::Tree and "
        "usvg::Options (static assertion compiled into the harness), forbid(unsafe_code) enforcement",
        "NOT modelled, only observed by e2e-C06: thread scheduling, allocator, OS, third-party crates (roxmltree, fontdb, rustybuzz, "
        "ttf-parser, tiny-skia, image decoders, std::collections internals)"]
    ctx.assumptions = [
        "PARTIAL: the theorems are about source-derived facts (ledger) and a container/counter/Arc/state-machine model; the history and schedule "
        "theorems (C06_history_independent, C06_any_schedule) hold for every program that touches the ledger's cells only as their classes permit "
        "(ImmInit: never written - rustc; CallLocal: Rc is !Send and dropped in the call; ExtInput: files unchanged between calls); real schedules and histories are sampled",
        "container model: the order oracle permutes the storage arbitrarily before every operation but cannot add, drop or alter entries",
        "string_hash is a fixed function (DefaultHasher::new() has constant keys); hash collisions only make more ids 'taken'",
        "compile-time configuration `--cfg resvg_verif` hooks are excluded from the scan (never part of a normal build)"]
    broken = ctx.translate()
    res = ctx.coq_props()
    proof_ok = res['ok'] and not broken
    if proof_ok and ctx.tier == 'thorough':
        coqchk(ctx)
    st = (ctx.status or {}).get('tables', {}).get('c06_sites', {})
    ctx.cov['ledger'] = {k: st.get(k) for k in ('files', 'hash_sites', 'shared_sites', 'hasher_sites', 'unresolved')}
    for k in ('hash_sites', 'shared_sites', 'hasher_sites', 'files'):
        ctx.note_case('ledger/%s/%s' % (k, st.get(k)), nontrivial=bool(st.get(k)))

    binp, blog = ctx.harness('release')
    if binp is None:
        ctx.violation("harness does not build against the current tree (e2e-C06 cannot run)", dict(build_log=blog[-2000:]), found_input=False)
        return

    # ------------------------------------------------------------------ S: e2e-C06
    deep = (not quick) or (not proof_ok)     # a broken proof / tie turns the oracle into the search engine (DESIGN 1.5)
    items, ncorp, nwit, ngen = pick_items(ctx, quick and proof_ok)
    threads = [2, 3 + ctx.rng.below(6), 16] if not deep else [2, 4, 8, 16]
    reps = 3
    seed = ctx.rng.next() % (1 << 31)
    jobs = 4 if not deep else 6
    ctx.log("e2e-C06: %d items (%d corpus, %d witness, %d generated), threads %s" % (len(items), ncorp, nwit, ngen, threads))
    base, mism, stats, failures = run_e2e(ctx, binp, items, threads, reps, seed, jobs)
    excluded = []
    if failures:
        # find the documents that kill the process (not a C06 matter: C01/C02) and rerun without them
        idxs = sorted(i for f in failures for i in f['group'])
        fd = fresh_digests(ctx, binp, items, idxs)
        bad = [i for i in idxs if 'crash' in fd[i]]
        excluded = bad
        ctx.log("e2e-C06 worker died (%s); isolated crashing inputs: %s" % (failures[0]['tail'][-200:].replace('\n', ' '), [doc_of(items[i])[-60:] for i in bad]))
        if not bad:
            ctx.violation("e2e-C06 worker process failed but no single input reproduces it in a fresh process "
                          "(schedule- or history-dependent crash)", dict(failures=failures[:3], threads=threads, seed=seed), found_input=False)
        keep = [i for i in range(len(items)) if i not in bad]
        items2 = [items[i] for i in keep]
        base2, mism2, stats, failures2 = run_e2e(ctx, binp, items2, threads, reps, seed, jobs)
        if failures2:
            ctx.violation("e2e-C06 worker process keeps failing", dict(failures=failures2[:3]), found_input=False)
        for j, i in enumerate(keep):
            base[i] = base2[j]
        remap = {str(j): i for j, i in enumerate(keep)}
        mism = mism2
        items_for_mism = items2
    else:
        items_for_mism = items
    ncomp = sum(s.get('comparisons', 0) for s in stats)
    nparsed = sum(s.get('parsed', 0) for s in stats)
    ctx.cov['e2e_in_process'] = dict(items=len(items), parsed=nparsed, comparisons=ncomp, threads=threads, reps=reps,
                                     excluded_crashing=[doc_of(items[i])[-80:] for i in excluded])
    seen = set()
    for m in mism:
        key = (m.get('idx'), m.get('what'))
        if key in seen:
            continue
        seen.add(key)
        if len(seen) > 5:
            break
        # indices printed by the workers are positions in the list they were given
        try:
            it = items_for_mism[int(m.get('idx'))]
        except (TypeError, ValueError, IndexError):
            it = ('-', '?')
        ctx.violation("not reproducible in one process: %s differs in phase %s (%s vs %s)"
                      % (m.get('what'), m.get('phase'), str(m.get('base'))[:40], str(m.get('got'))[:40]),
                      dict(kind='in-process', opts=it[0], doc=it[1], phase=m.get('phase'), what=m.get('what'),
                           base=m.get('base'), got=m.get('got'), threads=threads, seed=seed,
                           cmd="rvh c06-e2e %d %s %d  (stdin: 0<TAB>opts<TAB>doc)" % (seed, ','.join(map(str, threads)), reps)))

    # (d) fresh processes
    live = [i for i in range(len(items)) if base[i] is not None]
    nfresh = 2 if not deep else 4
    n_fresh_cmp = 0
    fresh_bad = {}
    for r in range(nfresh):
        fd = fresh_digests(ctx, binp, items, live)
        for i in live:
            n_fresh_cmp += 1
            if fd[i] != base[i] and i not in fresh_bad:
                fresh_bad[i] = (r, fd[i])
    for i, (r, got) in list(fresh_bad.items())[:5]:
        what = 'to_string' if got.get('s') != base[i].get('s') else 'pixels'
        ctx.violation("not reproducible across processes: %s of a fresh process differs from the first process (%s vs %s)"
                      % (what, str(base[i])[:60], str(got)[:60]),
                      dict(kind='fresh-process', opts=items[i][0], doc=items[i][1], first=base[i], fresh=got,
                           cmd="rvh c06-digest  (stdin: 0<TAB>opts<TAB>doc), run twice"))
    ctx.cov['e2e_fresh_process'] = dict(items=len(live), rounds=nfresh, comparisons=n_fresh_cmp)

    # (c') history with look-alike raster images: pairs rendered one after the other in ONE process (both orders)
    pairs = image_pair_docs(ctx.rng, 6 if not deep else 24)
    hitems = []
    for a, b in pairs:
        hitems += [('-', a), ('-', b)]
    hitems = hitems + [hitems[i ^ 1] for i in range(len(hitems))]      # ... and B before A
    hbase, hmism, hstats, hfail = run_e2e(ctx, binp, hitems, [2], 2, seed, 1)
    if hfail:
        ctx.violation("e2e-C06 history pass (raster image pairs) died", dict(failures=hfail[:2]), found_input=False)
    for m in hmism[:3]:
        it = hitems[int(m.get('idx', 0))]
        ctx.violation("not reproducible in one process (raster image pairs): %s differs in phase %s" % (m.get('what'), m.get('phase')),
                      dict(kind='in-process', opts='-', doc=it[1], phase=m.get('phase'), what=m.get('what'), threads=[2], seed=seed))
    hfresh = fresh_digests(ctx, binp, hitems, list(range(len(hitems))))
    nh = 0
    for i in range(len(hitems)):
        nh += 1
        ctx.note_case("e2e/imgpair/%s" % (hbase[i] or {}).get('p', ''), nontrivial=bool(hbase[i]) and not str((hbase[i] or {}).get('s', '')).startswith(('error', 'panic')))
        if hbase[i] is not None and hfresh[i] != hbase[i]:
            j = i ^ 1
            ctx.violation("history dependence: a document with a raster image rendered after a look-alike image (same size, byte length and leading "
                          "256 bytes, different pixels) in one process differs from its rendering in a fresh process (%s vs %s)"
                          % (str(hbase[i])[:70], str(hfresh[i])[:70]),
                          dict(kind='history-pair', opts='-', doc=hitems[i][1], rendered_before=hitems[j][1], in_process=hbase[i], fresh=hfresh[i],
                               cmd="rvh c06-e2e 1 2 2 with stdin lines 0<TAB>-<TAB><rendered_before> and 1<TAB>-<TAB><doc>; compare with rvh c06-digest of <doc>"))
            break
    # distinct pictures must give distinct pixels (the pair really differs)
    for i in range(0, 2 * len(pairs), 2):
        if hfresh[i].get('p') == hfresh[i + 1].get('p'):
            ctx.violation("generator error: the two images of a pair render identically", dict(doc=hitems[i][1]), found_input=False)
            break
    ctx.cov['e2e_history_image_pairs'] = dict(pairs=len(pairs), comparisons=nh)

    # (a') history search: state-targeted documents + a sample of the items, k renders in a row on one thread vs fresh thread
    sd = [('-', d) for d in state_docs(ctx.rng, 16 if not deep else 120)]
    pool = [it for it in items if any(x in it[1] for x in ('/filters/', '/pattern/', '/masking/', '/painting/'))] or items
    hsel = ctx.rng.sample(pool, min(40 if not deep else 500, len(pool)))
    nhist = history_oracle(ctx, binp, sd + hsel, 10 if not deep else 12)
    ctx.log("e2e-C06 history search: %d documents, %s comparisons" % (len(sd) + len(hsel), nhist))

    # (d') the shipped binaries in fresh processes with several font sources
    cli_fresh_oracle(ctx, 6 if not deep else 10)
    kinds = dict(ok=0, error=0, panic=0)
    for i in live:
        s = base[i].get('s', '')
        k = 'error' if s.startswith('error:') else ('panic' if s.startswith('panic') else 'ok')
        kinds[k] += 1
        src = 'gen' if not items[i][1].startswith('@') else ('witness' if '/witness/' in items[i][1] else 'corpus')
        ctx.note_case("e2e/%s/%s" % (src, base[i].get('s', '') + base[i].get('p', '')), nontrivial=(k == 'ok'))
    ctx.cov['e2e_outcomes'] = kinds
    ctx.cov['e2e_cases'] = ncomp + n_fresh_cmp + nh + nhist + ctx.cov.get('e2e_cli_fresh_process', {}).get('runs', 0)
    ctx.add_sample(dict(op='e2e-C06', doc=doc_of(items[0]), digest=base[0]))
    ctx.add_sample(dict(op='e2e-C06', doc=items[-1][1][:600], digest=base[-1]))
    ctx.cov['rule'] = ("ledger: every method call / for-in / whole-value use of a HashMap/HashSet typed binding or field, every shared-state "
                       "or ambient-input construct, every hasher construction in crates/{usvg,resvg}/src (lib parts).  e2e-C06: corpus files "
                       "(quick: 2 per feature directory + extra text/filters/images/masking; thorough: all 1695), /verif/corpus/witness, generated "
                       "documents (many ids incl. clashes with generated ids, all four caches, nested references, filter result names, text); for each: "
                       "3 repeated parses+renders, reversed and permuted processing order, N threads (half render the shared Tree, half re-parse with the "
                       "shared Arc<fontdb>), fresh processes; pairs of documents with look-alike raster images (equal size / byte length / first 256 bytes) in both "
                       "orders in one process vs fresh processes; the real resvg and usvg binaries x 3 text documents with font fallback x 3 --use-fonts-dir + "
                       "2 --use-font-file (+ one duplicate) x 6 fresh processes, byte equality; history search: 16 state-targeted documents (zero-size pattern "
                       "tiles before a valid pattern, displacement map after same-size intermediates, small-sigma blurs, nested layers / patterns) + 40 "
                       "filter/pattern/mask corpus items, each tree rendered on a fresh thread, 10 times in a row on one long-lived thread, and on a fresh thread "
                       "of the used process.  Order ledger: every sort/dedup/heap/par site of usvg, resvg, main.rs, simplecss, fontdb.  "
                       "Non-trivial = the document parses; distinct by output digest.")

    # ------------------------------------------------------------------ verdict on proofs / ties (DESIGN 1.5)
    if not proof_ok:
        why = offending_sites(ctx) if not res['failed'] or any('C06Sites' in f or 'Props/C06' in f for f in res['failed']) else ''
        text = ("C06 obligations no longer check: failed=%s audit=%s broken_ties=%s; rejected ledger entries: %s"
                % (res['failed'], res['audit'], [b['name'] + ': ' + b['err'][:200] for b in broken], why))
        found = [v for v in ctx.violations if v[2]]
        if found:
            # the deep oracle already produced a concrete non-reproducible input; record the broken obligation with it
            ctx.violation(text + " -- a non-reproducible input was found by e2e-C06 (see the other replay files)",
                          dict(failed_files=res['failed'], audit=res['audit'], broken_ties=broken, offenders=why,
                               witness_replays=[v[1] for v in found][:3]), found_input=True)
        else:
            ctx.violation(text, dict(failed_files=res['failed'], audit=res['audit'], broken_ties=broken, offenders=why,
                                     searched=dict(items=len(items), threads=threads, fresh_rounds=nfresh),
                                     log_tail=res['log'][-2500:]), found_input=False)


def replay(ctx, path):
    r = json.load(open(path))
    print(json.dumps({k: v for k, v in r.items() if k != 'replay'}, indent=1))
    rp = r.get('replay', {})
    if 'doc' not in rp and rp.get('kind') != 'stdin-chunks':
        print(json.dumps(rp, indent=1)[:6000])
        return 0
    binp, _ = ctx.harness('release')
    if binp is None:
        print("harness does not build")
        return 1
    if rp.get('kind') == 'stdin-chunks' and rp.get('chunks'):
        from props import c20
        return c20.replay_chunks(ctx, rp)
    if rp.get('kind') == 'cli-fresh':
        print("re-running the fresh-process oracle of the real binaries (documents and font arguments are fixed in c06.py)")
        print(json.dumps(rp, indent=1, ensure_ascii=False)[:3000])
        n0 = len(ctx.violations)
        cli_fresh_oracle(ctx, 10)
        for v in ctx.violations[n0:]:
            print("REPRODUCED: " + v[0])
        return 1 if len(ctx.violations) > n0 else 0
    if rp.get('kind') == 'history-renders':
        rc, out = ctx.rvh(binp, ['c06-history', str(rp.get('k', 10))], inp="0\t%s\t%s\n" % (rp.get('opts', '-'), rp['doc']))
        print("document: %s" % rp['doc'][:2000])
        print(out)
        bad = 'MISMATCH' in out
        print("REPRODUCED: renders of one tree differ (fresh thread vs repeated renders on one thread)" if bad else "not reproduced")
        return 1 if bad else 0
    if rp.get('kind') == 'history-pair':
        a, b = rp['rendered_before'], rp['doc']
        rc, out = ctx.rvh(binp, ['c06-e2e', '1', '2', '2'], inp="0\t-\t%s\n1\t-\t%s\n" % (a, b))
        inproc = [l for l in out.splitlines() if l.startswith('1\t')]
        rc, fresh = ctx.rvh(binp, ['c06-digest'], inp="1\t-\t%s\n" % b)
        print("document rendered AFTER its look-alike in one process: %s" % (inproc[0] if inproc else out[-300:]))
        print("the same document in a fresh process:                  %s" % fresh.strip())
        bad = not inproc or inproc[0].strip() != fresh.strip()
        print("REPRODUCED: outputs differ" if bad else "not reproduced")
        return 1 if bad else 0
    item = (rp.get('opts', '-'), rp['doc'])
    print("document: %s" % rp['doc'][:2000])
    outs = []
    for k in range(6):
        rc, out = ctx.rvh(binp, ['c06-digest'], inp="0\t%s\t%s\n" % item)
        outs.append(out.strip())
        print("fresh process %d: %s" % (k, out.strip()))
    rc, out = ctx.rvh(binp, ['c06-e2e', str(rp.get('seed', 1)), ','.join(map(str, rp.get('threads', [2, 16]))), '3'],
                      inp="0\t%s\t%s\n" % item)
    print("in-process passes:\n" + out)
    bad = len(set(outs)) > 1 or 'MISMATCH' in out
    print("REPRODUCED: outputs differ" if bad else "not reproduced in 6 fresh processes + in-process passes (order-dependent outputs are probabilistic)")
    return 1 if bad else 0
